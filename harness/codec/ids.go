package main

// Exact-string differential for Otlp/Ids.v: the real ResourceID / ScopeID of generated resources and
// scopes against the model's composition (tags, delimiters, nesting, order of the parts).  The atom
// renderers of strconv / hex are tabulated per case (the model takes them as parameters); the entries are
// sorted with the implementation's own sort.Stable(common.AttributeEntries).

import (
	"encoding/hex"
	"fmt"
	"sort"
	"strconv"
	"strings"

	"github.com/open-telemetry/otel-arrow/pkg/otel/common"
	"github.com/open-telemetry/otel-arrow/pkg/otel/common/otlp"
	"go.opentelemetry.io/collector/pdata/pcommon"
	"go.opentelemetry.io/collector/pdata/plog"
	"go.opentelemetry.io/collector/pdata/pmetric"
	"go.opentelemetry.io/collector/pdata/ptrace"
)

type atomTab struct {
	ids    map[string]int
	rows   []string
	render map[string]string // kind+rendering -> raw (sample check of the unique-decodability hypotheses)
	clash  string
}

func bytesCoq(s string) string {
	var parts []string
	for i := 0; i < len(s); i++ {
		parts = append(parts, strconv.Itoa(int(s[i])))
	}
	return "[" + strings.Join(parts, ";") + "]"
}

func (t *atomTab) atom(kind, raw, rendering string) int {
	key := kind + "\x00" + raw
	if id, ok := t.ids[key]; ok {
		return id
	}
	id := len(t.ids) + 1
	t.ids[key] = id
	t.rows = append(t.rows, fmt.Sprintf("(%d, %s)", id, bytesCoq(rendering)))
	rk := kind + "\x00" + rendering
	if old, ok := t.render[rk]; ok && old != raw {
		t.clash = fmt.Sprintf("%s atoms %q and %q are both rendered %q", kind, old, raw, rendering)
	}
	t.render[rk] = raw
	return id
}

func (t *atomTab) val(v pcommon.Value) string {
	switch v.Type() {
	case pcommon.ValueTypeStr:
		return fmt.Sprintf("IStr [%d]", t.atom("s", v.Str(), strconv.Quote(v.Str())))
	case pcommon.ValueTypeInt:
		return fmt.Sprintf("IInt (%d)%%Z", v.Int()) // rendered by the model itself (Otlp/Atoms.v fmt_int)
	case pcommon.ValueTypeDouble:
		r := strconv.FormatFloat(v.Double(), 'E', -1, 64)
		return fmt.Sprintf("IDouble %d", t.atom("d", r, r))
	case pcommon.ValueTypeBool:
		return fmt.Sprintf("IBool %v", v.Bool())
	case pcommon.ValueTypeBytes:
		r := hex.EncodeToString(v.Bytes().AsRaw())
		return fmt.Sprintf("IBytes [%d]", t.atom("x", r, r))
	case pcommon.ValueTypeSlice:
		var parts []string
		for i := 0; i < v.Slice().Len(); i++ {
			parts = append(parts, t.val(v.Slice().At(i)))
		}
		return "ISlice [" + strings.Join(parts, "; ") + "]"
	case pcommon.ValueTypeMap:
		return "IMap " + t.entries(v.Map())
	}
	return "IEmpty"
}

func (t *atomTab) entries(m pcommon.Map) string {
	tmp := make(common.AttributeEntries, 0, m.Len())
	m.Range(func(k string, v pcommon.Value) bool {
		tmp = append(tmp, common.AttributeEntry{Key: k, Value: v})
		return true
	})
	sort.Stable(tmp)
	var parts []string
	for _, e := range tmp {
		parts = append(parts, fmt.Sprintf("([%d], %s)", t.atom("s", e.Key, strconv.Quote(e.Key)), t.val(e.Value)))
	}
	return "[" + strings.Join(parts, "; ") + "]"
}

func newAtomTab() *atomTab { return &atomTab{ids: map[string]int{}, render: map[string]string{}} }

func resourceIDCase(r pcommon.Resource, url string) (string, string) {
	t := newAtomTab()
	ents := t.entries(r.Attributes())
	du := uint64(r.DroppedAttributesCount()) // rendered by the model itself (fmt_uint)
	real := otlp.ResourceID(r, url)
	return fmt.Sprintf(" ([%s], IdRes %s %d %s, %s)", strings.Join(t.rows, "; "), ents, du, bytesCoq(url), bytesCoq(real)), t.clash
}

func scopeIDCase(s pcommon.InstrumentationScope, url string) (string, string) {
	t := newAtomTab()
	n := t.atom("s", s.Name(), strconv.Quote(s.Name()))
	v := t.atom("s", s.Version(), strconv.Quote(s.Version()))
	ents := t.entries(s.Attributes())
	du := uint64(s.DroppedAttributesCount())
	real := otlp.ScopeID(s, url)
	return fmt.Sprintf(" ([%s], IdScope [%d] [%d] %s %d %s, %s)", strings.Join(t.rows, "; "), n, v, ents, du, bytesCoq(url), bytesCoq(real)), t.clash
}

// idCases renders every resource and scope of a batch.
func idCases(data any, out *Output, prop string, lines *[]string) {
	add := func(line, clash string) {
		*lines = append(*lines, line)
		if clash != "" {
			out.Violation(prop, "atom-rendering-collision", "two different atoms have the same rendering (refutes a unique-decodability hypothesis of Otlp/Ids.v): "+clash, nil)
		}
	}
	switch d := data.(type) {
	case ptrace.Traces:
		for i := 0; i < d.ResourceSpans().Len(); i++ {
			rs := d.ResourceSpans().At(i)
			add(resourceIDCase(rs.Resource(), rs.SchemaUrl()))
			for j := 0; j < rs.ScopeSpans().Len(); j++ {
				add(scopeIDCase(rs.ScopeSpans().At(j).Scope(), rs.ScopeSpans().At(j).SchemaUrl()))
			}
		}
	case plog.Logs:
		for i := 0; i < d.ResourceLogs().Len(); i++ {
			rs := d.ResourceLogs().At(i)
			add(resourceIDCase(rs.Resource(), rs.SchemaUrl()))
			for j := 0; j < rs.ScopeLogs().Len(); j++ {
				add(scopeIDCase(rs.ScopeLogs().At(j).Scope(), rs.ScopeLogs().At(j).SchemaUrl()))
			}
		}
	case pmetric.Metrics:
		for i := 0; i < d.ResourceMetrics().Len(); i++ {
			rs := d.ResourceMetrics().At(i)
			add(resourceIDCase(rs.Resource(), rs.SchemaUrl()))
			for j := 0; j < rs.ScopeMetrics().Len(); j++ {
				add(scopeIDCase(rs.ScopeMetrics().At(j).Scope(), rs.ScopeMetrics().At(j).SchemaUrl()))
			}
		}
	}
}

const idCheckCoq = `(* Otlp/Ids.v against the real ResourceID / ScopeID: strconv.Quote, FormatFloat and hex renderings are tabulated per case
   (strings, byte strings and keys are named by their atom id); integers, dropped counts and booleans are rendered by the
   model's own fmt_int / fmt_uint / fmt_bool (Otlp/Atoms.v), which are thereby compared with strconv *)
Inductive idobj :=
| IdRes (attrs : list (list N * val N)) (dropped : N) (url : list N)
| IdScope (name ver : list N) (attrs : list (list N * val N)) (dropped : N) (url : list N).
Definition lk (tab : list (N * list N)) (i : N) : list N :=
  match find (fun p => N.eqb (fst p) i) tab with Some p => snd p | None => [] end.
Definition id_render (tab : list (N * list N)) (o : idobj) : list N :=
  let q := fun s : list N => lk tab (hd 0 s) in
  let fd := fun d : N => lk tab d in
  match o with
  | IdRes a d u => resource_id N q fmt_int fd fmt_bool q fmt_uint (fun m => m) a d u
  | IdScope n v a d u => scope_id N q fmt_int fd fmt_bool q fmt_uint (fun m => m) n v a d u
  end.
Definition id_check (c : list (N * list N) * idobj * list N) : bool :=
  let '(tab, o, real) := c in list_eqb N.eqb (id_render tab o) real.
Definition id_mismatch := Eval vm_compute in failing id_check id_cases.
Print id_mismatch.
`
