package main

// C01–C03: stream histories through the real producer and consumer; the equivalence predicate of
// Otlp/Equiv.v is evaluated in Coq on the real input and the real output of every batch.

import (
	"fmt"
	"strings"

	cfgpkg "github.com/open-telemetry/otel-arrow/pkg/config"
	"github.com/open-telemetry/otel-arrow/pkg/otel/arrow_record"
	"go.opentelemetry.io/collector/pdata/plog"
	"go.opentelemetry.io/collector/pdata/pmetric"
	"go.opentelemetry.io/collector/pdata/ptrace"
)

func init() {
	subcommands["rt_traces"] = func(o opts, out *Output) { runRoundTrip(o, out, 0) }
	subcommands["rt_logs"] = func(o opts, out *Output) { runRoundTrip(o, out, 1) }
	subcommands["rt_metrics"] = func(o opts, out *Output) { runRoundTrip(o, out, 2) }
}

func runRoundTrip(o opts, out *Output, sig int) {
	out.Imports = "From Verif Require Import Base.ListX Obf.Obfuscate Otlp.Equiv Otlp.Ids Otlp.Atoms Otap.Tables Otap.Attrs."
	var tb strings.Builder
	tb.WriteString("Definition table_cases : list tcase := [\n")
	nt := 0
	var evCases, lkCases, ptCases []string
	r := NewRng(o.seed)
	stats := map[string]int{}
	signal := []string{"traces", "logs", "metrics"}[sig]
	var sb strings.Builder
	sb.WriteString("Definition rt_cases : list (list tree * list tree) := [\n")
	nc := 0
	var idLines []string
	for c := 0; c < o.n; c++ {
		g := &OGen{r: r.Fork(), Wide: r.Chance(25), Mono: monoPick(r)}
		var options []cfgpkg.Option
		optName := "default"
		if r.Chance(30) {
			// the content decoded must not depend on the producer's options: dictionary limits with reuse (reset
			// regime) and without (overflow), no dictionaries, no compression
			if r.Bool() {
				options, optName = optionSet(r)
			} else {
				options, optName = randomOptions(r)
			}
		}
		stats["options_"+optName]++
		leanBase := 0
		pr := newProducerRun(options...)
		cons := arrow_record.NewConsumer()
		nb := 1 + r.Intn(5)
		if optName != "default" {
			nb = 3 + r.Intn(6)
		}
		// a consumer may lag behind the producer: up to `lag` batches are produced before the oldest
		// one is decoded (always in stream order)
		lag := []int{0, 0, 1, 2}[r.Intn(4)]
		stats[fmt.Sprintf("lag_%d", lag)]++
		type queued struct {
			b    int
			in   itemsOut
			res  *batchOut
			data any
			big  bool // compared on the Go side only (too large to hand to Coq as a term)
		}
		var queue []queued
		consumeOne := func(q queued) bool {
			b, in, res, data := q.b, q.in, q.res, q.data
			small := itemCount(data) <= 40 && !q.big
			var outItems itemsOut
			cr := consumeAny(cons, signal, res.Bar)
			stats["consumer_"+cr.Class]++
			replay := map[string]any{"seed": o.seed, "case": c, "batch": b, "signal": signal, "lag": lag}
			if cr.Class != "ok" {
				out.Violation(fmt.Sprintf("C0%d", sig+1), "valid-batch-not-decoded", fmt.Sprintf("the consumer did not decode a valid batch: %s %s", cr.Class, cr.Msg), replay)
				return false
			}
			outItems = cr.Trees
			if sig == 2 && cr.DecodedPoints != nil && small {
				if pc, ok := pointCase(res.Recs, cr.DecodedPoints); ok {
					ptCases = append(ptCases, " "+pc)
				}
			}
			if sig < 2 && cr.Decoded != nil && small {
				itemTy := int32(41)
				if sig == 1 {
					itemTy = 31
				}
				if sig == 0 {
					if cc, ok := childCase(res.Recs, 42, 44, "name", cr.DecodedEvents); ok {
						evCases = append(evCases, " "+cc)
					}
					if cc, ok := childCase(res.Recs, 43, 45, "trace_id", cr.DecodedLinks); ok {
						lkCases = append(lkCases, " "+cc)
					}
				}
				if tc, ok := tableCase(res.Recs, itemTy, cr.Decoded); ok {
					if nt > 0 {
						tb.WriteString(";\n")
					}
					tb.WriteString(" " + tc)
					nt++
				}
			}
			if small {
				if nc > 0 {
					sb.WriteString(";\n")
				}
				fmt.Fprintf(&sb, " (%s,\n  %s)", in.Coq, outItems.Coq)
				nc++
			} else {
				stats["go_side_only_batches"]++
			}
			if d := diffKeys(in.Keys, outItems.Keys); d != "" {
				// Go-side oracle (same normalisations, used for diagnostics and for the failing-input search)
				out.Violation(fmt.Sprintf("C0%d", sig+1), "roundtrip-differs", "decoded telemetry differs from the encoded one: "+d, replay)
			}
			out.AddCase(map[string]any{"case": c, "batch": b, "lag": lag, "items": itemCount(data), "payloads": describe(res.Bar)}, true, fmt.Sprintf("%s batch=%d items=%s lag=%d", signal, b, bucketN(itemCount(data)), lag))
			return true
		}
		okSoFar := true
		for b := 0; b < nb && okSoFar; b++ {
			// a tenth of the histories start with one or two all-zero batches (typed zeros everywhere)
			g.Zero = c%10 == 3 && b < 1+c%2
			data := genAnyN(g, r, sig, 1+r.Intn(7))
			g.Zero = false
			big := false
			if c%40 == 13 && b <= 1 {
				// sizes far outside what the generator draws: 70 KB names, 2 MB values, 20001 children of one item
				data, big = extremeBatch(sig), true
				stats["extreme_batches"]++
			} else if c%40 == 5 && c < 400 && b == 1 {
				// tens of thousands of attribute-bearing items (inside the id width) in a batch that also needs a schema update
				switch sig {
				case 0:
					data = manySpans(40000, true, 1)
				case 1:
					data = manyLogs(40000)
				default:
					data = manyMetrics(40000)
				}
				stats["large_batches"]++
			} else if c%40 == 27 {
				// every string column of every record fresh on every item, each item in its own resource and scope
				data = distinctRich(sig, 100+r.Intn(250), 1000*b, true)
				stats["distinct_rich_batches"]++
			} else if r.Chance(4) {
				wg := &OGen{r: r.Fork(), Wide: true}
				data = genAnyN(wg, r, sig, 300+r.Intn(200)) // many dictionary columns crossing an index width in one batch
			} else if optName != "default" && r.Bool() {
				// many items over a sliding window of names, each repeated: crosses an 8-bit dictionary limit with a low
				// distinct/total ratio (reset) or a high one (overflow)
				data = leanBatch(sig, 60+r.Intn(80), 1+r.Intn(5), &leanBase)
			}
			if itemCount(data) == 0 {
				continue
			}
			var in itemsOut
			switch d := data.(type) {
			case ptrace.Traces:
				in = tracesItems(d)
			case plog.Logs:
				in = logsItems(d)
			case pmetric.Metrics:
				in = metricsItems(d)
			}
			if len(idLines) < 400 && !big {
				idCases(data, out, fmt.Sprintf("C0%d", sig+1), &idLines)
			}
			res := pr.produce(data)
			if res.Class != "ok" {
				stats["producer_"+res.Class]++
				// every generated batch is inside the property's domain (few parents, valid strings): not encoding it is a
				// round-trip failure
				out.Violation(fmt.Sprintf("C0%d", sig+1), "valid-batch-not-encoded", fmt.Sprintf("the producer did not encode a valid batch (%s): %s", res.Class, res.Msg),
					map[string]any{"seed": o.seed, "case": c, "batch": b, "signal": signal, "options": optName})
				break
			}
			for _, e := range res.Events {
				stats["event_"+e.Kind]++
			}
			queue = append(queue, queued{b, in, res, data, big})
			for len(queue) > lag && okSoFar {
				okSoFar = consumeOne(queue[0])
				queue = queue[1:]
			}
		}
		for len(queue) > 0 && okSoFar {
			okSoFar = consumeOne(queue[0])
			queue = queue[1:]
		}
		func() { defer func() { recover() }(); pr.p.Close(); cons.Close() }()
	}
	// one long stream under a small consumer memory limit: every batch of an arbitrarily long history must keep decoding
	// (Go-side comparison only)
	{
		g := &OGen{r: r.Fork(), Mono: 2}
		pr := newProducerRun()
		cons := arrow_record.NewConsumer(arrow_record.WithMemoryLimit(512 << 10))
		nLong := 1200
		for b := 0; b < nLong; b++ {
			data := genAnyN(g, r, sig, 6)
			if itemCount(data) == 0 {
				continue
			}
			var in itemsOut
			switch d := data.(type) {
			case ptrace.Traces:
				in = tracesItems(d)
			case plog.Logs:
				in = logsItems(d)
			case pmetric.Metrics:
				in = metricsItems(d)
			}
			res := pr.produce(data)
			if res.Class != "ok" {
				break
			}
			cr := consumeAny(cons, signal, res.Bar)
			replay := map[string]any{"seed": o.seed, "long_stream": true, "batch": b, "signal": signal, "consumer_memory_limit": 512 << 10}
			if cr.Class != "ok" {
				out.Violation(fmt.Sprintf("C0%d", sig+1), "long-stream-stops-decoding", fmt.Sprintf("batch %d of a long stream of small batches was not decoded (consumer memory limit 512 KiB): %s %s", b, cr.Class, cr.Msg), replay)
				break
			}
			if d := diffKeys(in.Keys, cr.Trees.Keys); d != "" {
				out.Violation(fmt.Sprintf("C0%d", sig+1), "roundtrip-differs", "long stream: decoded telemetry differs from the encoded one: "+d, replay)
				break
			}
			stats["long_stream_batches"]++
		}
		func() { defer func() { recover() }(); pr.p.Close(); cons.Close() }()
		out.AddCase(map[string]any{"long_stream_batches": stats["long_stream_batches"], "consumer_memory_limit": 512 << 10}, true, signal+" long stream")
	}
	sb.WriteString("\n].\n")
	out.Coq.WriteString(sb.String())
	out.Coq.WriteString(`(* the property on the real input/output of every batch of every history *)
Definition rt_propfail := Eval vm_compute in failing (fun c : list tree * list tree => equivb (fst c) (snd c)) rt_cases.
Print rt_propfail.
`)
	out.Lists = append(out.Lists, "rt_propfail")
	idParts := strings.SplitN(idCheckCoq, "Definition id_check", 2)
	out.Coq.WriteString(idParts[0])
	out.Coq.WriteString("Definition id_cases : list (list (N * list N) * idobj * list N) := [\n" + strings.Join(idLines, ";\n") + "\n].\n")
	out.Coq.WriteString("Definition id_check" + idParts[1])
	out.Lists = append(out.Lists, "id_mismatch")
	stats["id_cases"] = len(idLines)
	if sig < 2 {
		tb.WriteString("\n].\n")
		// the type tcase is defined in the check text; emit definitions in order
		parts := strings.SplitN(tableCheckCoq, "Definition lookup_attrs", 2)
		out.Coq.WriteString(parts[0])
		out.Coq.WriteString(tb.String())
		out.Coq.WriteString("Definition lookup_attrs" + parts[1])
		out.Lists = append(out.Lists, "table_mismatch")
		stats["table_cases"] = nt
		if sig == 0 {
			cparts := strings.SplitN(childCheckCoq, "Definition event_mismatch", 2)
			out.Coq.WriteString(cparts[0])
			out.Coq.WriteString("Definition event_cases : list ccase := [\n" + strings.Join(evCases, ";\n") + "\n].\n")
			out.Coq.WriteString("Definition link_cases : list ccase := [\n" + strings.Join(lkCases, ";\n") + "\n].\n")
			out.Coq.WriteString("Definition event_mismatch" + cparts[1])
			out.Lists = append(out.Lists, "event_mismatch", "link_mismatch")
			stats["event_cases"] = len(evCases)
			stats["link_cases"] = len(lkCases)
		}
	}
	if sig == 2 {
		pparts := strings.SplitN(pointCheckCoq, "Definition point_mismatch", 2)
		out.Coq.WriteString(pparts[0])
		out.Coq.WriteString("Definition point_cases : list pcase := [\n" + strings.Join(ptCases, ";\n") + "\n].\n")
		out.Coq.WriteString("Definition point_mismatch" + pparts[1])
		out.Lists = append(out.Lists, "point_mismatch")
		stats["point_cases"] = len(ptCases)
	}
	out.Extra["stats"] = stats
}
