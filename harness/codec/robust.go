package main

// C08: producer robustness. Histories of generated batches of all signals (incl. degenerate shapes) on
// one producer; every outcome is classified ok | error | panic(site).

import (
	"fmt"
	"regexp"
	"runtime/debug"
	"strings"

	cfgpkg "github.com/open-telemetry/otel-arrow/pkg/config"
	"go.opentelemetry.io/collector/pdata/plog"
	"go.opentelemetry.io/collector/pdata/pmetric"
	"go.opentelemetry.io/collector/pdata/ptrace"
)

func init() { subcommands["robust"] = runRobust }

var addrRe = regexp.MustCompile(`0x[0-9a-f]+|\d+`)

func panicSite(msg string) string {
	m := addrRe.ReplaceAllString(msg, "#")
	if len(m) > 70 {
		m = m[:70]
	}
	return m
}

// first frame of the stack inside otel-arrow (not test harness, not runtime)
func firstRepoFrame(stack string) string {
	lines := strings.Split(stack, "\n")
	for i, l := range lines {
		if strings.Contains(l, "otel-arrow/pkg/") && !strings.Contains(l, "harness") && i+1 < len(lines) {
			fn := l
			if j := strings.LastIndex(fn, "("); j > 0 {
				fn = fn[:j]
			}
			if j := strings.LastIndex(fn, "/"); j >= 0 {
				fn = fn[j+1:]
			}
			return fn
		}
	}
	return "?"
}

type anyGen func(g *OGen, r *Rng) any

func genAny(g *OGen, r *Rng, signal int) any { return genAnyN(g, r, signal, 1+r.Intn(5)) }

func genAnyN(g *OGen, r *Rng, signal int, maxItems int) any {
	sh := TShape{MaxRes: 2, MaxScopes: 2, MaxSpans: maxItems}
	if r.Chance(20) {
		// several resources and scopes in one batch: identical ones come back after different ones (A, B, A)
		sh.MaxRes, sh.MaxScopes = 5, 4
	}
	switch signal {
	case 0:
		return g.Traces(sh)
	case 1:
		return g.Logs(sh)
	default:
		return g.Metrics(sh)
	}
}

func itemCount(d any) int {
	switch x := d.(type) {
	case ptrace.Traces:
		return x.SpanCount()
	case plog.Logs:
		return x.LogRecordCount()
	case pmetric.Metrics:
		return x.MetricCount()
	}
	return 0
}

func (pr *producerRun) produceWithStack(data any) (out *batchOut, site string) {
	func() {
		defer func() {
			if r := recover(); r != nil {
				out = &batchOut{Class: "panic", Msg: fmt.Sprint(r)}
				site = firstRepoFrame(string(debug.Stack()))
			}
		}()
		out = pr.produceRaw(data)
	}()
	return
}

func runRobust(o opts, out *Output) {
	out.Imports = "From Verif Require Import Base.ListX."
	r := NewRng(o.seed)
	stats := map[string]int{}
	for c := 0; c < o.n; c++ {
		g := &OGen{r: r.Fork(), Wide: r.Chance(20), Mono: monoPick(r), BadUTF8: c%3 == 1}
		var options []cfgpkg.Option
		optName := "default"
		if r.Bool() {
			// "never panics" holds under every producer configuration: one choice per dimension of the option space
			options, optName = randomOptions(r)
		}
		pr := newProducerRun(options...)
		nb := 1 + r.Intn(5)
		var hist []map[string]any
		single := r.Intn(4) // 0..2: one signal only; 3: interleaved
		for b := 0; b < nb; b++ {
			sig := single
			if single == 3 {
				sig = r.Intn(3)
			}
			g.Zero = c%10 == 3 && b == 0
			data := genAny(g, r, sig)
			g.Zero = false
			if r.Chance(6) {
				wg := &OGen{r: r.Fork(), Wide: true}
				data = genAnyN(wg, r, sig, 300+r.Intn(200)) // many dictionary columns crossing an index width in one batch
			}
			res, site := pr.produceWithStack(data)
			stats["batch_"+res.Class]++
			hist = append(hist, map[string]any{"signal": sig, "items": itemCount(data), "class": res.Class, "msg": panicSite(res.Msg), "site": site})
			if res.Class == "panic" {
				out.Violation("C08", "producer-panic:"+site+":"+panicSite(res.Msg), fmt.Sprintf("producer panicked on batch %d of a history (%s): %s", b, site, res.Msg),
					map[string]any{"seed": o.seed, "case": c, "batch": b, "options": optName, "history": hist})
				break
			}
		}
		func() {
			defer func() { recover() }()
			pr.p.Close()
		}()
		out.AddCase(map[string]any{"case": c, "options": optName, "history": hist}, true, fmt.Sprintf("batches=%d mode=%d options=%v", nb, single, optName != "default"))
	}
	runBoundary(o, out, stats)
	out.Extra["stats"] = stats
}
