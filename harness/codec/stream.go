package main

// Stream driver: the real producer observed through ProducerObserver, the produced
// BatchArrowRecords, an independent Arrow IPC reader per sub-stream, the real consumer.

import (
	"bytes"
	"fmt"
	"strings"

	"github.com/apache/arrow-go/v18/arrow"
	"github.com/apache/arrow-go/v18/arrow/ipc"
	"github.com/apache/arrow-go/v18/arrow/memory"

	colarspb "github.com/open-telemetry/otel-arrow/api/experimental/arrow/v1"
	parrow "github.com/open-telemetry/otel-arrow/pkg/arrow"
	cfgpkg "github.com/open-telemetry/otel-arrow/pkg/config"
	"github.com/open-telemetry/otel-arrow/pkg/otel/arrow_record"
	carrow "github.com/open-telemetry/otel-arrow/pkg/otel/common/arrow"
	"github.com/open-telemetry/otel-arrow/pkg/record_message"
	"go.opentelemetry.io/collector/pdata/plog"
	"go.opentelemetry.io/collector/pdata/pmetric"
	"go.opentelemetry.io/collector/pdata/ptrace"
)

type obsRecord struct {
	PType  record_message.PayloadType
	Key    string // the stream-producer key: [prefix ":"] SchemaToID(schema)
	Table  *Table
	Schema *arrow.Schema
}

type streamEvent struct {
	Kind  string // newfield | upgrade | overflow | reset | schema | metadata
	Rec   string
	Field string
}

type prodObs struct {
	recs   []*obsRecord
	events []streamEvent
	fault  *faultObs // optional: arms a fault-injecting allocator before the write of a chosen record
}

func (o *prodObs) OnNewField(r, f string) { o.events = append(o.events, streamEvent{"newfield", r, f}) }
func (o *prodObs) OnDictionaryUpgrade(r, f string, _, _ arrow.DataType, _, _ uint64) {
	o.events = append(o.events, streamEvent{"upgrade", r, f})
}
func (o *prodObs) OnDictionaryOverflow(r, f string, _, _ uint64) {
	o.events = append(o.events, streamEvent{"overflow", r, f})
}
func (o *prodObs) OnSchemaUpdate(r string, _, _ *arrow.Schema) {
	o.events = append(o.events, streamEvent{"schema", r, ""})
}
func (o *prodObs) OnDictionaryReset(r, f string, _ arrow.DataType, _, _ uint64) {
	o.events = append(o.events, streamEvent{"reset", r, f})
}
func (o *prodObs) OnMetadataUpdate(r, k string) {
	o.events = append(o.events, streamEvent{"metadata", r, k})
}
func (o *prodObs) OnRecord(rec arrow.Record, pt record_message.PayloadType) {
	if o.fault != nil {
		o.fault.OnRecord(rec, pt)
	}
	o.recs = append(o.recs, &obsRecord{PType: pt, Key: streamKey(pt, rec.Schema()), Table: tableOf(rec), Schema: rec.Schema()})
}

var prefixOf = func() map[record_message.PayloadType]string {
	m := map[record_message.PayloadType]string{}
	pts := carrow.PayloadTypes
	for _, p := range []*carrow.PayloadType{pts.ResourceAttrs, pts.ScopeAttrs, pts.Metric, pts.NumberDataPoints, pts.NumberDataPointAttrs,
		pts.NumberDataPointExemplars, pts.NumberDataPointExemplarAttrs, pts.Summary, pts.SummaryAttrs, pts.Histogram, pts.HistogramAttrs,
		pts.HistogramExemplars, pts.HistogramExemplarAttrs, pts.ExpHistogram, pts.ExpHistogramAttrs, pts.ExpHistogramExemplars,
		pts.ExpHistogramExemplarAttrs, pts.LogRecordAttrs, pts.SpanAttrs, pts.Event, pts.EventAttrs, pts.Link, pts.LinkAttrs} {
		if p != nil {
			m[p.PayloadType()] = p.SchemaPrefix()
		}
	}
	return m
}()

func isMain(pt record_message.PayloadType) bool {
	return pt == colarspb.ArrowPayloadType_SPANS || pt == colarspb.ArrowPayloadType_LOGS || pt == colarspb.ArrowPayloadType_UNIVARIATE_METRICS
}

func streamKey(pt record_message.PayloadType, s *arrow.Schema) string {
	id := parrow.SchemaToID(s)
	if isMain(pt) {
		return id
	}
	return prefixOf[pt] + ":" + id
}

type batchOut struct {
	Class   string // ok | error | panic
	Msg     string
	Bar     *colarspb.BatchArrowRecords
	Recs    []*obsRecord
	Events  []streamEvent
	Signal  string
	InCanon string
}

type producerRun struct {
	p   *arrow_record.Producer
	obs *prodObs
}

func newProducerRun(opts ...cfgpkg.Option) *producerRun {
	o := &prodObs{}
	all := append([]cfgpkg.Option{cfgpkg.WithObserver(o)}, opts...)
	return &producerRun{p: arrow_record.NewProducerWithOptions(all...), obs: o}
}

func (pr *producerRun) produce(data any) (out *batchOut) {
	defer func() {
		if r := recover(); r != nil {
			out = &batchOut{Class: "panic", Msg: fmt.Sprint(r), Recs: pr.obs.recs, Events: pr.obs.events}
		}
	}()
	return pr.produceRaw(data)
}

// produceRaw does not recover
func (pr *producerRun) produceRaw(data any) (out *batchOut) {
	pr.obs.recs = nil
	pr.obs.events = nil
	out = &batchOut{}
	defer func() {
		out.Recs = pr.obs.recs
		out.Events = pr.obs.events
	}()
	var bar *colarspb.BatchArrowRecords
	var err error
	switch d := data.(type) {
	case ptrace.Traces:
		out.Signal = "traces"
		bar, err = pr.p.BatchArrowRecordsFromTraces(d)
	case plog.Logs:
		out.Signal = "logs"
		bar, err = pr.p.BatchArrowRecordsFromLogs(d)
	case pmetric.Metrics:
		out.Signal = "metrics"
		bar, err = pr.p.BatchArrowRecordsFromMetrics(d)
	}
	if err != nil {
		out.Class = "error"
		out.Msg = err.Error()
		return
	}
	out.Class = "ok"
	out.Bar = bar
	return
}

// independent reader: one ipc.Reader per sub-stream id, exactly as a generic Arrow consumer would
type indepReader struct {
	readers map[string]*ipc.Reader
	bufs    map[string]*bytes.Reader
}

func newIndepReader() *indepReader {
	return &indepReader{readers: map[string]*ipc.Reader{}, bufs: map[string]*bytes.Reader{}}
}

func (ir *indepReader) read(pl *colarspb.ArrowPayload) (t *Table, err error) {
	defer func() {
		if r := recover(); r != nil {
			err = fmt.Errorf("independent reader panicked: %v", r)
		}
	}()
	buf, ok := ir.bufs[pl.SchemaId]
	if !ok {
		buf = bytes.NewReader(nil)
		ir.bufs[pl.SchemaId] = buf
	}
	buf.Reset(pl.Record)
	rd, ok := ir.readers[pl.SchemaId]
	if !ok {
		rd, err = ipc.NewReader(buf, ipc.WithAllocator(memory.NewGoAllocator()), ipc.WithDictionaryDeltas(true), ipc.WithZstd())
		if err != nil {
			return nil, err
		}
		ir.readers[pl.SchemaId] = rd
	}
	if !rd.Next() {
		if rd.Err() != nil {
			return nil, rd.Err()
		}
		return nil, fmt.Errorf("no record batch in payload")
	}
	return tableOf(rd.Record()), nil
}

func tablesEqual(a, b *Table) string {
	if strings.Join(a.Cols, ",") != strings.Join(b.Cols, ",") {
		return fmt.Sprintf("columns differ: %v vs %v", a.Cols, b.Cols)
	}
	if len(a.Rows) != len(b.Rows) {
		return fmt.Sprintf("row count differs: %d vs %d", len(a.Rows), len(b.Rows))
	}
	for i := range a.Rows {
		if fmt.Sprintf("%#v", a.Rows[i]) != fmt.Sprintf("%#v", b.Rows[i]) {
			return fmt.Sprintf("row %d differs: %v vs %v", i, a.Rows[i], b.Rows[i])
		}
	}
	return ""
}
