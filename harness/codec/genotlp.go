package main

// Generators of OTLP data: structured, mostly-valid, with the boundary values the codec's
// decisions hinge on (zero / empty / absent optionals, repeated and fresh strings for the
// dictionaries, every AnyValue type, near-identical resources and scopes).

import (
	"fmt"
	"math"
	"unicode/utf8"

	"go.opentelemetry.io/collector/pdata/pcommon"
	"go.opentelemetry.io/collector/pdata/plog"
	"go.opentelemetry.io/collector/pdata/pmetric"
	"go.opentelemetry.io/collector/pdata/ptrace"
)

type OGen struct {
	r     *Rng
	fresh uint64
	// Wide: produce many distinct strings (dictionary pressure)
	Wide bool
	// Mono: low-entropy mode — every string, number, key and timestamp is drawn from a pool of Mono
	// values (1 or 2), so that sorted groups span whole tables and repeat across the batches of a stream
	Mono int
	// Zero: every scalar drawn is the zero of its type (empty string, 0, 0.0, false, empty bytes, zero counts) while
	// the shape (which fields are set, of which type) stays random: the degenerate-but-valid batches that leave
	// optional columns absent at the start of a stream
	Zero bool
	// BadUTF8: strings may be invalid UTF-8 (only where the property puts no restriction on strings: C08)
	BadUTF8 bool
	// seen: a few attribute values generated earlier on this stream, from which near-copies (twins) are derived
	seen []pcommon.Value
}

// monoPick: a quarter of the histories are low-entropy
func monoPick(r *Rng) int {
	switch r.Intn(8) {
	case 0:
		return 1
	case 1:
		return 2
	}
	return 0
}

func (g *OGen) str() string {
	if g.Zero {
		return ""
	}
	if g.BadUTF8 && g.r.Chance(25) {
		return []string{"\xff\xfe", "a\x80b", "\xc3"}[g.r.Intn(3)] // not valid UTF-8 (C08: no domain restriction on strings)
	}
	if g.Mono > 0 {
		return []string{"retry", "again"}[g.r.Intn(g.Mono)]
	}
	switch g.r.Intn(8) {
	case 0:
		return ""
	case 1:
		g.fresh++
		return fmt.Sprintf("fresh-%d", g.fresh)
	case 2:
		return []string{"a,b:1", "{x}", "[1,2]", "k|v", "1", "true", "é∑"}[g.r.Intn(7)]
	default:
		if g.Wide {
			return fmt.Sprintf("w%d", g.r.Intn(3000))
		}
		return fmt.Sprintf("v%d", g.r.Intn(5))
	}
}

func (g *OGen) i64() int64 {
	if g.Zero {
		return 0
	}
	if g.Mono > 0 {
		return int64(7 + g.r.Intn(g.Mono))
	}
	switch g.r.Intn(7) {
	case 0:
		return 0
	case 1:
		return 1
	case 2:
		return -1
	case 3:
		return math.MaxInt64
	case 4:
		return math.MinInt64
	case 5:
		return 1 << 31
	default:
		return int64(g.r.Intn(100))
	}
}

func (g *OGen) f64() float64 {
	if g.Zero {
		return 0
	}
	if g.Mono > 0 {
		return 2.5 + float64(g.r.Intn(g.Mono))
	}
	switch g.r.Intn(8) {
	case 0:
		return 0
	case 1:
		return math.Copysign(0, -1)
	case 2:
		return math.NaN()
	case 3:
		return math.Inf(1)
	case 4:
		return math.Inf(-1)
	case 5:
		return 1.5
	default:
		return float64(g.r.Intn(1000)) / 8
	}
}

func (g *OGen) bytes() []byte {
	if g.Zero {
		return []byte{}
	}
	if g.Mono > 0 {
		return []byte{byte(1 + g.r.Intn(g.Mono))}
	}
	switch g.r.Intn(4) {
	case 0:
		return []byte{}
	case 1:
		return []byte{0}
	default:
		n := 1 + g.r.Intn(6)
		b := make([]byte, n)
		for i := range b {
			b[i] = byte(g.r.Intn(256))
		}
		return b
	}
}

// twin: v becomes a near-copy of src — equal except at one nested position, where the value is replaced by one that an
// encoder or decoder might confuse with it (empty bytes / unset, 0.0 / -0.0, false / unset, 1 / 1.0 / "1", "" / unset)
func (g *OGen) twin(src, v pcommon.Value) {
	src.CopyTo(v)
	var leaves []pcommon.Value
	var walk func(x pcommon.Value)
	walk = func(x pcommon.Value) {
		switch x.Type() {
		case pcommon.ValueTypeSlice:
			for i := 0; i < x.Slice().Len(); i++ {
				walk(x.Slice().At(i))
			}
		case pcommon.ValueTypeMap:
			x.Map().Range(func(_ string, e pcommon.Value) bool { walk(e); return true })
		default:
			leaves = append(leaves, x)
		}
	}
	walk(v)
	if len(leaves) == 0 {
		return
	}
	x := leaves[g.r.Intn(len(leaves))]
	switch x.Type() {
	case pcommon.ValueTypeEmpty:
		if g.r.Bool() {
			x.SetEmptyBytes()
		} else {
			x.SetStr("")
		}
	case pcommon.ValueTypeBytes:
		if x.Bytes().Len() == 0 {
			pcommon.NewValueEmpty().CopyTo(x)
		} else if raw := x.Bytes().AsRaw(); utf8.Valid(raw) { // the round-trip properties restrict strings to valid UTF-8
			x.SetStr(string(raw))
		}
	case pcommon.ValueTypeStr:
		if x.Str() == "" {
			x.SetEmptyBytes()
		} else {
			x.SetEmptyBytes().FromRaw([]byte(x.Str()))
		}
	case pcommon.ValueTypeInt:
		if g.r.Bool() {
			x.SetDouble(float64(x.Int()))
		} else {
			x.SetStr(fmt.Sprint(x.Int()))
		}
	case pcommon.ValueTypeDouble:
		switch {
		case x.Double() == 0:
			x.SetDouble(math.Copysign(0, -1))
		case g.r.Bool():
			x.SetDouble(math.Nextafter(x.Double(), math.Inf(1))) // the neighbouring double
		default:
			x.SetInt(int64(x.Double()))
		}
	case pcommon.ValueTypeBool:
		if x.Bool() {
			x.SetStr("true")
		} else {
			pcommon.NewValueEmpty().CopyTo(x)
		}
	}
}

func (g *OGen) Value(v pcommon.Value, depth int) {
	if depth >= 2 && len(g.seen) > 0 && !g.Zero && g.r.Chance(12) {
		g.twin(g.seen[g.r.Intn(len(g.seen))], v)
		return
	}
	defer func() {
		if depth >= 2 && (v.Type() == pcommon.ValueTypeSlice || v.Type() == pcommon.ValueTypeMap || g.r.Chance(20)) {
			c := pcommon.NewValueEmpty()
			v.CopyTo(c)
			if len(g.seen) < 8 {
				g.seen = append(g.seen, c)
			} else {
				g.seen[g.r.Intn(8)] = c
			}
		}
	}()
	k := g.r.Intn(10)
	if depth <= 0 && k >= 8 {
		k = g.r.Intn(8)
	}
	switch k {
	case 0:
		// empty value (left unset)
	case 1, 2, 3:
		v.SetStr(g.str())
	case 4:
		v.SetInt(g.i64())
	case 5:
		v.SetDouble(g.f64())
	case 6:
		v.SetBool(g.r.Bool() && !g.Zero)
	case 7:
		v.SetEmptyBytes().FromRaw(g.bytes())
	case 8:
		s := v.SetEmptySlice()
		n := g.r.Intn(4)
		for i := 0; i < n; i++ {
			g.Value(s.AppendEmpty(), depth-1)
		}
	default:
		m := v.SetEmptyMap()
		n := g.r.Intn(3)
		for i := 0; i < n; i++ {
			g.Value(m.PutEmpty(fmt.Sprintf("m%d", i)), depth-1)
		}
	}
}

func (g *OGen) key() string {
	if g.Mono > 0 {
		return []string{"k", "j"}[g.r.Intn(g.Mono)]
	}
	switch g.r.Intn(10) {
	case 0:
		return "" // empty key: documented to be dropped
	case 1:
		g.fresh++
		return fmt.Sprintf("key-%d", g.fresh)
	default:
		return []string{"a", "b", "http.method", "k", "service.name"}[g.r.Intn(5)]
	}
}

func (g *OGen) Attrs(m pcommon.Map, maxN int) {
	n := g.r.Intn(maxN + 1)
	for i := 0; i < n; i++ {
		g.Value(m.PutEmpty(g.key()), 2)
	}
}

// near-identical identities: same keys, values differing only in type or delimiters
func (g *OGen) identityAttrs(m pcommon.Map) {
	switch g.r.Intn(11) {
	case 8:
		m.PutDouble("a", 1700000000.25) // doubles that agree in their leading digits
	case 9:
		m.PutDouble("a", 1700000123.75)
	case 10:
		m.PutDouble("a", math.Nextafter(1700000000.25, 2e9))
	case 0:
		m.PutStr("a", "1")
	case 1:
		m.PutInt("a", 1)
	case 2:
		m.PutStr("a", "1,b:2")
	case 3:
		m.PutStr("a", "1")
		m.PutStr("b", "2")
	case 4:
		m.PutBool("a", true)
	case 5:
		m.PutStr("a", "true")
	case 6:
		// no attributes
	default:
		g.Attrs(m, 3)
	}
}

func (g *OGen) Resource(r pcommon.Resource) {
	g.identityAttrs(r.Attributes())
	if g.r.Chance(20) {
		r.SetDroppedAttributesCount(uint32(g.r.Intn(3)))
	}
}

func (g *OGen) Scope(s pcommon.InstrumentationScope) {
	if g.r.Chance(70) {
		s.SetName([]string{"lib", "lib2", ""}[g.r.Intn(3)])
	}
	if g.r.Chance(40) {
		s.SetVersion([]string{"1.0", "2", ""}[g.r.Intn(3)])
	}
	if g.r.Chance(50) {
		g.identityAttrs(s.Attributes())
	}
	if g.r.Chance(15) {
		s.SetDroppedAttributesCount(uint32(g.r.Intn(3)))
	}
}

func (g *OGen) schemaURL() string {
	return []string{"", "", "https://s/1", "https://s/2"}[g.r.Intn(4)]
}

func (g *OGen) traceID() pcommon.TraceID {
	var t pcommon.TraceID
	if g.Mono > 0 {
		t[15] = byte(1 + g.r.Intn(g.Mono))
		return t
	}
	switch g.r.Intn(4) {
	case 0: // shared trace id
		t[15] = 1
	case 1:
		t[0] = byte(g.r.Intn(3))
		t[15] = 7
	default:
		for i := range t {
			t[i] = byte(g.r.Intn(256))
		}
	}
	return t
}

func (g *OGen) spanID() pcommon.SpanID {
	var s pcommon.SpanID
	for i := range s {
		s[i] = byte(g.r.Intn(256))
	}
	return s
}

func (g *OGen) ts() pcommon.Timestamp {
	if g.Mono > 0 {
		return pcommon.Timestamp(1_700_000_000_000_000_000)
	}
	switch g.r.Intn(5) {
	case 0:
		return 0
	case 1:
		return pcommon.Timestamp(math.MaxInt64)
	default:
		return pcommon.Timestamp(1_700_000_000_000_000_000 + uint64(g.r.Intn(1000))*1000)
	}
}

func (g *OGen) Span(sp ptrace.Span) {
	sp.SetTraceID(g.traceID())
	sp.SetSpanID(g.spanID())
	if g.r.Chance(60) {
		sp.SetParentSpanID(g.spanID())
	}
	sp.SetName(g.str())
	sp.SetKind(ptrace.SpanKind(g.r.Intn(6)))
	start := g.ts()
	sp.SetStartTimestamp(start)
	switch g.r.Intn(3) {
	case 0:
		sp.SetEndTimestamp(start)
	default:
		d := uint64(g.r.Intn(5)) * 1000
		if uint64(start)+d <= math.MaxInt64 {
			sp.SetEndTimestamp(pcommon.Timestamp(uint64(start) + d))
		} else {
			sp.SetEndTimestamp(start)
		}
	}
	if g.r.Chance(30) {
		sp.TraceState().FromRaw([]string{"", "k=v", "a=1,b=2"}[g.r.Intn(3)])
	}
	g.Attrs(sp.Attributes(), 4)
	if g.r.Chance(20) {
		sp.SetDroppedAttributesCount(uint32(g.r.Intn(3)))
	}
	if g.r.Chance(20) {
		sp.SetDroppedEventsCount(uint32(g.r.Intn(3)))
	}
	if g.r.Chance(20) {
		sp.SetDroppedLinksCount(uint32(g.r.Intn(3)))
	}
	if g.r.Chance(60) {
		sp.Status().SetCode(ptrace.StatusCode(g.r.Intn(3)))
		if g.r.Chance(50) {
			sp.Status().SetMessage(g.str())
		}
	}
	ne := g.r.Intn(3)
	if g.r.Chance(50) && g.Mono == 0 {
		ne = 0
	}
	for i := 0; i < ne; i++ {
		ev := sp.Events().AppendEmpty()
		ev.SetName(g.str())
		ev.SetTimestamp(g.ts())
		g.Attrs(ev.Attributes(), 3)
		if g.r.Chance(20) {
			ev.SetDroppedAttributesCount(uint32(g.r.Intn(3)))
		}
	}
	nl := g.r.Intn(3)
	if g.r.Chance(60) && g.Mono == 0 {
		nl = 0
	}
	for i := 0; i < nl; i++ {
		l := sp.Links().AppendEmpty()
		l.SetTraceID(g.traceID())
		l.SetSpanID(g.spanID())
		if g.r.Chance(30) {
			l.TraceState().FromRaw("k=v")
		}
		g.Attrs(l.Attributes(), 2)
		if g.r.Chance(20) {
			l.SetDroppedAttributesCount(uint32(g.r.Intn(3)))
		}
	}
}

type TShape struct{ MaxRes, MaxScopes, MaxSpans int }

func (g *OGen) Traces(sh TShape) ptrace.Traces {
	td := ptrace.NewTraces()
	nr := g.r.Intn(sh.MaxRes + 1)
	var shared pcommon.InstrumentationScope
	sharedURL, haveShared := "", false
	for i := 0; i < nr; i++ {
		rs := td.ResourceSpans().AppendEmpty()
		g.Resource(rs.Resource())
		rs.SetSchemaUrl(g.schemaURL())
		ns := g.r.Intn(sh.MaxScopes + 1)
		for j := 0; j < ns; j++ {
			ss := rs.ScopeSpans().AppendEmpty()
			if haveShared && g.r.Chance(40) {
				shared.CopyTo(ss.Scope()) // the same scope (and scope schema URL) under different resources
				ss.SetSchemaUrl(sharedURL)
			} else {
				g.Scope(ss.Scope())
				ss.SetSchemaUrl(g.schemaURL())
				shared, sharedURL, haveShared = ss.Scope(), ss.SchemaUrl(), true
			}
			n := g.r.Intn(sh.MaxSpans + 1)
			for k := 0; k < n; k++ {
				g.Span(ss.Spans().AppendEmpty())
			}
		}
	}
	return td
}

// ---------------------------------------------------------------- logs

func (g *OGen) LogRecord(lr plog.LogRecord) {
	lr.SetTimestamp(g.ts())
	if g.r.Chance(50) {
		lr.SetObservedTimestamp(g.ts())
	}
	if g.r.Chance(50) {
		lr.SetTraceID(g.traceID())
		lr.SetSpanID(g.spanID())
	}
	lr.SetSeverityNumber(plog.SeverityNumber(g.r.Intn(25)))
	if g.r.Chance(50) {
		lr.SetSeverityText(g.str())
	}
	g.Value(lr.Body(), 2)
	g.Attrs(lr.Attributes(), 4)
	if g.r.Chance(20) {
		lr.SetDroppedAttributesCount(uint32(g.r.Intn(3)))
	}
	if g.r.Chance(30) {
		lr.SetFlags(plog.LogRecordFlags(g.r.Intn(3)))
	}
}

func (g *OGen) Logs(sh TShape) plog.Logs {
	ld := plog.NewLogs()
	nr := g.r.Intn(sh.MaxRes + 1)
	var shared pcommon.InstrumentationScope
	haveShared := false
	for i := 0; i < nr; i++ {
		rl := ld.ResourceLogs().AppendEmpty()
		g.Resource(rl.Resource())
		rl.SetSchemaUrl(g.schemaURL())
		ns := g.r.Intn(sh.MaxScopes + 1)
		for j := 0; j < ns; j++ {
			sl := rl.ScopeLogs().AppendEmpty()
			if haveShared && g.r.Chance(40) {
				shared.CopyTo(sl.Scope()) // the same scope under different resources
			} else {
				g.Scope(sl.Scope())
				shared = sl.Scope()
				haveShared = true
			}
			sl.SetSchemaUrl(g.schemaURL())
			n := g.r.Intn(sh.MaxSpans + 1)
			for k := 0; k < n; k++ {
				g.LogRecord(sl.LogRecords().AppendEmpty())
			}
		}
	}
	return ld
}

// ---------------------------------------------------------------- metrics

func (g *OGen) exemplars(es pmetric.ExemplarSlice) {
	n := g.r.Intn(3)
	if g.r.Chance(60) {
		n = 0
	}
	for i := 0; i < n; i++ {
		e := es.AppendEmpty()
		e.SetTimestamp(g.ts())
		switch g.r.Intn(3) {
		case 0:
			e.SetIntValue(g.i64())
		case 1:
			e.SetDoubleValue(g.f64())
		}
		if g.r.Chance(50) {
			e.SetTraceID(g.traceID())
			e.SetSpanID(g.spanID())
		}
		g.Attrs(e.FilteredAttributes(), 2)
	}
}

func (g *OGen) u64() uint64 {
	if g.Zero {
		return 0
	}
	switch g.r.Intn(5) {
	case 0:
		return 0
	case 1:
		return 1
	case 2:
		return math.MaxUint64
	default:
		return uint64(g.r.Intn(1000))
	}
}

func (g *OGen) counts() []uint64 {
	switch g.r.Intn(5) {
	case 0:
		return nil
	case 1:
		return []uint64{0, 0}
	case 2:
		return []uint64{0}
	default:
		n := 1 + g.r.Intn(4)
		out := make([]uint64, n)
		for i := range out {
			out[i] = g.u64()
		}
		return out
	}
}

func (g *OGen) bounds() []float64 {
	switch g.r.Intn(5) {
	case 0:
		return nil
	case 1:
		return []float64{0}
	default:
		n := 1 + g.r.Intn(3)
		out := make([]float64, n)
		for i := range out {
			out[i] = g.f64()
		}
		return out
	}
}

func (g *OGen) Metric(m pmetric.Metric, maxPts int) {
	m.SetName(g.str())
	if g.r.Chance(50) {
		m.SetDescription(g.str())
	}
	if g.r.Chance(50) {
		m.SetUnit([]string{"", "ms", "By"}[g.r.Intn(3)])
	}
	np := g.r.Intn(maxPts + 1)
	tempo := func() pmetric.AggregationTemporality { return pmetric.AggregationTemporality(g.r.Intn(3)) }
	ndp := func(p pmetric.NumberDataPoint) {
		g.Attrs(p.Attributes(), 3)
		if g.r.Chance(60) {
			p.SetStartTimestamp(g.ts())
		}
		p.SetTimestamp(g.ts())
		switch g.r.Intn(3) {
		case 0:
			p.SetIntValue(g.i64())
		case 1:
			p.SetDoubleValue(g.f64())
		}
		if g.r.Chance(30) {
			p.SetFlags(pmetric.DataPointFlags(g.r.Intn(2)))
		}
		g.exemplars(p.Exemplars())
	}
	switch g.r.Intn(6) {
	case 0:
		gg := m.SetEmptyGauge()
		for i := 0; i < np; i++ {
			ndp(gg.DataPoints().AppendEmpty())
		}
	case 1:
		s := m.SetEmptySum()
		s.SetAggregationTemporality(tempo())
		s.SetIsMonotonic(g.r.Bool())
		for i := 0; i < np; i++ {
			ndp(s.DataPoints().AppendEmpty())
		}
	case 2:
		h := m.SetEmptyHistogram()
		h.SetAggregationTemporality(tempo())
		for i := 0; i < np; i++ {
			p := h.DataPoints().AppendEmpty()
			g.Attrs(p.Attributes(), 3)
			p.SetStartTimestamp(g.ts())
			p.SetTimestamp(g.ts())
			p.SetCount(g.u64())
			if g.r.Chance(60) {
				p.SetSum(g.f64())
			}
			if g.r.Chance(40) {
				p.SetMin(g.f64())
			}
			if g.r.Chance(40) {
				p.SetMax(g.f64())
			}
			p.BucketCounts().FromRaw(g.counts())
			p.ExplicitBounds().FromRaw(g.bounds())
			if g.r.Chance(30) {
				p.SetFlags(pmetric.DataPointFlags(g.r.Intn(2)))
			}
			g.exemplars(p.Exemplars())
		}
	case 3:
		h := m.SetEmptyExponentialHistogram()
		h.SetAggregationTemporality(tempo())
		for i := 0; i < np; i++ {
			p := h.DataPoints().AppendEmpty()
			g.Attrs(p.Attributes(), 3)
			p.SetStartTimestamp(g.ts())
			p.SetTimestamp(g.ts())
			p.SetCount(g.u64())
			p.SetScale(int32(g.r.Intn(5)) - 2)
			p.SetZeroCount(g.u64())
			if g.r.Chance(60) {
				p.SetSum(g.f64())
			}
			if g.r.Chance(40) {
				p.SetMin(g.f64())
			}
			if g.r.Chance(40) {
				p.SetMax(g.f64())
			}
			p.Positive().SetOffset(int32(g.r.Intn(5)) - 2)
			p.Positive().BucketCounts().FromRaw(g.counts())
			p.Negative().SetOffset(int32(g.r.Intn(5)) - 2)
			p.Negative().BucketCounts().FromRaw(g.counts())
			g.exemplars(p.Exemplars())
		}
	case 4:
		s := m.SetEmptySummary()
		for i := 0; i < np; i++ {
			p := s.DataPoints().AppendEmpty()
			g.Attrs(p.Attributes(), 3)
			p.SetStartTimestamp(g.ts())
			p.SetTimestamp(g.ts())
			p.SetCount(g.u64())
			p.SetSum(g.f64())
			nq := g.r.Intn(3)
			for q := 0; q < nq; q++ {
				qv := p.QuantileValues().AppendEmpty()
				qv.SetQuantile(float64(g.r.Intn(5)) / 4)
				qv.SetValue(g.f64())
			}
			if g.r.Chance(30) {
				p.SetFlags(pmetric.DataPointFlags(g.r.Intn(2)))
			}
		}
	default: // empty metric
	}
}

func (g *OGen) Metrics(sh TShape) pmetric.Metrics {
	md := pmetric.NewMetrics()
	nr := g.r.Intn(sh.MaxRes + 1)
	var shared pcommon.InstrumentationScope
	sharedURL, haveShared := "", false
	for i := 0; i < nr; i++ {
		rm := md.ResourceMetrics().AppendEmpty()
		g.Resource(rm.Resource())
		rm.SetSchemaUrl(g.schemaURL())
		ns := g.r.Intn(sh.MaxScopes + 1)
		for j := 0; j < ns; j++ {
			sm := rm.ScopeMetrics().AppendEmpty()
			if haveShared && g.r.Chance(40) {
				shared.CopyTo(sm.Scope()) // the same scope (and scope schema URL) under different resources
				sm.SetSchemaUrl(sharedURL)
			} else {
				g.Scope(sm.Scope())
				sm.SetSchemaUrl(g.schemaURL())
				shared, sharedURL, haveShared = sm.Scope(), sm.SchemaUrl(), true
			}
			n := g.r.Intn(sh.MaxSpans + 1)
			for k := 0; k < n; k++ {
				g.Metric(sm.Metrics().AppendEmpty(), 3)
			}
		}
	}
	return md
}
