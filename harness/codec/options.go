package main

// C04: every public producer option, crossed with stream histories whose cardinalities cross the dictionary
// limits, decoded by a DEFAULT consumer; the equivalence predicate is evaluated in Coq on real input/output.

import (
	"fmt"
	"sort"
	"strings"

	cfgpkg "github.com/open-telemetry/otel-arrow/pkg/config"
	"github.com/open-telemetry/otel-arrow/pkg/otel/arrow_record"
	"go.opentelemetry.io/collector/pdata/plog"
	"go.opentelemetry.io/collector/pdata/pmetric"
	"go.opentelemetry.io/collector/pdata/ptrace"
)

func init() { subcommands["options"] = runOptions }

type optChoice struct {
	name string
	opt  cfgpkg.Option
}

func sortedKeysOf[M ~map[string]V, V any](m M) []string {
	var ks []string
	for k := range m {
		ks = append(ks, k)
	}
	sort.Strings(ks)
	return ks
}

// randomOptions draws one choice in every dimension of the producer's option space (dictionary limit / initial index / reset
// threshold / zstd / span order / attribute orders).
func randomOptions(r *Rng) ([]cfgpkg.Option, string) {
	var options []cfgpkg.Option
	var names []string
	add := func(name string, o cfgpkg.Option) {
		names = append(names, name)
		if o != nil {
			options = append(options, o)
		}
	}
	switch r.Intn(6) {
	case 0:
		add("WithNoDictionary", cfgpkg.WithNoDictionary())
	case 1:
		add("WithUint8LimitDictIndex", cfgpkg.WithUint8LimitDictIndex())
	case 2:
		add("WithUint16LimitDictIndex", cfgpkg.WithUint16LimitDictIndex())
	case 3:
		add("WithUint32LimitDictIndex", cfgpkg.WithUint32LimitDictIndex())
	}
	switch r.Intn(4) {
	case 0:
		add("WithUint8InitDictIndex", cfgpkg.WithUint8InitDictIndex())
	case 1:
		add("WithUint16InitDictIndex", cfgpkg.WithUint16InitDictIndex())
	}
	if r.Bool() {
		thr := []float64{0, 0.3, 1, 5}[r.Intn(4)]
		add(fmt.Sprintf("DictResetThreshold(%v)", thr), cfgpkg.WithDictResetThreshold(thr))
	}
	switch r.Intn(3) {
	case 0:
		add("WithZstd", cfgpkg.WithZstd())
	case 1:
		add("WithNoZstd", cfgpkg.WithNoZstd())
	}
	if r.Bool() {
		ks := sortedKeysOf(cfgpkg.OrderSpanByVariants)
		k := ks[r.Intn(len(ks))]
		add("OrderSpanBy("+k+")", cfgpkg.WithOrderSpanBy(cfgpkg.OrderSpanByVariants[k]))
	}
	if r.Bool() {
		ks := sortedKeysOf(cfgpkg.OrderAttrs16ByVariants)
		k := ks[r.Intn(len(ks))]
		add("OrderAttrs16By("+k+")", cfgpkg.WithOrderAttrs16By(cfgpkg.OrderAttrs16ByVariants[k]))
	}
	if r.Bool() {
		ks := sortedKeysOf(cfgpkg.OrderAttrs32ByVariants)
		k := ks[r.Intn(len(ks))]
		add("OrderAttrs32By("+k+")", cfgpkg.WithOrderAttrs32By(cfgpkg.OrderAttrs32ByVariants[k]))
	}
	if r.Chance(25) {
		// the diagnostic options (statistics, record dumps) are producer options like the others
		for _, d := range []struct {
			name string
			opt  cfgpkg.Option
		}{{"WithSchemaStats", cfgpkg.WithSchemaStats()}, {"WithSchemaUpdates", cfgpkg.WithSchemaUpdates()}, {"WithRecordStats", cfgpkg.WithRecordStats()},
			{"WithProducerStats", cfgpkg.WithProducerStats()}, {"WithCompressionRatioStats", cfgpkg.WithCompressionRatioStats()}} {
			if r.Bool() {
				add(d.name, d.opt)
			}
		}
		if r.Bool() {
			add("WithRecordStats+WithDumpRecordRows", cfgpkg.WithRecordStats())
			for _, pt := range []string{"SPANS", "LOGS", "UNIVARIATE_METRICS", "SPAN_ATTRS", "LOG_ATTRS", "RESOURCE_ATTRS", "SPAN_EVENTS", "NUMBER_DATA_POINTS"} {
				options = append(options, cfgpkg.WithDumpRecordRows(pt, 1+r.Intn(3)))
			}
		}
	}
	if len(names) == 0 {
		return nil, "default"
	}
	return options, strings.Join(names, "+")
}

func runOptions(o opts, out *Output) {
	out.Imports = "From Verif Require Import Base.ListX Obf.Obfuscate Otlp.Equiv."
	r := NewRng(o.seed)
	stats := map[string]int{}
	dicts := []optChoice{{"dict=default", nil}, {"WithNoDictionary", cfgpkg.WithNoDictionary()}, {"WithUint8LimitDictIndex", cfgpkg.WithUint8LimitDictIndex()},
		{"WithUint16LimitDictIndex", cfgpkg.WithUint16LimitDictIndex()}, {"WithUint32LimitDictIndex", cfgpkg.WithUint32LimitDictIndex()}, {"WithUint64LimitDictIndex", cfgpkg.WithUint64LimitDictIndex()}}
	inits := []optChoice{{"init=default", nil}, {"WithUint8InitDictIndex", cfgpkg.WithUint8InitDictIndex()}, {"WithUint16InitDictIndex", cfgpkg.WithUint16InitDictIndex()},
		{"WithUint32LinitDictIndex", cfgpkg.WithUint32LinitDictIndex()}, {"WithUint64InitDictIndex", cfgpkg.WithUint64InitDictIndex()}}
	thrs := []float64{-1, 0, 0.3, 1, 5}
	zstds := []optChoice{{"zstd=default", nil}, {"WithZstd", cfgpkg.WithZstd()}, {"WithNoZstd", cfgpkg.WithNoZstd()}}
	var spanBy, a16, a32 []optChoice
	for _, k := range sortedKeysOf(cfgpkg.OrderSpanByVariants) {
		spanBy = append(spanBy, optChoice{"OrderSpanBy(" + k + ")", cfgpkg.WithOrderSpanBy(cfgpkg.OrderSpanByVariants[k])})
	}
	for _, k := range sortedKeysOf(cfgpkg.OrderAttrs16ByVariants) {
		a16 = append(a16, optChoice{"OrderAttrs16By(" + k + ")", cfgpkg.WithOrderAttrs16By(cfgpkg.OrderAttrs16ByVariants[k])})
	}
	for _, k := range sortedKeysOf(cfgpkg.OrderAttrs32ByVariants) {
		a32 = append(a32, optChoice{"OrderAttrs32By(" + k + ")", cfgpkg.WithOrderAttrs32By(cfgpkg.OrderAttrs32ByVariants[k])})
	}
	out.Extra["option_space"] = map[string]int{"dictionary": len(dicts), "reset_threshold": len(thrs), "zstd": len(zstds), "order_span_by": len(spanBy), "order_attrs16_by": len(a16), "order_attrs32_by": len(a32)}
	var sb strings.Builder
	sb.WriteString("Definition rt_cases : list (list tree * list tree) := [\n")
	nc := 0
	for c := 0; c < o.n; c++ {
		// every single variant at least once (round robin on the case index), the rest random
		pick := func(xs []optChoice, salt int) optChoice {
			return xs[(c/salt+r.Intn(len(xs))*boolToInt(c >= 40))%len(xs)]
		}
		d := dicts[c%len(dicts)]
		if c >= 40 {
			d = dicts[r.Intn(len(dicts))]
		}
		z := zstds[c%len(zstds)]
		sp := pick(spanBy, 1)
		x16 := a16[c%len(a16)]
		x32 := a32[c%len(a32)]
		if c >= 40 {
			x16 = a16[r.Intn(len(a16))]
			x32 = a32[r.Intn(len(a32))]
		}
		thr := thrs[c%len(thrs)]
		ini := inits[(c/2)%len(inits)]
		var options []cfgpkg.Option
		names := []string{d.name, ini.name, z.name, sp.name, x16.name, x32.name, fmt.Sprintf("DictResetThreshold(%v)", thr)}
		for _, ch := range []optChoice{d, ini, z, sp, x16, x32} {
			if ch.opt != nil {
				options = append(options, ch.opt)
			}
		}
		if thr >= 0 {
			options = append(options, cfgpkg.WithDictResetThreshold(thr))
		}
		sig := c % 3
		if c%2 == 0 {
			sig = 0 // the ordering options only concern traces
		}
		signal := []string{"traces", "logs", "metrics"}[sig]
		g := &OGen{r: r.Fork(), Wide: r.Chance(60)}
		leanPct := 45
		nb := 2 + r.Intn(3)
		if c%3 == 1 {
			// low-entropy histories: the same one or two names / keys / values in every batch, so that the state a
			// sorter or delta encoder carries from one batch to the next meets equal rows at the batch boundary
			g.Mono = 1 + r.Intn(2)
			g.Wide = false
			leanPct = 10
			nb = 3 + r.Intn(4)
		}
		pr := newProducerRun(options...)
		cons := arrow_record.NewConsumer() // default consumer
		leanBase := 0
		interleaved := c%6 == 5
		if interleaved {
			nb = 7
		}
		for b := 0; b < nb; b++ {
			n := 1 + r.Intn(6)
			// a sixth of the histories alternate between the three signals on one producer (the resource / scope attribute
			// sub-streams are shared between signals and see their schemas come and go)
			sig, signal := sig, signal
			if interleaved {
				sig = []int{0, 1, 0, 2, 1, 0, 2, 1}[(b+c)%8]
				signal = []string{"traces", "logs", "metrics"}[sig]
			}
			// a quarter of the histories open with an all-zero batch (typed zeros everywhere): the optional columns are still
			// absent, what is decoded must not depend on when they appear
			g.Zero = c%4 == 3 && b == 0
			if g.Zero {
				n += 6
				stats["zero_opening_batches"]++
			}
			data := genAnyN(g, r, sig, n)
			zero := g.Zero
			g.Zero = false
			if zero {
				// keep the all-zero batch
			} else if c%4 == 2 && b == 1 {
				// every dictionary column of the main record grows past 255 entries in this one batch
				data = distinctBatch(sig, 300, 1000)
			} else if r.Chance(12) {
				// a burst of a few hundred items with fresh strings in every column: several dictionary columns of one record
				// cross an index-width boundary in the same batch
				wg := &OGen{r: r.Fork(), Wide: true}
				data = genAnyN(wg, r, sig, 300+r.Intn(200))
			} else if r.Chance(leanPct) {
				// dictionary pressure with lean items: unique names, 90-330 per batch (crossing 255 within a batch or over the
				// history), repeated `rep` times (reset regime) or not (overflow regime)
				data = leanBatch(sig, 90+r.Intn(240), 1+r.Intn(3)*r.Intn(2), &leanBase)
			}
			if itemCount(data) == 0 {
				continue
			}
			var in itemsOut
			switch dd := data.(type) {
			case ptrace.Traces:
				in = tracesItems(dd)
			case plog.Logs:
				in = logsItems(dd)
			case pmetric.Metrics:
				in = metricsItems(dd)
			}
			res := pr.produce(data)
			replay := map[string]any{"seed": o.seed, "case": c, "batch": b, "signal": signal, "options": names}
			if res.Class != "ok" {
				out.Violation("C04", "producer-"+res.Class, fmt.Sprintf("producer %s with options %v: %s", res.Class, names, res.Msg), replay)
				break
			}
			for _, e := range res.Events {
				stats["event_"+e.Kind]++
			}
			cr := consumeAny(cons, signal, res.Bar)
			if cr.Class != "ok" {
				out.Violation("C04", "default-consumer-"+cr.Class, fmt.Sprintf("a default consumer cannot decode a batch produced with options %v: %s", names, cr.Msg), replay)
				break
			}
			if dk := diffKeys(in.Keys, cr.Trees.Keys); dk != "" {
				sigv := "options-change-content"
				if strings.Contains(x16.name, "OrderAttrs16By()") || strings.Contains(x16.name, "parent_id,key,value") || strings.Contains(x16.name, "type,key,parent_id,value") {
					sigv += ":" + x16.name
				} else if !strings.Contains(x32.name, "type,key,value,parent_id") {
					sigv += ":" + x32.name
				}
				out.Violation("C04", sigv, fmt.Sprintf("options %v change the decoded telemetry: %s", names, dk), replay)
			}
			// large dictionary-pressure batches are judged by the Go mirror of the predicate only (cost of vm_compute)
			if itemCount(data) <= 150 {
				if nc > 0 {
					sb.WriteString(";\n")
				}
				fmt.Fprintf(&sb, " (%s,\n  %s)", in.Coq, cr.Trees.Coq)
				nc++
				stats["batches_evaluated_in_coq"]++
			} else {
				stats["batches_go_oracle_only"]++
			}
			out.AddCase(map[string]any{"case": c, "batch": b, "signal": signal, "options": names, "items": itemCount(data)}, true, signal+" "+d.name)
		}
		func() { defer func() { recover() }(); pr.p.Close(); cons.Close() }()
	}
	sb.WriteString("\n].\n")
	out.Coq.WriteString(sb.String())
	out.Coq.WriteString(`Definition rt_propfail := Eval vm_compute in failing (fun c : list tree * list tree => equivb (fst c) (snd c)) rt_cases.
Print rt_propfail.
`)
	out.Lists = append(out.Lists, "rt_propfail")
	out.Extra["stats"] = stats
}

func boolToInt(b bool) int {
	if b {
		return 1
	}
	return 0
}

// leanBatch: n distinct names (fresh across the history), each repeated rep times, nothing else.
func leanBatch(sig, n, rep int, base *int) any {
	switch sig {
	case 0:
		td := ptrace.NewTraces()
		ss := td.ResourceSpans().AppendEmpty().ScopeSpans().AppendEmpty()
		for k := 0; k < rep; k++ {
			for i := 0; i < n; i++ {
				ss.Spans().AppendEmpty().SetName(fmt.Sprintf("u%d", *base+i))
			}
		}
		*base += n
		return td
	case 1:
		ld := plog.NewLogs()
		sl := ld.ResourceLogs().AppendEmpty().ScopeLogs().AppendEmpty()
		for k := 0; k < rep; k++ {
			for i := 0; i < n; i++ {
				sl.LogRecords().AppendEmpty().SetSeverityText(fmt.Sprintf("u%d", *base+i))
			}
		}
		*base += n
		return ld
	default:
		md := pmetric.NewMetrics()
		sm := md.ResourceMetrics().AppendEmpty().ScopeMetrics().AppendEmpty()
		for k := 0; k < rep; k++ {
			for i := 0; i < n; i++ {
				sm.Metrics().AppendEmpty().SetName(fmt.Sprintf("u%d", *base+i))
			}
		}
		*base += n
		return md
	}
}
