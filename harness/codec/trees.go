package main

// Rendering of telemetry as Coq trees (Otlp/Equiv.v). Unordered collections are listed in one canonical
// order (the order of a normalised canonical string), so that the Coq side can compare normal forms
// structurally. The normalisations used for these sort keys mirror Equiv.v; the comparison itself is done
// in Coq on the raw trees.

import (
	"fmt"
	"math"
	"sort"
	"strings"

	"go.opentelemetry.io/collector/pdata/pcommon"
	"go.opentelemetry.io/collector/pdata/plog"
	"go.opentelemetry.io/collector/pdata/pmetric"
	"go.opentelemetry.io/collector/pdata/ptrace"
)

func coqBytes(s string) string {
	if len(s) == 0 {
		return "[]"
	}
	parts := make([]string, len(s))
	for i := 0; i < len(s); i++ {
		parts[i] = fmt.Sprint(s[i])
	}
	return "[" + strings.Join(parts, ";") + "]"
}

func sortedKeys(m pcommon.Map) []string {
	var ks []string
	m.Range(func(k string, _ pcommon.Value) bool { ks = append(ks, k); return true })
	sort.Strings(ks)
	return ks
}

func coqValue(sb *strings.Builder, v pcommon.Value) {
	switch v.Type() {
	case pcommon.ValueTypeEmpty:
		sb.WriteString("VEmpty")
	case pcommon.ValueTypeStr:
		sb.WriteString("VStr " + coqBytes(v.Str()))
	case pcommon.ValueTypeInt:
		fmt.Fprintf(sb, "VInt (%d)%%Z", v.Int())
	case pcommon.ValueTypeDouble:
		fmt.Fprintf(sb, "VDouble %d", math.Float64bits(v.Double()))
	case pcommon.ValueTypeBool:
		fmt.Fprintf(sb, "VBool %v", v.Bool())
	case pcommon.ValueTypeBytes:
		sb.WriteString("VBytes " + coqBytes(string(v.Bytes().AsRaw())))
	case pcommon.ValueTypeSlice:
		sb.WriteString("VList [")
		for i := 0; i < v.Slice().Len(); i++ {
			if i > 0 {
				sb.WriteString("; ")
			}
			sb.WriteString("(")
			coqValue(sb, v.Slice().At(i))
			sb.WriteString(")")
		}
		sb.WriteString("]")
	case pcommon.ValueTypeMap:
		sb.WriteString("VMap ")
		coqMap(sb, v.Map())
	}
}

// entries in key order (map order is not part of the data model)
func coqMap(sb *strings.Builder, m pcommon.Map) {
	sb.WriteString("[")
	for i, k := range sortedKeys(m) {
		if i > 0 {
			sb.WriteString("; ")
		}
		v, _ := m.Get(k)
		sb.WriteString("(" + coqBytes(k) + ", ")
		coqValue(sb, v)
		sb.WriteString(")")
	}
	sb.WriteString("]")
}

// normalised canonical string, for ordering only
func keyValue(sb *strings.Builder, v pcommon.Value, nested bool) {
	switch v.Type() {
	case pcommon.ValueTypeEmpty:
		sb.WriteString("E")
	case pcommon.ValueTypeStr:
		fmt.Fprintf(sb, "S%q", v.Str())
	case pcommon.ValueTypeInt:
		fmt.Fprintf(sb, "I%d", v.Int())
	case pcommon.ValueTypeDouble:
		f := v.Double()
		switch {
		case math.IsNaN(f):
			sb.WriteString("Dnan")
		case f == 0:
			sb.WriteString("D0")
		default:
			fmt.Fprintf(sb, "D%x", math.Float64bits(f))
		}
	case pcommon.ValueTypeBool:
		fmt.Fprintf(sb, "B%v", v.Bool())
	case pcommon.ValueTypeBytes:
		if nested && v.Bytes().Len() == 0 {
			sb.WriteString("E")
		} else {
			fmt.Fprintf(sb, "Y%x", v.Bytes().AsRaw())
		}
	case pcommon.ValueTypeSlice:
		sb.WriteString("L[")
		for i := 0; i < v.Slice().Len(); i++ {
			keyValue(sb, v.Slice().At(i), true)
			sb.WriteString(",")
		}
		sb.WriteString("]")
	case pcommon.ValueTypeMap:
		sb.WriteString("M{")
		for _, k := range sortedKeys(v.Map()) {
			x, _ := v.Map().Get(k)
			fmt.Fprintf(sb, "%q:", k)
			keyValue(sb, x, true)
			sb.WriteString(";")
		}
		sb.WriteString("}")
	}
}

func keyAttrs(sb *strings.Builder, m pcommon.Map) {
	sb.WriteString("A{")
	for _, k := range sortedKeys(m) {
		x, _ := m.Get(k)
		if k == "" || x.Type() == pcommon.ValueTypeEmpty {
			continue
		}
		fmt.Fprintf(sb, "%q:", k)
		keyValue(sb, x, false)
		sb.WriteString(";")
	}
	sb.WriteString("}")
}

// node: a tree under construction with its Coq text and its ordering key
type node struct{ coq, key string }

func tn(z int64) node   { return node{fmt.Sprintf("TN (%d)%%Z", z), fmt.Sprintf("N%d", z)} }
func tnu(z uint64) node { return node{fmt.Sprintf("TN (%d)%%Z", z), fmt.Sprintf("N%d", z)} }
func ts(s string) node  { return node{"TS " + coqBytes(s), fmt.Sprintf("S%q", s)} }
func td(f float64) node {
	k := fmt.Sprintf("D%x", math.Float64bits(f))
	if math.IsNaN(f) {
		k = "Dnan"
	} else if f == 0 {
		k = "D0"
	}
	return node{fmt.Sprintf("TD %d", math.Float64bits(f)), k}
}
func to(present bool, n node) node {
	if !present {
		return node{"TO None", "O-"}
	}
	return node{"TO (Some (" + n.coq + "))", "O+" + n.key}
}
func tv(v pcommon.Value) node {
	var a, b strings.Builder
	coqValue(&a, v)
	keyValue(&b, v, false)
	return node{"TV (" + a.String() + ")", "V" + b.String()}
}
func ta(m pcommon.Map) node {
	var a, b strings.Builder
	coqMap(&a, m)
	keyAttrs(&b, m)
	return node{"TA " + a.String(), b.String()}
}
func tr(ns ...node) node {
	cs := make([]string, len(ns))
	ks := make([]string, len(ns))
	for i, n := range ns {
		cs[i] = n.coq
		ks[i] = n.key
	}
	return node{"TR [" + strings.Join(cs, "; ") + "]", "R[" + strings.Join(ks, "|") + "]"}
}

// an unordered collection: canonical order
func tset(ns []node) node {
	sort.SliceStable(ns, func(i, j int) bool { return ns[i].key < ns[j].key })
	return tr(ns...)
}

func resourceNode(r pcommon.Resource, url string) node {
	return tr(ta(r.Attributes()), tnu(uint64(r.DroppedAttributesCount())), ts(url))
}
func scopeNode(s pcommon.InstrumentationScope, url string) node {
	return tr(ts(s.Name()), ts(s.Version()), ta(s.Attributes()), tnu(uint64(s.DroppedAttributesCount())), ts(url))
}

func spanNode(sp ptrace.Span) node {
	var evs, lks []node
	for i := 0; i < sp.Events().Len(); i++ {
		e := sp.Events().At(i)
		evs = append(evs, tr(tnu(uint64(e.Timestamp())), ts(e.Name()), ta(e.Attributes()), tnu(uint64(e.DroppedAttributesCount()))))
	}
	for i := 0; i < sp.Links().Len(); i++ {
		l := sp.Links().At(i)
		tid, sid := l.TraceID(), l.SpanID()
		lks = append(lks, tr(ts(string(tid[:])), ts(string(sid[:])), ts(l.TraceState().AsRaw()), ta(l.Attributes()), tnu(uint64(l.DroppedAttributesCount()))))
	}
	tid, sid, psid := sp.TraceID(), sp.SpanID(), sp.ParentSpanID()
	return tr(ts(string(tid[:])), ts(string(sid[:])), ts(string(psid[:])), ts(sp.TraceState().AsRaw()), ts(sp.Name()), tn(int64(sp.Kind())),
		tnu(uint64(sp.StartTimestamp())), tnu(uint64(sp.EndTimestamp())), ta(sp.Attributes()),
		tnu(uint64(sp.DroppedAttributesCount())), tnu(uint64(sp.DroppedEventsCount())), tnu(uint64(sp.DroppedLinksCount())),
		tn(int64(sp.Status().Code())), ts(sp.Status().Message()), tset(evs), tset(lks))
}

// itemsOut: Coq text plus the normalised keys (Go-side oracle and diagnostics)
type itemsOut struct {
	Coq  string
	Keys []string
}

func finishItems(items []node) itemsOut {
	sort.SliceStable(items, func(i, j int) bool { return items[i].key < items[j].key })
	cs := make([]string, len(items))
	ks := make([]string, len(items))
	for i, n := range items {
		cs[i] = n.coq
		ks[i] = n.key
	}
	return itemsOut{"[" + strings.Join(cs, ";\n    ") + "]", ks}
}

func diffKeys(a, b []string) string {
	if len(a) != len(b) {
		return fmt.Sprintf("item count %d -> %d", len(a), len(b))
	}
	for i := range a {
		if a[i] != b[i] {
			// first differing position inside the key
			j := 0
			for j < len(a[i]) && j < len(b[i]) && a[i][j] == b[i][j] {
				j++
			}
			lo := j - 60
			if lo < 0 {
				lo = 0
			}
			hi := func(s string) int {
				if j+80 < len(s) {
					return j + 80
				}
				return len(s)
			}
			return fmt.Sprintf("item %d differs: ...%s  ->  ...%s", i, a[i][lo:hi(a[i])], b[i][lo:hi(b[i])])
		}
	}
	return ""
}

// the flattened, canonically ordered items of a traces batch, as the Coq list `[t1; t2; …]`
func tracesItems(td ptrace.Traces) itemsOut {
	var items []node
	for i := 0; i < td.ResourceSpans().Len(); i++ {
		rs := td.ResourceSpans().At(i)
		rn := resourceNode(rs.Resource(), rs.SchemaUrl())
		for j := 0; j < rs.ScopeSpans().Len(); j++ {
			ss := rs.ScopeSpans().At(j)
			sn := scopeNode(ss.Scope(), ss.SchemaUrl())
			for k := 0; k < ss.Spans().Len(); k++ {
				items = append(items, tr(rn, sn, spanNode(ss.Spans().At(k))))
			}
		}
	}
	return finishItems(items)
}

// ---------------------------------------------------------------- logs

func logsItems(ld plog.Logs) itemsOut {
	var items []node
	for i := 0; i < ld.ResourceLogs().Len(); i++ {
		rl := ld.ResourceLogs().At(i)
		rn := resourceNode(rl.Resource(), rl.SchemaUrl())
		for j := 0; j < rl.ScopeLogs().Len(); j++ {
			sl := rl.ScopeLogs().At(j)
			sn := scopeNode(sl.Scope(), sl.SchemaUrl())
			for k := 0; k < sl.LogRecords().Len(); k++ {
				lr := sl.LogRecords().At(k)
				tid, sid := lr.TraceID(), lr.SpanID()
				items = append(items, tr(rn, sn, tr(tnu(uint64(lr.Timestamp())), tnu(uint64(lr.ObservedTimestamp())), ts(string(tid[:])), ts(string(sid[:])),
					tn(int64(lr.SeverityNumber())), ts(lr.SeverityText()), tv(lr.Body()), ta(lr.Attributes()),
					tnu(uint64(lr.DroppedAttributesCount())), tnu(uint64(lr.Flags())))))
			}
		}
	}
	return finishItems(items)
}

// ---------------------------------------------------------------- metrics

func exemplarNodes(es pmetric.ExemplarSlice) node {
	var ns []node
	for i := 0; i < es.Len(); i++ {
		e := es.At(i)
		tid, sid := e.TraceID(), e.SpanID()
		var val node
		switch e.ValueType() {
		case pmetric.ExemplarValueTypeInt:
			val = tr(tn(1), tn(e.IntValue()))
		case pmetric.ExemplarValueTypeDouble:
			val = tr(tn(2), td(e.DoubleValue()))
		default:
			val = tr(tn(0))
		}
		ns = append(ns, tr(tnu(uint64(e.Timestamp())), val, ts(string(tid[:])), ts(string(sid[:])), ta(e.FilteredAttributes())))
	}
	return tset(ns)
}

func u64s(xs []uint64) node {
	ns := make([]node, len(xs))
	for i, x := range xs {
		ns[i] = tnu(x)
	}
	return tr(ns...)
}
func f64s(xs []float64) node {
	ns := make([]node, len(xs))
	for i, x := range xs {
		ns[i] = td(x)
	}
	return tr(ns...)
}

func metricsItems(md pmetric.Metrics) itemsOut {
	var items []node
	for i := 0; i < md.ResourceMetrics().Len(); i++ {
		rm := md.ResourceMetrics().At(i)
		rn := resourceNode(rm.Resource(), rm.SchemaUrl())
		for j := 0; j < rm.ScopeMetrics().Len(); j++ {
			sm := rm.ScopeMetrics().At(j)
			sn := scopeNode(sm.Scope(), sm.SchemaUrl())
			for k := 0; k < sm.Metrics().Len(); k++ {
				m := sm.Metrics().At(k)
				var pts []node
				desc := []node{ts(m.Name()), ts(m.Description()), ts(m.Unit()), tn(int64(m.Type()))}
				ndp := func(p pmetric.NumberDataPoint) node {
					var val node
					switch p.ValueType() {
					case pmetric.NumberDataPointValueTypeInt:
						val = tr(tn(1), tn(p.IntValue()))
					case pmetric.NumberDataPointValueTypeDouble:
						val = tr(tn(2), td(p.DoubleValue()))
					default:
						val = tr(tn(0))
					}
					return tr(ta(p.Attributes()), tnu(uint64(p.StartTimestamp())), tnu(uint64(p.Timestamp())), val, tnu(uint64(p.Flags())), exemplarNodes(p.Exemplars()))
				}
				switch m.Type() {
				case pmetric.MetricTypeGauge:
					for q := 0; q < m.Gauge().DataPoints().Len(); q++ {
						pts = append(pts, ndp(m.Gauge().DataPoints().At(q)))
					}
				case pmetric.MetricTypeSum:
					desc = append(desc, tn(int64(m.Sum().AggregationTemporality())), tn(b2i(m.Sum().IsMonotonic())))
					for q := 0; q < m.Sum().DataPoints().Len(); q++ {
						pts = append(pts, ndp(m.Sum().DataPoints().At(q)))
					}
				case pmetric.MetricTypeHistogram:
					desc = append(desc, tn(int64(m.Histogram().AggregationTemporality())))
					for q := 0; q < m.Histogram().DataPoints().Len(); q++ {
						p := m.Histogram().DataPoints().At(q)
						pts = append(pts, tr(ta(p.Attributes()), tnu(uint64(p.StartTimestamp())), tnu(uint64(p.Timestamp())), tnu(p.Count()),
							to(p.HasSum(), td(p.Sum())), to(p.HasMin(), td(p.Min())), to(p.HasMax(), td(p.Max())),
							u64s(p.BucketCounts().AsRaw()), f64s(p.ExplicitBounds().AsRaw()), tnu(uint64(p.Flags())), exemplarNodes(p.Exemplars())))
					}
				case pmetric.MetricTypeExponentialHistogram:
					desc = append(desc, tn(int64(m.ExponentialHistogram().AggregationTemporality())))
					for q := 0; q < m.ExponentialHistogram().DataPoints().Len(); q++ {
						p := m.ExponentialHistogram().DataPoints().At(q)
						pts = append(pts, tr(ta(p.Attributes()), tnu(uint64(p.StartTimestamp())), tnu(uint64(p.Timestamp())), tnu(p.Count()),
							to(p.HasSum(), td(p.Sum())), to(p.HasMin(), td(p.Min())), to(p.HasMax(), td(p.Max())),
							tn(int64(p.Scale())), tnu(p.ZeroCount()),
							tn(int64(p.Positive().Offset())), u64s(p.Positive().BucketCounts().AsRaw()),
							tn(int64(p.Negative().Offset())), u64s(p.Negative().BucketCounts().AsRaw()),
							tnu(uint64(p.Flags())), exemplarNodes(p.Exemplars())))
					}
				case pmetric.MetricTypeSummary:
					for q := 0; q < m.Summary().DataPoints().Len(); q++ {
						p := m.Summary().DataPoints().At(q)
						var qs []node
						for z := 0; z < p.QuantileValues().Len(); z++ {
							qs = append(qs, tr(td(p.QuantileValues().At(z).Quantile()), td(p.QuantileValues().At(z).Value())))
						}
						pts = append(pts, tr(ta(p.Attributes()), tnu(uint64(p.StartTimestamp())), tnu(uint64(p.Timestamp())), tnu(p.Count()), td(p.Sum()), tr(qs...), tnu(uint64(p.Flags()))))
					}
				}
				items = append(items, tr(rn, sn, tr(desc...), tset(pts)))
			}
		}
	}
	return finishItems(items)
}

func b2i(b bool) int64 {
	if b {
		return 1
	}
	return 0
}
