package main

// Logical rows of an Arrow record: what otel-arrow itself decided (which cell is null, which
// column exists, which ids/deltas were written), independent of the physical layout
// (dictionary indices, buffers).

import (
	"fmt"

	"github.com/apache/arrow-go/v18/arrow"
	"github.com/apache/arrow-go/v18/arrow/array"
)

// cell returns nil for null, else a Go value: uint64/int64/float64/bool/string/[]byte,
// map[string]any for structs, []any for lists.
func cell(col arrow.Array, i int) any {
	if col.IsNull(i) {
		return nil
	}
	switch c := col.(type) {
	case *array.Dictionary:
		return cell(c.Dictionary(), c.GetValueIndex(i))
	case *array.Uint8:
		return uint64(c.Value(i))
	case *array.Uint16:
		return uint64(c.Value(i))
	case *array.Uint32:
		return uint64(c.Value(i))
	case *array.Uint64:
		return c.Value(i)
	case *array.Int32:
		return int64(c.Value(i))
	case *array.Int64:
		return c.Value(i)
	case *array.Float64:
		return c.Value(i)
	case *array.Boolean:
		return c.Value(i)
	case *array.String:
		return c.Value(i)
	case *array.Binary:
		return append([]byte{}, c.Value(i)...)
	case *array.FixedSizeBinary:
		return append([]byte{}, c.Value(i)...)
	case *array.Timestamp:
		return int64(c.Value(i))
	case *array.Duration:
		return int64(c.Value(i))
	case *array.Struct:
		st := c.DataType().(*arrow.StructType)
		m := map[string]any{}
		for f := 0; f < c.NumField(); f++ {
			m[st.Field(f).Name] = cell(c.Field(f), i)
		}
		return m
	case *array.List:
		start, end := c.ValueOffsets(i)
		out := make([]any, 0, end-start)
		for j := start; j < end; j++ {
			out = append(out, cell(c.ListValues(), int(j)))
		}
		return out
	case *array.SparseUnion:
		child := c.ChildID(i)
		ut := c.DataType().(*arrow.SparseUnionType)
		return map[string]any{"@" + ut.Fields()[child].Name: cell(c.Field(child), i)}
	}
	panic(fmt.Sprintf("rows: unsupported array type %T", col))
}

type Table struct {
	Cols []string
	Rows []map[string]any
}

func tableOf(rec arrow.Record) *Table {
	t := &Table{}
	for c := 0; c < int(rec.NumCols()); c++ {
		t.Cols = append(t.Cols, rec.ColumnName(c))
	}
	for i := 0; i < int(rec.NumRows()); i++ {
		row := map[string]any{}
		for c := 0; c < int(rec.NumCols()); c++ {
			row[rec.ColumnName(c)] = cell(rec.Column(c), i)
		}
		t.Rows = append(t.Rows, row)
	}
	return t
}

func (t *Table) Has(col string) bool {
	for _, c := range t.Cols {
		if c == col {
			return true
		}
	}
	return false
}

func u64(v any) (uint64, bool) {
	switch x := v.(type) {
	case uint64:
		return x, true
	case int64:
		return uint64(x), true
	}
	return 0, false
}
