package main

// Canonical renderings of decoded telemetry: attribute maps and nested maps sorted by key
// (map order is not part of the data model; the decoder rebuilds nested maps from Go maps).

import (
	"fmt"
	"math"
	"sort"
	"strings"

	"go.opentelemetry.io/collector/pdata/pcommon"
	"go.opentelemetry.io/collector/pdata/ptrace"
)

func canonValue(sb *strings.Builder, v pcommon.Value) {
	switch v.Type() {
	case pcommon.ValueTypeEmpty:
		sb.WriteString("E")
	case pcommon.ValueTypeStr:
		fmt.Fprintf(sb, "S%q", v.Str())
	case pcommon.ValueTypeInt:
		fmt.Fprintf(sb, "I%d", v.Int())
	case pcommon.ValueTypeDouble:
		f := v.Double()
		switch {
		case math.IsNaN(f):
			sb.WriteString("Dnan")
		case f == 0:
			sb.WriteString("D0")
		default:
			fmt.Fprintf(sb, "D%x", math.Float64bits(f))
		}
	case pcommon.ValueTypeBool:
		fmt.Fprintf(sb, "B%v", v.Bool())
	case pcommon.ValueTypeBytes:
		fmt.Fprintf(sb, "Y%x", v.Bytes().AsRaw())
	case pcommon.ValueTypeSlice:
		sb.WriteString("L[")
		for i := 0; i < v.Slice().Len(); i++ {
			canonValue(sb, v.Slice().At(i))
			sb.WriteString(",")
		}
		sb.WriteString("]")
	case pcommon.ValueTypeMap:
		sb.WriteString("M")
		canonMap(sb, v.Map())
	}
}

func canonMap(sb *strings.Builder, m pcommon.Map) {
	type kv struct {
		k string
		v string
	}
	var kvs []kv
	m.Range(func(k string, v pcommon.Value) bool {
		var b strings.Builder
		canonValue(&b, v)
		kvs = append(kvs, kv{k, b.String()})
		return true
	})
	sort.SliceStable(kvs, func(i, j int) bool { return kvs[i].k < kvs[j].k })
	sb.WriteString("{")
	for _, e := range kvs {
		fmt.Fprintf(sb, "%q:%s;", e.k, e.v)
	}
	sb.WriteString("}")
}

func canonTraces(td ptrace.Traces) string {
	var sb strings.Builder
	for i := 0; i < td.ResourceSpans().Len(); i++ {
		rs := td.ResourceSpans().At(i)
		sb.WriteString("R")
		canonMap(&sb, rs.Resource().Attributes())
		fmt.Fprintf(&sb, "|%d|%q\n", rs.Resource().DroppedAttributesCount(), rs.SchemaUrl())
		for j := 0; j < rs.ScopeSpans().Len(); j++ {
			ss := rs.ScopeSpans().At(j)
			fmt.Fprintf(&sb, " S%q|%q|", ss.Scope().Name(), ss.Scope().Version())
			canonMap(&sb, ss.Scope().Attributes())
			fmt.Fprintf(&sb, "|%d|%q\n", ss.Scope().DroppedAttributesCount(), ss.SchemaUrl())
			for k := 0; k < ss.Spans().Len(); k++ {
				sp := ss.Spans().At(k)
				fmt.Fprintf(&sb, "  P%s|%s|%s|%q|%q|%d|%d|%d|", sp.TraceID(), sp.SpanID(), sp.ParentSpanID(), sp.TraceState().AsRaw(), sp.Name(), sp.Kind(), sp.StartTimestamp(), sp.EndTimestamp())
				canonMap(&sb, sp.Attributes())
				fmt.Fprintf(&sb, "|%d|%d|%d|%d|%q\n", sp.DroppedAttributesCount(), sp.DroppedEventsCount(), sp.DroppedLinksCount(), sp.Status().Code(), sp.Status().Message())
				for e := 0; e < sp.Events().Len(); e++ {
					ev := sp.Events().At(e)
					fmt.Fprintf(&sb, "   E%d|%q|", ev.Timestamp(), ev.Name())
					canonMap(&sb, ev.Attributes())
					fmt.Fprintf(&sb, "|%d\n", ev.DroppedAttributesCount())
				}
				for l := 0; l < sp.Links().Len(); l++ {
					ln := sp.Links().At(l)
					fmt.Fprintf(&sb, "   L%s|%s|%q|", ln.TraceID(), ln.SpanID(), ln.TraceState().AsRaw())
					canonMap(&sb, ln.Attributes())
					fmt.Fprintf(&sb, "|%d\n", ln.DroppedAttributesCount())
				}
			}
		}
	}
	return sb.String()
}
