package main

// A caller-supplied allocator that refuses one allocation made during an IPC write (armed from the producer observer's OnRecord,
// which Produce calls right before ipc.Writer.Write): arrow-go turns the allocator's panic into an error of Write, the producer
// reports an encode error. Outside the IPC write an allocator is expected to succeed (the Arrow builders have no error path).

import (
	"sync/atomic"

	"github.com/apache/arrow-go/v18/arrow"
	"github.com/apache/arrow-go/v18/arrow/memory"
	"github.com/open-telemetry/otel-arrow/pkg/record_message"
)

type faultAllocator struct {
	inner memory.Allocator
	armed int32
	fired int32
}

type injectedRefusal struct{}

func (injectedRefusal) Error() string { return "allocation refused (injected fault)" }

func (a *faultAllocator) trip() {
	if atomic.CompareAndSwapInt32(&a.armed, 1, 0) {
		atomic.AddInt32(&a.fired, 1)
		panic(injectedRefusal{})
	}
}
func (a *faultAllocator) Allocate(size int) []byte { a.trip(); return a.inner.Allocate(size) }
func (a *faultAllocator) Reallocate(size int, b []byte) []byte {
	a.trip()
	return a.inner.Reallocate(size, b)
}
func (a *faultAllocator) Free(b []byte) { a.inner.Free(b) }

// faultObs arms the allocator when the producer is about to write record number `at` (counted over the whole stream).
type faultObs struct {
	evObserver
	alloc *faultAllocator
	at    int
	seen  int
}

func (o *faultObs) OnRecord(arrow.Record, record_message.PayloadType) {
	atomic.StoreInt32(&o.alloc.armed, 0) // an unfired fault does not leak into the next record's write
	if o.seen == o.at {
		atomic.StoreInt32(&o.alloc.armed, 1)
	}
	o.seen++
}
