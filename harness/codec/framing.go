package main

// C12: framing of BatchArrowRecords over stream histories (interleaved signals, schema changes,
// dictionary overflow/reset, with and without IPC compression).

import (
	"bytes"
	"fmt"
	"strings"

	"github.com/apache/arrow-go/v18/arrow/memory"
	colarspb "github.com/open-telemetry/otel-arrow/api/experimental/arrow/v1"
	cfgpkg "github.com/open-telemetry/otel-arrow/pkg/config"
)

func init() { subcommands["framing"] = runFraming }

func runFraming(o opts, out *Output) {
	out.Imports = "From Verif Require Import Base.ListX Stream.Producer."
	r := NewRng(o.seed)
	stats := map[string]int{}
	var sb strings.Builder
	sb.WriteString("Definition framing_cases : list (list call2 * list (N * list (N * N))) := [\n")
	ncase := 0
	for c := 0; c < o.n; c++ {
		g := &OGen{r: r.Fork(), Wide: r.Chance(40), Mono: monoPick(r)}
		var options []cfgpkg.Option
		optName := "default"
		switch r.Intn(6) {
		case 0:
			options = append(options, cfgpkg.WithNoZstd())
			optName = "nozstd"
		case 1:
			options = append(options, cfgpkg.WithUint8LimitDictIndex())
			optName = "u8limit"
		case 2:
			options = append(options, cfgpkg.WithNoDictionary(), cfgpkg.WithZstd())
			optName = "nodict"
		case 3:
			options = append(options, cfgpkg.WithUint8LimitDictIndex(), cfgpkg.WithDictResetThreshold(1.0))
			optName = "u8limit-reset"
		}
		var fa *faultAllocator
		if c%5 == 2 {
			// a failed Produce in the middle of the history: the caller's allocator refuses one allocation during the IPC write
			// of the k-th record of the stream; nothing is emitted for that batch, the ids of the next ones go on from there
			fa = &faultAllocator{inner: memory.NewGoAllocator()}
			options = append(options, cfgpkg.WithAllocator(fa))
			optName += "+refused-allocation-in-ipc-write"
		}
		pr := newProducerRun(options...)
		if fa != nil {
			pr.obs.fault = &faultObs{evObserver: evObserver{events: map[string]string{}}, alloc: fa, at: 2 + r.Intn(12)}
		}
		ir := newIndepReader()
		keyIDs := map[string]int{}
		keyOf := func(k string) int {
			if v, ok := keyIDs[k]; ok {
				return v
			}
			keyIDs[k] = len(keyIDs) + 1
			return keyIDs[k]
		}
		nb := 2 + r.Intn(6)
		mode := r.Intn(4)
		var hist, obs []string
		nreset := 0
		var sample []map[string]any
		sidInfo := map[string]string{} // sid -> "type|key"
		curSid := map[int32]string{}   // type -> current sid
		dead := map[string]bool{}
		ok := true
		// the batches stay with a slow receiver until the end of the history: what was emitted must not change
		type keptPayload struct {
			batch, idx int
			pl         *colarspb.ArrowPayload
			snapshot   []byte
			table      *Table
		}
		var kept []keptPayload
		for b := 0; b < nb && ok; b++ {
			sig := mode
			if mode == 3 {
				sig = r.Intn(3)
			}
			data := genAny(g, r, sig)
			if strings.HasPrefix(optName, "u8limit") && r.Chance(60) {
				g.Wide = true
				data = genAnyN(g, r, sig, 200) // enough distinct strings to cross the 8-bit dictionary limit
			}
			if itemCount(data) == 0 {
				continue
			}
			if b > 0 && r.Chance(25) {
				// a statistics scrape between two batches is part of a producer's history
				func() {
					defer func() { recover() }()
					_ = pr.p.GetAndResetStats()
				}()
				stats["stats_scrapes"]++
				hist = append(hist, "Call ResetStats")
				nreset++
			}
			res := pr.produce(data)
			if res.Class == "error" && fa != nil && strings.Contains(res.Msg, "injected fault") {
				stats["failed_produce_injected"]++
				// the records Produce had reached (the failing one included): their stream producers exist, schema ids are consumed
				var fps []string
				for _, rec := range res.Recs {
					fps = append(fps, fmt.Sprintf("(%d, %d)", int32(rec.PType), keyOf(rec.Key)))
				}
				hist = append(hist, "Failed ["+strings.Join(fps, "; ")+"]")
				nreset++
				// every sub-stream restarts: the ids in use so far are closed
				for ty, sid := range curSid {
					dead[sid] = true
					delete(curSid, ty)
				}
				continue
			}
			if res.Class != "ok" {
				stats["producer_"+res.Class]++
				break
			}
			replay := map[string]any{"seed": o.seed, "case": c, "batch": b, "options": optName}
			bar := res.Bar
			if len(bar.ArrowPayloads) != len(res.Recs) {
				out.Violation("C12", "payload-count", "number of payloads differs from the number of records handed to the IPC writers", replay)
				break
			}
			var ps, os []string
			types := map[int32]bool{}
			for i, pl := range bar.ArrowPayloads {
				rec := res.Recs[i]
				ps = append(ps, fmt.Sprintf("(%d, %d)", int32(pl.Type), keyOf(rec.Key)))
				var sidn int
				fmt.Sscan(pl.SchemaId, &sidn)
				os = append(os, fmt.Sprintf("(%d, %d)", sidn, int32(pl.Type)))
				// ---- the property, on the real output
				if i == 0 && pl.Type != mainType(res.Signal) {
					out.Violation("C12", "first-not-main", fmt.Sprintf("first payload of a %s batch is %s", res.Signal, pl.Type), replay)
				}
				if types[int32(pl.Type)] {
					out.Violation("C12", "type-twice", fmt.Sprintf("payload type %s appears twice in one batch", pl.Type), replay)
				}
				types[int32(pl.Type)] = true
				if i > 0 && len(rec.Table.Rows) == 0 {
					out.Violation("C12", "empty-related", fmt.Sprintf("related payload %s is empty", pl.Type), replay)
				}
				info := fmt.Sprintf("%d|%s", int32(pl.Type), rec.Key)
				if old, seen := sidInfo[pl.SchemaId]; seen && old != info {
					out.Violation("C12", "sid-two-meanings", fmt.Sprintf("schema id %s denotes %s and %s", pl.SchemaId, old, info), replay)
				}
				sidInfo[pl.SchemaId] = info
				if dead[pl.SchemaId] {
					out.Violation("C12", "closed-sid-reused", fmt.Sprintf("schema id %s is used again after payload type %s moved to a new schema", pl.SchemaId, pl.Type), replay)
				}
				if cur, has := curSid[int32(pl.Type)]; has && cur != pl.SchemaId {
					dead[cur] = true
					stats["schema_changes"]++
				}
				curSid[int32(pl.Type)] = pl.SchemaId
				// ---- an independent Arrow reader decodes the sub-stream
				t, err := ir.read(pl)
				if err != nil {
					out.Violation("C12", "independent-reader-fails", fmt.Sprintf("an independent Arrow IPC reader cannot decode payload %d (%s, schema id %s): %v", i, pl.Type, pl.SchemaId, err), replay)
					ok = false
					break
				}
				if d := tablesEqual(rec.Table, t); d != "" {
					out.Violation("C12", "transport-changes-record", fmt.Sprintf("payload %d (%s): record after transport differs from the record written: %s", i, pl.Type, d), replay)
				}
				stats["payloads"]++
				kept = append(kept, keptPayload{b, i, pl, append([]byte(nil), pl.Record...), rec.Table})
			}
			if int(bar.BatchId) != len(hist)-nreset {
				out.Violation("C12", "batch-id", fmt.Sprintf("batch id %d, expected %d", bar.BatchId, len(hist)-nreset), replay)
			}
			hist = append(hist, "Call (Batch ["+strings.Join(ps, "; ")+"])")
			obs = append(obs, fmt.Sprintf("(%d, [%s])", bar.BatchId, strings.Join(os, "; ")))
			evs := map[string]int{}
			for _, e := range res.Events {
				evs[e.Kind]++
				stats["event_"+e.Kind]++
			}
			sample = append(sample, map[string]any{"signal": res.Signal, "payloads": describe(bar), "events": evs})
		}
		if ok {
			late := newIndepReader()
			for _, kp := range kept {
				replay := map[string]any{"seed": o.seed, "case": c, "batch": kp.batch, "payload": kp.idx, "options": optName}
				if !bytes.Equal(kp.snapshot, kp.pl.Record) {
					out.Violation("C12", "emitted-payload-overwritten", fmt.Sprintf("payload %d of batch %d (%s, schema id %s) no longer holds the bytes it was emitted with: a later Produce call overwrote them", kp.idx, kp.batch, kp.pl.Type, kp.pl.SchemaId), replay)
					break
				}
				t, err := late.read(kp.pl)
				if err != nil {
					out.Violation("C12", "late-reader-fails", fmt.Sprintf("an independent Arrow IPC reader that reads the kept batches after the whole history cannot decode payload %d of batch %d: %v", kp.idx, kp.batch, err), replay)
					break
				}
				if d := tablesEqual(kp.table, t); d != "" {
					out.Violation("C12", "late-transport-changes-record", fmt.Sprintf("payload %d of batch %d read after the whole history differs from the record written: %s", kp.idx, kp.batch, d), replay)
					break
				}
				stats["late_payloads"]++
			}
		}
		func() { defer func() { recover() }(); pr.p.Close() }()
		if len(hist)-nreset == 0 {
			continue
		}
		if ncase > 0 {
			sb.WriteString(";\n")
		}
		fmt.Fprintf(&sb, " ([%s], [%s])", strings.Join(hist, "; "), strings.Join(obs, "; "))
		ncase++
		out.AddCase(map[string]any{"options": optName, "mode": []string{"traces", "logs", "metrics", "interleaved"}[mode], "batches": sample}, len(hist)-nreset > 1, fmt.Sprintf("options=%s mode=%d", optName, mode))
	}
	sb.WriteString("\n].\n")
	out.Coq.WriteString(sb.String())
	out.Coq.WriteString(`(* history = the producer's public calls: per batch the (payload type, stream key) of every record message, and the statistics
   reads (GetAndResetStats) between them, and the Produce calls that failed half-way with the records they had reached; observation = per batch (batch id, [(schema id, type)]) *)
Definition pair_eqb (a b : N * N) : bool := N.eqb (fst a) (fst b) && N.eqb (snd a) (snd b).
Definition out_eqb (a b : N * list (N * N)) : bool := N.eqb (fst a) (fst b) && list_eqb pair_eqb (snd a) (snd b).
Definition framing_check (c : list call2 * list (N * list (N * N))) : bool :=
  list_eqb out_eqb (snd (arun2 false ainit (fst c))) (snd c).
Definition framing_mismatch := Eval vm_compute in failing framing_check framing_cases.
Print framing_mismatch.
`)
	out.Lists = append(out.Lists, "framing_mismatch")
	out.Extra["stats"] = stats
}
