package main

// C14, part 1: op-sequence differential of the real LimitedAllocator against Mem/Allocator.v.

import (
	"errors"
	"fmt"
	"strings"

	"github.com/apache/arrow-go/v18/arrow/memory"
	carrow "github.com/open-telemetry/otel-arrow/pkg/otel/common/arrow"
)

func init() { subcommands["alloc"] = runAlloc }

type allocStep struct {
	Op      string `json:"op"`
	Arg     int    `json:"arg"`
	Size    int    `json:"size"`
	Refused bool   `json:"refused"`
	Req     uint64 `json:"req,omitempty"`
	Inuse   uint64 `json:"inuse"`
}

func tryOp(f func()) (le *carrow.LimitError, other any) {
	defer func() {
		if r := recover(); r != nil {
			if e, ok := r.(carrow.LimitError); ok {
				le = &e
			} else {
				other = r
			}
		}
	}()
	f()
	return
}

func runAlloc(o opts, out *Output) {
	out.Imports = "From Verif Require Import Base.ListX Mem.Allocator."
	r := NewRng(o.seed)
	var sb strings.Builder
	sb.WriteString("Definition alloc_cases : list (N * list cop * list (bool * N * N)) := [\n")
	for c := 0; c < o.n; c++ {
		limit := uint64([]int{0, 1, 7, 64, 100, 1000, 4096, 1 << 16}[r.Intn(8)])
		if r.Chance(20) {
			limit = uint64(r.Intn(5000))
		}
		la := carrow.NewLimitedAllocator(memory.NewGoAllocator(), limit)
		var live [][]byte
		var ops, obs []string
		var steps []allocStep
		nops := 1 + r.Intn(25)
		refusals := 0
		for i := 0; i < nops; i++ {
			sz := func() int {
				switch r.Intn(5) {
				case 0:
					return 0
				case 1:
					return r.Intn(8)
				case 2:
					return int(limit/2) + r.Intn(3)
				default:
					return r.Intn(int(limit) + 10)
				}
			}
			var st allocStep
			k := r.Intn(10)
			switch {
			case k < 4 || len(live) == 0:
				size := sz()
				var b []byte
				le, other := tryOp(func() { b = la.Allocate(size) })
				st = allocStep{Op: "alloc", Size: size}
				ops = append(ops, fmt.Sprintf("CAlloc %d", size))
				if other != nil {
					out.Violation("C14", "allocator-foreign-panic", fmt.Sprintf("Allocate(%d) panicked with %v", size, other), steps)
				}
				if le != nil {
					st.Refused, st.Req = true, le.Request
					refusals++
					if le.Limit != limit || !errors.Is(*le, carrow.LimitError{}) {
						out.Violation("C14", "limit-error-fields", "LimitError does not carry the limit / is not recognisable", steps)
					}
				} else {
					live = append(live, b)
				}
			case k < 7:
				idx := r.Intn(len(live))
				size := sz()
				var b []byte
				le, other := tryOp(func() { b = la.Reallocate(size, live[idx]) })
				st = allocStep{Op: "realloc", Arg: idx, Size: size}
				ops = append(ops, fmt.Sprintf("CRealloc %d %d", idx, size))
				if other != nil {
					out.Violation("C14", "allocator-foreign-panic", fmt.Sprintf("Reallocate panicked with %v", other), steps)
				}
				if le != nil {
					st.Refused, st.Req = true, le.Request
					refusals++
				} else {
					live[idx] = b
				}
			default:
				idx := r.Intn(len(live))
				la.Free(live[idx])
				live = append(live[:idx], live[idx+1:]...)
				st = allocStep{Op: "free", Arg: idx}
				ops = append(ops, fmt.Sprintf("CFree %d", idx))
			}
			st.Inuse = la.Inuse()
			steps = append(steps, st)
			obs = append(obs, fmt.Sprintf("(%v, %d, %d)", st.Refused, st.Req, st.Inuse))
			if st.Inuse > limit {
				out.Violation("C14", "inuse-over-limit", fmt.Sprintf("in-use %d exceeds limit %d", st.Inuse, limit), steps)
			}
			sum := uint64(0)
			for _, b := range live {
				sum += uint64(len(b))
			}
			if sum != st.Inuse {
				out.Violation("C14", "inuse-not-sum", fmt.Sprintf("in-use %d differs from the sum of live blocks %d", st.Inuse, sum), steps)
			}
		}
		if c > 0 {
			sb.WriteString(";\n")
		}
		fmt.Fprintf(&sb, " (%d, [%s], [%s])", limit, strings.Join(ops, "; "), strings.Join(obs, "; "))
		out.AddCase(map[string]any{"limit": limit, "steps": steps}, refusals > 0 || nops > 3, fmt.Sprintf("ops=%s refusals=%d", bucketN(nops), min(refusals, 3)))
	}
	sb.WriteString("\n].\n")
	out.Coq.WriteString(sb.String())
	out.Coq.WriteString(`(* replay through the model: refusal flag, reported request and in-use after every operation *)
Fixpoint alloc_replay (st : alloc * list N) (cs : list cop) : list (bool * N * N) :=
  match cs with
  | [] => []
  | c :: tl => let '(st1, e) := cstep st c in
      (match e with Some le => (true, le_request le, inuse (fst st1)) | None => (false, 0, inuse (fst st1)) end) :: alloc_replay st1 tl
  end.
Definition obs_eqb (a b : bool * N * N) : bool :=
  Bool.eqb (fst (fst a)) (fst (fst b)) && N.eqb (snd (fst a)) (snd (fst b)) && N.eqb (snd a) (snd b).
Definition alloc_check (c : N * list cop * list (bool * N * N)) : bool :=
  let '(lim, cs, obs) := c in list_eqb obs_eqb (alloc_replay ({| inuse := 0; limit := lim |}, []) cs) obs.
Definition alloc_prop (c : N * list cop * list (bool * N * N)) : bool :=
  let '(lim, cs, obs) := c in forallb (fun o => snd o <=? lim) obs.
Definition alloc_mismatch := Eval vm_compute in failing alloc_check alloc_cases.
Definition alloc_propfail := Eval vm_compute in failing alloc_prop alloc_cases.
Print alloc_mismatch.
Print alloc_propfail.
`)
	out.Lists = append(out.Lists, "alloc_mismatch", "alloc_propfail")
}

func bucketN(n int) string {
	switch {
	case n <= 3:
		return "1-3"
	case n <= 10:
		return "4-10"
	default:
		return ">10"
	}
}
