package main

// C13: the adaptive dictionary machinery.
//  A. op-sequence differential of the real transform.DictionaryField
//  B. record-level differential of the real RecordBuilderExt (NewRecord / UpdateSchema / retry loop as in arrow_record.recordBuilder)
//  C. the real producer on high-cardinality streams under every dictionary limit option: every
//     transmitted record is inspected (dictionary length vs index width vs configured limit)

import (
	"errors"
	"fmt"
	"math"
	"math/big"
	"os"
	"strings"

	"github.com/apache/arrow-go/v18/arrow"
	"github.com/apache/arrow-go/v18/arrow/array"
	"github.com/apache/arrow-go/v18/arrow/memory"

	cfgpkg "github.com/open-telemetry/otel-arrow/pkg/config"
	"github.com/open-telemetry/otel-arrow/pkg/otel/arrow_record"
	"github.com/open-telemetry/otel-arrow/pkg/otel/common/schema"
	"github.com/open-telemetry/otel-arrow/pkg/otel/common/schema/builder"
	dcfg "github.com/open-telemetry/otel-arrow/pkg/otel/common/schema/config"
	"github.com/open-telemetry/otel-arrow/pkg/otel/common/schema/events"
	"github.com/open-telemetry/otel-arrow/pkg/otel/common/schema/transform"
	"github.com/open-telemetry/otel-arrow/pkg/otel/common/schema/update"
	"github.com/open-telemetry/otel-arrow/pkg/otel/stats"
	"github.com/open-telemetry/otel-arrow/pkg/record_message"
	"go.opentelemetry.io/collector/pdata/plog"
	"go.opentelemetry.io/collector/pdata/pmetric"
	"go.opentelemetry.io/collector/pdata/ptrace"
)

func init() { subcommands["dict"] = runDict }

// threshold as the rational the float comparison `float64(c)/float64(t) < thr` amounts to:
// fl(q) < T  <=>  q < (pred(T)+T)/2   (ties need t >= 2^50)
func thrRat(thr float64) (string, string) {
	if thr <= 0 {
		return "0", "1"
	}
	a := new(big.Rat).SetFloat64(thr)
	b := new(big.Rat).SetFloat64(math.Nextafter(thr, math.Inf(-1)))
	mid := new(big.Rat).Add(a, b)
	mid.Quo(mid, big.NewRat(2, 1))
	return mid.Num().String(), mid.Denom().String()
}

func capOf(dt arrow.DataType) uint64 {
	if dt == nil {
		return 0
	}
	switch dt.ID() {
	case arrow.UINT8:
		return math.MaxUint8
	case arrow.UINT16:
		return math.MaxUint16
	case arrow.UINT32:
		return math.MaxUint32
	case arrow.UINT64:
		return math.MaxUint64
	}
	return 1
}

type evObserver struct {
	events map[string]string // field path -> event kind of the current attempt
}

func (o *evObserver) OnNewField(string, string) {}
func (o *evObserver) OnDictionaryUpgrade(_ string, f string, _, _ arrow.DataType, _, _ uint64) {
	o.events[f] = "DUpgrade"
}
func (o *evObserver) OnDictionaryOverflow(_ string, f string, _, _ uint64) { o.events[f] = "DOverflow" }
func (o *evObserver) OnSchemaUpdate(string, *arrow.Schema, *arrow.Schema)  {}
func (o *evObserver) OnDictionaryReset(_ string, f string, _ arrow.DataType, _, _ uint64) {
	o.events[f] = "DReset"
}
func (o *evObserver) OnMetadataUpdate(string, string)                   {}
func (o *evObserver) OnRecord(arrow.Record, record_message.PayloadType) {}

func runDict(o opts, out *Output) {
	out.Imports = "From Verif Require Import Base.ListX Stream.DictMachine."
	r := NewRng(o.seed)
	limitsAll := []uint64{0, 100, 255, 1000, 65535, 70000, math.MaxUint32, math.MaxUint64}
	thrs := []float64{0, 0.1, 0.3, 0.5, 1, 2.5}
	// ---------------------------------------------------------------- A
	var fa strings.Builder
	fa.WriteString("Definition field_cases : list (dcfg * list (N * N) * list (N * N * N)) := [\n")
	nA := o.n
	for c := 0; c < nA; c++ {
		lim := limitsAll[r.Intn(len(limitsAll))]
		initial := []uint64{math.MaxUint8, math.MaxUint16}[r.Intn(2)]
		thr := thrs[r.Intn(len(thrs))]
		conf := dcfg.NewDictionaryFrom(initial, dcfg.NewDictionary(lim, thr))
		req := update.NewSchemaUpdateRequest()
		evts := &events.Events{DictionariesWithOverflow: map[string]bool{}, DictionariesIndexTypeChanged: map[string]string{}}
		df := transform.NewDictionaryField("f", "0", conf, req, evts)
		st := stats.NewProducerStats()
		obsr := &evObserver{events: map[string]string{}}
		var ops, obs []string
		var steps []map[string]any
		card := uint64(0)
		nops := 1 + r.Intn(14)
		nontrivial := false
		for i := 0; i < nops; i++ {
			var opk, arg uint64
			switch r.Intn(6) {
			case 0:
				opk = 2 // RevertCounters
				df.RevertCounters()
			default:
				// one NewRecord detection: AddTotal(rows); SetCardinality(card)
				rows := uint64(1 + r.Intn(3000))
				switch r.Intn(4) {
				case 0:
					card = uint64(r.Intn(300))
				case 1:
					card += uint64(r.Intn(200))
				case 2:
					card = []uint64{255, 256, 65535, 65536, 70000, 1 << 33}[r.Intn(6)]
				default:
					card = uint64(r.Intn(80000))
				}
				opk, arg = 1, rows
				df.AddTotal(int(rows))
				df.SetCardinality(card, &st.RecordBuilderStats)
			}
			obsr.events = map[string]string{}
			req.Notify("x", obsr)
			req.Reset()
			kind := 0
			switch obsr.events["f"] {
			case "DUpgrade":
				kind = 1
				nontrivial = true
			case "DReset":
				kind = 2
				nontrivial = true
			case "DOverflow":
				kind = 3
				nontrivial = true
			}
			if opk == 2 {
				ops = append(ops, "(0, 0)")
			} else {
				ops = append(ops, fmt.Sprintf("(%d, %d)", arg, card))
			}
			w := capOf(df.IndexType())
			obs = append(obs, fmt.Sprintf("(%d, %d, %d)", w, df.CumulativeTotal(), kind))
			steps = append(steps, map[string]any{"op": opk, "rows": arg, "card": card, "width_cap": w, "cum": df.CumulativeTotal(), "event": kind})
		}
		tn, td := thrRat(thr)
		if c > 0 {
			fa.WriteString(";\n")
		}
		fmt.Fprintf(&fa, " ({| min_card := %d; max_card := %d; thr_num := %s; thr_den := %s |}, [%s], [%s])", conf.MinCard, conf.MaxCard, tn, td, strings.Join(ops, "; "), strings.Join(obs, "; "))
		out.AddCaseTagged("field", map[string]any{"limit": lim, "initial": initial, "threshold": thr, "steps": steps}, nontrivial, fmt.Sprintf("field limit=%d", lim))
	}
	fa.WriteString("\n].\n")
	out.Coq.WriteString(fa.String())
	out.Coq.WriteString(`(* op = (rows, card): AddTotal rows; SetCardinality card — or (0,0): RevertCounters.
   observation = (cap of the current index type or 0 when the column is plain, cumulative total, event kind) *)
Definition ev_code (e : devent) : N := match e with DNone => 0 | DUpgrade => 1 | DReset => 2 | DOverflow => 3 end.
Definition width_cap (d : dict) : N := match widths d with [] => 0 | ws => nth (cur d) ws 0 end.
Fixpoint field_replay (cfg : dcfg) (d : dict) (ops : list (N * N)) : list (N * N * N) :=
  match ops with
  | [] => []
  | (rows, c) :: tl =>
      if (rows =? 0) then let d' := revert d in (width_cap d', cum d', 0) :: field_replay cfg d' tl
      else let '(d', e) := set_card cfg (add_total d rows) c in (width_cap d', cum d', ev_code e) :: field_replay cfg d' tl
  end.
Definition triple_eqb (a b : N * N * N) : bool :=
  N.eqb (fst (fst a)) (fst (fst b)) && N.eqb (snd (fst a)) (snd (fst b)) && N.eqb (snd a) (snd b).
Definition field_check (c : dcfg * list (N * N) * list (N * N * N)) : bool :=
  let '(cfg, ops, obs) := c in list_eqb triple_eqb (field_replay cfg (dinit cfg) ops) obs.
Definition field_mismatch := Eval vm_compute in failing field_check field_cases.
Print field_mismatch.
`)
	out.Lists = append(out.Lists, "field_mismatch")

	// ---------------------------------------------------------------- B
	var rb strings.Builder
	rb.WriteString("Definition rec_cases : list (list dcfg * list (bool * list colbatch) * list (option (list colview * nat))) := [\n")
	nB := o.n / 4
	for c := 0; c < nB; c++ {
		lim := []uint64{0, 255, 255, 65535, 65535, math.MaxUint32}[r.Intn(6)]
		thr := thrs[r.Intn(len(thrs))]
		proto := arrow.NewSchema([]arrow.Field{
			{Name: "s1", Type: arrow.BinaryTypes.String, Metadata: schema.Metadata(schema.Dictionary8)},
			{Name: "s2", Type: arrow.BinaryTypes.String, Metadata: schema.Metadata(schema.Dictionary16)},
		}, nil)
		obsr := &evObserver{events: map[string]string{}}
		st := stats.NewProducerStats()
		rbe := builder.NewRecordBuilderExt(memory.NewGoAllocator(), proto, dcfg.NewDictionary(lim, thr), st, obsr)
		tn, td := thrRat(thr)
		cfgs := fmt.Sprintf("[cfg_of_limit %d 255 %s %s; cfg_of_limit %d 65535 %s %s]", lim, tn, td, lim, tn, td)
		nb := 1 + r.Intn(5)
		var hist, outs []string
		var sample []map[string]any
		base := [2]int{0, 0}
		nontrivial := false
		dead := false
		for b := 0; b < nb && !dead; b++ {
			rows := 1 + r.Intn(40)
			if r.Chance(30) {
				rows = 200 + r.Intn(500)
			}
			// per column: value i of the batch = base + (i mod distinct)
			var vals [2][]int
			for k := 0; k < 2; k++ {
				distinct := 1 + r.Intn(rows)
				if r.Chance(40) {
					distinct = 1 + r.Intn(8)
				}
				if r.Chance(50) {
					base[k] += r.Intn(300) // fresh values vs reuse
				}
				for i := 0; i < rows; i++ {
					vals[k] = append(vals[k], base[k]+i%distinct)
				}
			}
			pending := r.Chance(15)
			if pending {
				rbe.AddMetadata("k", fmt.Sprintf("v%d-%d", c, b))
			}
			attempts := 0
			var views []string
			result := ""
			for {
				s1 := rbe.StringBuilder("s1")
				s2 := rbe.StringBuilder("s2")
				for i := 0; i < rows; i++ {
					s1.Append(fmt.Sprintf("a%d", vals[0][i]))
					s2.Append(fmt.Sprintf("b%d", vals[1][i]))
				}
				obsr.events = map[string]string{}
				rec, err := rbe.NewRecord()
				attempts++
				if err != nil {
					if rec != nil {
						rec.Release()
					}
					if errors.Is(err, schema.ErrSchemaNotUpToDate) {
						nontrivial = true
						if attempts > 5 {
							result = "None"
							dead = true
							break
						}
						continue
					}
					out.Violation("C13", "newrecord-error", "NewRecord returned an unexpected error: "+err.Error(), nil)
					dead = true
					result = "None"
					break
				}
				for i := 0; i < int(rec.NumCols()); i++ {
					if d, ok := rec.Column(i).(*array.Dictionary); ok {
						w := capOf(d.DataType().(*arrow.DictionaryType).IndexType)
						n := d.Dictionary().Len()
						views = append(views, fmt.Sprintf("Some (%d, %d)", w, n))
						if uint64(n) > w || w > lim {
							out.Violation("C13", "dictionary-exceeds-limit", fmt.Sprintf("transmitted dictionary of %d entries, index cap %d, limit %d", n, w, lim), map[string]any{"case": c, "batch": b})
						}
					} else {
						views = append(views, "None")
					}
				}
				rec.Release()
				result = fmt.Sprintf("Some ([%s], %d%%nat)", strings.Join(views, "; "), attempts)
				break
			}
			cb := func(k int) string {
				ss := make([]string, len(vals[k]))
				for i, v := range vals[k] {
					ss[i] = fmt.Sprint(v)
				}
				return fmt.Sprintf("(%d, [%s])", rows, strings.Join(ss, ";"))
			}
			hist = append(hist, fmt.Sprintf("(%v, [%s; %s])", pending, cb(0), cb(1)))
			outs = append(outs, result)
			sample = append(sample, map[string]any{"rows": rows, "pending_update": pending, "attempts": attempts, "result": result})
		}
		rbe.Release()
		if c > 0 {
			rb.WriteString(";\n")
		}
		fmt.Fprintf(&rb, " (%s, [%s], [%s])", cfgs, strings.Join(hist, "; "), strings.Join(outs, "; "))
		out.AddCaseTagged("rec", map[string]any{"limit": lim, "threshold": thr, "batches": sample}, nontrivial, fmt.Sprintf("record limit=%d", lim))
	}
	rb.WriteString("\n].\n")
	out.Coq.WriteString(rb.String())
	out.Coq.WriteString(`Definition view_eqb (a b : colview) : bool :=
  match a, b with
  | None, None => true
  | Some (w, n), Some (w', n') => N.eqb w w' && N.eqb n n'
  | _, _ => false
  end.
Definition out_eqb (o : outcome) (b : option (list colview * nat)) : bool :=
  match o, b with
  | PanicTooMany, None => true
  | Sent vs k, Some (vs', k') => list_eqb view_eqb vs vs' && Nat.eqb k k'
  | _, _ => false
  end.
Fixpoint zip_eqb (l1 : list outcome) (l2 : list (option (list colview * nat))) : bool :=
  match l1, l2 with [], [] => true | a :: t1, b :: t2 => out_eqb a b && zip_eqb t1 t2 | _, _ => false end.
Definition rec_check (c : list dcfg * list (bool * list colbatch) * list (option (list colview * nat))) : bool :=
  let '(cfgs, hist, obs) := c in zip_eqb (run_hist (map col_init cfgs) hist) obs.
(* the property on the real records: dictionary length <= index cap <= limit; no dictionary when disabled *)
Definition view_okb (cfg : dcfg) (v : colview) : bool :=
  match v with
  | None => true
  | Some (w, n) => (n <=? w) && (w <=? cap cfg) && negb (max_card cfg =? 0)
  end.
Fixpoint views_okb (cfgs : list dcfg) (vs : list colview) : bool :=
  match cfgs, vs with c :: ct, v :: vt => view_okb c v && views_okb ct vt | _, _ => true end.
Definition rec_prop (c : list dcfg * list (bool * list colbatch) * list (option (list colview * nat))) : bool :=
  let '(cfgs, hist, obs) := c in
  forallb (fun o => match o with Some (vs, _) => views_okb cfgs vs | None => true end) obs.
Definition rec_mismatch := Eval vm_compute in failing rec_check rec_cases.
Definition rec_propfail := Eval vm_compute in failing rec_prop rec_cases.
Print rec_mismatch.
Print rec_propfail.
`)
	out.Lists = append(out.Lists, "rec_mismatch", "rec_propfail")

	// ---------------------------------------------------------------- C
	runDictProducer(o, r, out)
}

type dictWatch struct {
	debug bool
	evObserver
	limit uint64
	out   *Output
	stats map[string]int
	rows  []string
	ctx   map[string]any
}

func (w *dictWatch) OnRecord(rec arrow.Record, pt record_message.PayloadType) {
	var walk func(f arrow.Field, col arrow.Array, path string)
	walk = func(f arrow.Field, col arrow.Array, path string) {
		switch c := col.(type) {
		case *array.Struct:
			st := f.Type.(*arrow.StructType)
			for i := 0; i < c.NumField(); i++ {
				walk(st.Field(i), c.Field(i), path+"."+st.Field(i).Name)
			}
		case *array.List:
			walk(f.Type.(*arrow.ListType).ElemField(), c.ListValues(), path+"[]")
		case *array.Map:
			mt := f.Type.(*arrow.MapType)
			walk(mt.KeyField(), c.Keys(), path+".key")
			walk(mt.ItemField(), c.Items(), path+".value")
		case array.Union:
			ut := f.Type.(arrow.UnionType)
			for i, uf := range ut.Fields() {
				walk(uf, c.Field(i), path+"|"+uf.Name)
			}
		case *array.Dictionary:
			cap := capOf(c.DataType().(*arrow.DictionaryType).IndexType)
			n := uint64(c.Dictionary().Len())
			w.stats["dict_columns_seen"]++
			if w.debug {
				if k := fmt.Sprintf("dbg %s%s idx=%d", pt, path, cap); w.stats[k] < int(n) {
					w.stats[k] = int(n)
				}
			}
			w.stats[fmt.Sprintf("index_cap_%d", cap)]++
			// the overflow detection of RecordBuilderExt visits the columns whose field carries the dictionary transform's id
			watched := f.Metadata.FindKey(transform.DictIdKey) >= 0
			if !watched {
				w.stats["dict_columns_not_watched"]++
			}
			w.rows = append(w.rows, fmt.Sprintf("(%d, %d, %d, %v)", w.limit, cap, n, watched))
			if n > cap || cap > w.limit || w.limit == 0 {
				w.out.Violation("C13", "dictionary-exceeds-limit", fmt.Sprintf("%s column %s: dictionary of %d entries, index cap %d, configured limit %d", pt, path, n, cap, w.limit), w.ctx)
			}
		}
	}
	for i := 0; i < int(rec.NumCols()); i++ {
		walk(rec.Schema().Field(i), rec.Column(i), rec.Schema().Field(i).Name)
	}
}

func runDictProducer(o opts, r *Rng, out *Output) {
	type lo struct {
		name  string
		opt   cfgpkg.Option
		limit uint64
	}
	los := []lo{
		{"default", nil, math.MaxUint16},
		{"WithNoDictionary", cfgpkg.WithNoDictionary(), 0},
		{"WithUint8LimitDictIndex", cfgpkg.WithUint8LimitDictIndex(), math.MaxUint8},
		{"WithUint16LimitDictIndex", cfgpkg.WithUint16LimitDictIndex(), math.MaxUint16},
		{"WithUint32LimitDictIndex", cfgpkg.WithUint32LimitDictIndex(), math.MaxUint32},
		{"WithUint64LimitDictIndex", cfgpkg.WithUint64LimitDictIndex(), math.MaxUint64},
	}
	stats := map[string]int{}
	var rows []string
	nruns := 1 + o.n/60
	for _, l := range los {
		for _, thr := range []float64{0, 0.3, 1} {
			for run := 0; run < nruns; run++ {
				ctx := map[string]any{"option": l.name, "reset_threshold": thr, "seed": o.seed, "run": run}
				w := &dictWatch{evObserver: evObserver{events: map[string]string{}}, limit: l.limit, out: out, stats: stats, ctx: ctx}
				options := []cfgpkg.Option{cfgpkg.WithObserver(w), cfgpkg.WithDictResetThreshold(thr)}
				if l.opt != nil {
					options = append(options, l.opt)
				}
				g := &OGen{r: r.Fork(), Wide: true}
				func() {
					defer func() {
						if rec := recover(); rec != nil {
							stats["producer_panics"]++ // termination of the retry loop is C04/C08's finding
						}
					}()
					p := arrow_record.NewProducerWithOptions(options...)
					defer p.Close()
					nb := 4 + r.Intn(4)
					for b := 0; b < nb; b++ {
						// unbounded-cardinality columns: every span gets a fresh name / ids; few spans per batch early, many later
						td := g.Traces(TShape{MaxRes: 2, MaxScopes: 2, MaxSpans: 20 + 60*b})
						for i := 0; i < td.ResourceSpans().Len(); i++ {
							for j := 0; j < td.ResourceSpans().At(i).ScopeSpans().Len(); j++ {
								sps := td.ResourceSpans().At(i).ScopeSpans().At(j).Spans()
								for k := 0; k < sps.Len(); k++ {
									g.fresh++
									sps.At(k).SetName(fmt.Sprintf("unique-span-name-%d", g.fresh))
								}
							}
						}
						if td.SpanCount() == 0 {
							continue
						}
						if _, err := p.BatchArrowRecordsFromTraces(td); err != nil {
							stats["producer_errors"]++
						}
					}
				}()
				rows = append(rows, w.rows...)
				out.AddCaseTagged("prod", map[string]any{"option": l.name, "reset_threshold": thr, "dictionary_columns_inspected": len(w.rows)}, len(w.rows) > 0 || l.limit == 0, "producer "+l.name)
				if run > 0 {
					continue
				}
				// every string column of every record unbounded at once (names, status messages, scope names and versions,
				// schema urls, attribute keys and values, event names, trace states, units, descriptions, bodies), for each
				// signal: small batches past the 8-bit capacity, and for the 16-bit limits large ones past 65,535
				if l.limit >= math.MaxUint32 && (thr == 0 || o.tier == "thorough") {
					// only the dictionary-encoded 32-bit columns unbounded (span kind, status code, severity number: open enums),
					// everything else constant: no other schema update ever restarts their dictionaries
					for sig := 0; sig < 2; sig++ {
						ctx3 := map[string]any{"option": l.name, "reset_threshold": thr, "seed": o.seed, "history": "32-bit-enum-columns-distinct", "signal": sig}
						w3 := &dictWatch{debug: os.Getenv("VERIF_DICT_DEBUG") != "", evObserver: evObserver{events: map[string]string{}}, limit: l.limit, out: out, stats: stats, ctx: ctx3}
						options3 := []cfgpkg.Option{cfgpkg.WithObserver(w3), cfgpkg.WithDictResetThreshold(thr)}
						if l.opt != nil {
							options3 = append(options3, l.opt)
						}
						func() {
							defer func() {
								if rec := recover(); rec != nil {
									stats["producer_panics"]++
								}
							}()
							p := arrow_record.NewProducerWithOptions(options3...)
							defer p.Close()
							for b := 0; b < 8; b++ { // an index upgrade restarts the dictionaries: go on well past it
								if sig == 0 {
									td := ptrace.NewTraces()
									ss := td.ResourceSpans().AppendEmpty().ScopeSpans().AppendEmpty()
									for i := 0; i < 25000; i++ {
										sp := ss.Spans().AppendEmpty()
										sp.SetName("s")
										sp.SetKind(ptrace.SpanKind(b*25000 + i))
										sp.Status().SetCode(ptrace.StatusCode(b*25000 + i))
									}
									_, _ = p.BatchArrowRecordsFromTraces(td)
								} else {
									ld := plog.NewLogs()
									sl := ld.ResourceLogs().AppendEmpty().ScopeLogs().AppendEmpty()
									for i := 0; i < 25000; i++ {
										sl.LogRecords().AppendEmpty().SetSeverityNumber(plog.SeverityNumber(1 + b*25000 + i))
									}
									_, _ = p.BatchArrowRecordsFromLogs(ld)
								}
							}
						}()
						stats["enum_histories"]++
						rows = append(rows, w3.rows...)
						out.AddCaseTagged("prod", map[string]any{"option": l.name, "reset_threshold": thr, "history": "32-bit-enum-columns-distinct", "signal": sig, "dictionary_columns_inspected": len(w3.rows)}, len(w3.rows) > 0, "producer-enums "+l.name)
					}
				}
				for sig := 0; sig < 3; sig++ {
					sizes := []int{60, 150, 150, 150, 40}
					own := true
					if (l.limit == math.MaxUint16 && thr == 0.3) || (l.limit == math.MaxUint32 && thr == 0 && sig < 2) || (o.tier == "thorough" && l.limit >= math.MaxUint16) {
						sizes, own = []int{200, 30000, 30000, 30000, 500}, false
					}
					ctx2 := map[string]any{"option": l.name, "reset_threshold": thr, "seed": o.seed, "history": "all-columns-distinct", "signal": sig, "sizes": sizes}
					w2 := &dictWatch{evObserver: evObserver{events: map[string]string{}}, limit: l.limit, out: out, stats: stats, ctx: ctx2}
					options2 := []cfgpkg.Option{cfgpkg.WithObserver(w2), cfgpkg.WithDictResetThreshold(thr)}
					if l.opt != nil {
						options2 = append(options2, l.opt)
					}
					func() {
						defer func() {
							if rec := recover(); rec != nil {
								stats["producer_panics"]++
							}
						}()
						p := arrow_record.NewProducerWithOptions(options2...)
						defer p.Close()
						base := 0
						for bi, n := range sizes {
							var err error
							var data any = distinctRich(sig, n, base, own)
							if bi == 0 && thr != 0.3 {
								// the stream opens with items that leave every optional child of the struct columns absent (anonymous
								// scope, no status, no body): the dictionary children appear through later schema updates
								switch sig {
								case 0:
									data = spansOfKinds(4, func(int) int { return 0 })
								case 1:
									ld := plog.NewLogs()
									ld.ResourceLogs().AppendEmpty().ScopeLogs().AppendEmpty().LogRecords().AppendEmpty().SetSeverityNumber(plog.SeverityNumberInfo)
									data = ld
								default:
									data = pointsOfKinds(2, func(int) int { return 0 })
								}
							}
							switch d := data.(type) {
							case ptrace.Traces:
								_, err = p.BatchArrowRecordsFromTraces(d)
							case plog.Logs:
								_, err = p.BatchArrowRecordsFromLogs(d)
							case pmetric.Metrics:
								_, err = p.BatchArrowRecordsFromMetrics(d)
							}
							if err != nil {
								stats["producer_errors"]++
							}
							base += n
						}
					}()
					stats["distinct_histories"]++
					rows = append(rows, w2.rows...)
					out.AddCaseTagged("prod", map[string]any{"option": l.name, "reset_threshold": thr, "history": "all-columns-distinct", "signal": sig, "dictionary_columns_inspected": len(w2.rows)}, len(w2.rows) > 0 || l.limit == 0, "producer-distinct "+l.name)
				}
			}
		}
	}
	var sb strings.Builder
	sb.WriteString("Definition prod_rows : list (N * N * N * bool) := [\n " + strings.Join(rows, ";\n ") + "\n].\n")
	sb.WriteString(`(* (configured limit, index cap, dictionary length, under overflow detection) of every dictionary column of every transmitted record *)
Definition prod_propfail := Eval vm_compute in failing (fun t : N * N * N * bool => let '(lim, w, n, _) := t in (n <=? w) && (w <=? lim)) prod_rows.
Print prod_propfail.
(* the model (DictMachine) updates every dictionary column after every record: a dictionary column the real overflow
   detection does not visit (no dictId on its field) is outside what the theorems cover *)
Definition prod_mismatch := Eval vm_compute in failing (fun t : N * N * N * bool => snd t) prod_rows.
Print prod_mismatch.
`)
	out.Coq.WriteString(sb.String())
	out.Lists = append(out.Lists, "prod_propfail", "prod_mismatch")
	out.Extra["stats"] = stats
}
