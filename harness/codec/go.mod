module verif/harness/codec

go 1.23.0

toolchain go1.24.1

require (
	github.com/HdrHistogram/hdrhistogram-go v1.1.2
	github.com/apache/arrow-go/v18 v18.2.0
	github.com/axiomhq/hyperloglog v0.0.0-20230201085229-3ddf4bad03dc
	github.com/brianvoe/gofakeit/v6 v6.17.0
	github.com/dustin/go-humanize v1.0.1
	github.com/fxamacker/cbor/v2 v2.4.0
	github.com/klauspost/compress v1.18.0
	github.com/olekukonko/tablewriter v0.0.5
	github.com/pierrec/lz4 v2.0.5+incompatible
	github.com/stretchr/testify v1.10.0
	github.com/zeebo/assert v1.3.0
	go.opentelemetry.io/collector/pdata v1.23.0
	go.opentelemetry.io/otel v1.34.0
	go.opentelemetry.io/otel/metric v1.34.0
	go.uber.org/mock v0.4.0
	golang.org/x/exp v0.0.0-20240909161429-701f63a606c0
	google.golang.org/grpc v1.71.0
	google.golang.org/protobuf v1.36.5
)

require (
	github.com/davecgh/go-spew v1.1.1 // indirect
	github.com/dgryski/go-metro v0.0.0-20180109044635-280f6062b5bc // indirect
	github.com/go-logr/logr v1.4.2 // indirect
	github.com/go-logr/stdr v1.2.2 // indirect
	github.com/goccy/go-json v0.10.5 // indirect
	github.com/gogo/protobuf v1.3.2 // indirect
	github.com/google/flatbuffers v25.2.10+incompatible // indirect
	github.com/json-iterator/go v1.1.12 // indirect
	github.com/klauspost/cpuid/v2 v2.2.10 // indirect
	github.com/mattn/go-runewidth v0.0.16 // indirect
	github.com/modern-go/concurrent v0.0.0-20180306012644-bacd9c7ef1dd // indirect
	github.com/modern-go/reflect2 v1.0.2 // indirect
	github.com/pierrec/lz4/v4 v4.1.22 // indirect
	github.com/pmezard/go-difflib v1.0.0 // indirect
	github.com/rivo/uniseg v0.4.4 // indirect
	github.com/x448/float16 v0.8.4 // indirect
	github.com/zeebo/xxh3 v1.0.2 // indirect
	go.opentelemetry.io/auto/sdk v1.1.0 // indirect
	go.opentelemetry.io/otel/trace v1.34.0 // indirect
	go.uber.org/multierr v1.11.0 // indirect
	golang.org/x/mod v0.23.0 // indirect
	golang.org/x/net v0.35.0 // indirect
	golang.org/x/sync v0.11.0 // indirect
	golang.org/x/sys v0.31.0 // indirect
	golang.org/x/text v0.22.0 // indirect
	golang.org/x/xerrors v0.0.0-20240903120638-7835f813f4da // indirect
	google.golang.org/genproto/googleapis/rpc v0.0.0-20250115164207-1a7da9e5054f // indirect
	gopkg.in/yaml.v3 v3.0.1 // indirect
)

require (
	github.com/open-telemetry/otel-arrow v0.0.0
	golang.org/x/tools v0.30.0
)

replace github.com/open-telemetry/otel-arrow => /repo
