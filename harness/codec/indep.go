package main

// C16: several producer/consumer pairs driven concurrently, each stream compared with its solo run.
// C15: input untouched (proto bytes before/after), allocator balance after Close (memory.CheckedAllocator).

import (
	"fmt"
	"sort"
	"strings"
	"sync"

	"github.com/apache/arrow-go/v18/arrow/memory"
	arrowpb "github.com/open-telemetry/otel-arrow/api/experimental/arrow/v1"
	cfgpkg "github.com/open-telemetry/otel-arrow/pkg/config"
	"github.com/open-telemetry/otel-arrow/pkg/otel/arrow_record"
	"go.opentelemetry.io/collector/pdata/pcommon"
	"go.opentelemetry.io/collector/pdata/plog"
	"go.opentelemetry.io/collector/pdata/pmetric"
	"go.opentelemetry.io/collector/pdata/ptrace"
)

func init() {
	subcommands["indep"] = runIndep
	subcommands["memory"] = runMemory
}

func optionSet(r *Rng) ([]cfgpkg.Option, string) {
	switch r.Intn(6) {
	case 4:
		// a hand-written option (cfg.Option is a plain func(*Config)): a dictionary limit that is not the capacity of an index type
		return []cfgpkg.Option{func(c *cfgpkg.Config) { c.LimitIndexSize = 300 }}, "limit300"
	case 0:
		return []cfgpkg.Option{cfgpkg.WithNoZstd()}, "nozstd"
	case 1:
		return []cfgpkg.Option{cfgpkg.WithUint8LimitDictIndex()}, "u8limit"
	case 2:
		return []cfgpkg.Option{cfgpkg.WithNoDictionary()}, "nodict"
	case 3:
		return []cfgpkg.Option{cfgpkg.WithUint8LimitDictIndex(), cfgpkg.WithDictResetThreshold(1)}, "u8limit-reset"
	}
	return nil, "default"
}

// one stream: a history generated from its own seed, produced and consumed; returns the canonical keys per batch.
// pipe selects how the consumer follows the producer (the decoded stream must be the same in all three):
//
//	0  strictly alternating (encode batch b, decode batch b)
//	1  the consumer lags behind: batch b is decoded only after batch b+lag has been encoded (a queue between them)
//	2  the consumer runs in its own goroutine, fed through a channel (a transport between exporter and receiver)
func runStream(seed uint64, yield func(), shared int, copts []arrow_record.Option, pipe int, deep bool) (out []string, errs int, sched []int) {
	r := NewRng(seed)
	g := &OGen{r: r.Fork(), Wide: r.Chance(40), Mono: monoPick(r)}
	options, _ := optionSet(r)
	// the statistics a producer keeps are part of its state: a third of the streams collect them (diagnostic options) and
	// report them at the end — they must be those of the stream run alone
	withStats := r.Chance(35)
	if withStats {
		if r.Bool() {
			options = append(options, cfgpkg.WithRecordStats())
		} else {
			options = append(options, cfgpkg.WithCompressionRatioStats())
		}
	}
	// every allocation of the producer is a scheduling point of the cooperative scheduler
	options = append(options, cfgpkg.WithAllocator(&yieldAllocator{inner: memory.NewGoAllocator(), yield: yield}))
	p := arrow_record.NewProducerWithOptions(options...)
	// the consumer is built from option values that a receiver typically creates once and reuses for every
	// stream (copts); its own meter provider records the Arrow memory it reports as in use
	mp := &capProvider{}
	c := arrow_record.NewConsumer(append(append([]arrow_record.Option{}, copts...), arrow_record.WithMeterProvider(mp))...)
	defer p.Close()
	defer c.Close()
	mode := r.Intn(4)
	nb := 2 + r.Intn(5)
	leanBase := 0
	if shared > 0 {
		// shared vocabulary: every stream of the case carries the same signal with the same one or two
		// names / keys / values, in tables of different (large) sizes — state leaking from one instance into
		// another (sorters, delta encoders, dictionaries) changes what the other one decodes
		g.Mono = 1 + r.Intn(2)
		g.Wide = false
		mode = shared - 1
	}
	type pend struct {
		bar *arrowpb.BatchArrowRecords
		sig int
		pre string // decided on the producer side (error or panic): nothing to decode
	}
	var emu sync.Mutex
	produce := func(data any) (pd pend) {
		defer func() {
			if rec := recover(); rec != nil {
				emu.Lock()
				errs++
				emu.Unlock()
				pd = pend{pre: fmt.Sprint([]string{fmt.Sprint("panic: ", rec)})}
			}
		}()
		var bar *arrowpb.BatchArrowRecords
		var err error
		sig := 0
		switch d := data.(type) {
		case ptrace.Traces:
			bar, err = p.BatchArrowRecordsFromTraces(d)
		case plog.Logs:
			sig = 1
			bar, err = p.BatchArrowRecordsFromLogs(d)
		case pmetric.Metrics:
			sig = 2
			bar, err = p.BatchArrowRecordsFromMetrics(d)
		}
		if err != nil {
			emu.Lock()
			errs++
			emu.Unlock()
			return pend{pre: fmt.Sprint([]string(nil))}
		}
		return pend{bar: bar, sig: sig}
	}
	consume := func(pd pend) string {
		keys := pd.pre
		if pd.bar != nil {
			keys = fmt.Sprint([]string(nil))
			func() {
				defer func() {
					if rec := recover(); rec != nil {
						emu.Lock()
						errs++
						emu.Unlock()
						keys = fmt.Sprint([]string{fmt.Sprint("panic: ", rec)})
					}
				}()
				fail := func() { emu.Lock(); errs++; emu.Unlock() }
				switch pd.sig {
				case 0:
					tds, err := c.TracesFrom(pd.bar)
					if err != nil || len(tds) == 0 {
						fail()
						return
					}
					keys = fmt.Sprint(tracesItems(tds[0]).Keys)
				case 1:
					lds, err := c.LogsFrom(pd.bar)
					if err != nil || len(lds) == 0 {
						fail()
						return
					}
					keys = fmt.Sprint(logsItems(lds[0]).Keys)
				case 2:
					mds, err := c.MetricsFrom(pd.bar)
					if err != nil || len(mds) == 0 {
						fail()
						return
					}
					keys = fmt.Sprint(metricsItems(mds[0]).Keys)
				}
			}()
		}
		return keys + fmt.Sprintf("|reported-inuse=%d", mp.inuse)
	}
	lag := 0
	if pipe == 1 {
		lag = 1 + int(seed>>7)%nb
	}
	var queue []pend
	nprod := 0
	var ch chan pend
	var cdone chan struct{}
	if pipe == 2 {
		ch = make(chan pend, nb)
		cdone = make(chan struct{})
		go func() {
			defer close(cdone)
			for pd := range ch {
				out = append(out, consume(pd))
			}
		}()
	}
	for b := 0; b < nb; b++ {
		sig := mode
		if mode == 3 {
			sig = r.Intn(3)
		}
		var data any = genAnyN(g, r, sig, 1+r.Intn(8))
		if shared > 0 {
			data = genAnyN(g, r, sig, 20+r.Intn(120))
		} else if r.Chance(25) {
			data = leanBatch(sig, 100+r.Intn(200), 1, &leanBase)
		}
		if itemCount(data) == 0 {
			continue
		}
		if deep && b == 1 {
			// a map attribute nested 40 levels deep: its consumer refuses it (CBOR nesting limit); no other instance may notice
			var attrs pcommon.Map
			switch d := data.(type) {
			case ptrace.Traces:
				attrs = d.ResourceSpans().At(0).Resource().Attributes()
			case plog.Logs:
				attrs = d.ResourceLogs().At(0).Resource().Attributes()
			case pmetric.Metrics:
				attrs = d.ResourceMetrics().At(0).Resource().Attributes()
			}
			m := attrs.PutEmptyMap("deep")
			for lvl := 0; lvl < 40; lvl++ {
				m = m.PutEmptyMap("d")
			}
			m.PutStr("leaf", "x")
		}
		yield()
		pd := produce(data)
		sched = append(sched, nprod) // produce message nprod
		nprod++
		switch pipe {
		case 2:
			ch <- pd
		default:
			queue = append(queue, pd)
			for len(queue) > lag {
				yield()
				out = append(out, consume(queue[0]))
				sched = append(sched, -1) // consume the oldest message in flight
				queue = queue[1:]
			}
		}
	}
	for _, pd := range queue {
		yield()
		out = append(out, consume(pd))
		sched = append(sched, -1)
	}
	if pipe == 2 {
		close(ch)
		<-cdone
	}
	if withStats {
		func() {
			defer func() { recover() }()
			rs := p.RecordSizeStats()
			var ks []string
			for k := range rs {
				ks = append(ks, k)
			}
			sort.Strings(ks)
			line := "producer-record-stats:"
			for _, k := range ks {
				line += fmt.Sprintf(" %s=%d/%d", k, rs[k].TotalSize, rs[k].Dist.TotalCount())
			}
			out = append(out, line)
		}()
	}
	return
}

// consumer options as a receiver would hold them: created once, applied to every stream
func sharedConsumerOptions() []arrow_record.Option {
	return []arrow_record.Option{arrow_record.WithMemoryLimit(1 << 30)}
}

// yieldAllocator calls yield before every allocator operation.
type yieldAllocator struct {
	inner memory.Allocator
	yield func()
}

func (a *yieldAllocator) Allocate(size int) []byte { a.yield(); return a.inner.Allocate(size) }
func (a *yieldAllocator) Reallocate(size int, b []byte) []byte {
	a.yield()
	return a.inner.Reallocate(size, b)
}
func (a *yieldAllocator) Free(b []byte) { a.yield(); a.inner.Free(b) }

// coop is a cooperative scheduler: exactly one of the registered goroutines runs at any time; at a
// scheduling point the running one may hand over to another (PRNG decision), so a schedule is a
// function of the seed and every interleaving at the granularity of scheduling points is reachable.
type coop struct {
	r        *Rng
	wake     []chan struct{}
	alive    []bool
	switches int
	points   int
	pct      int
}

func newCoop(r *Rng, n, pct int) *coop {
	c := &coop{r: r, pct: pct}
	for i := 0; i < n; i++ {
		c.wake = append(c.wake, make(chan struct{}, 1))
		c.alive = append(c.alive, true)
	}
	return c
}

func (c *coop) other(id int) int {
	var cand []int
	for j, a := range c.alive {
		if a && j != id {
			cand = append(cand, j)
		}
	}
	if len(cand) == 0 {
		return -1
	}
	return cand[c.r.Intn(len(cand))]
}

func (c *coop) yield(id int) {
	c.points++
	if !c.r.Chance(c.pct) {
		return
	}
	if j := c.other(id); j >= 0 {
		c.switches++
		c.wake[j] <- struct{}{}
		<-c.wake[id]
	}
}

func (c *coop) done(id int) {
	c.alive[id] = false
	if j := c.other(id); j >= 0 {
		c.wake[j] <- struct{}{}
	}
}

func runIndep(o opts, out *Output) {
	out.Imports = "From Verif Require Import Base.ListX Indep.Alias."
	r := NewRng(o.seed)
	stats := map[string]int{}
	var aliasCases []string
	for c := 0; c < o.n; c++ {
		nStreams := 2 + r.Intn(7)
		seeds := make([]uint64, nStreams)
		for i := range seeds {
			seeds[i] = r.U64()
		}
		shared := 0
		if c%2 == 1 {
			shared = 1 + (c/2)%3
			if nStreams > 4 {
				nStreams = 4
				seeds = seeds[:4]
			}
		}
		// every fifth case: stream 0 carries a value its consumer refuses (too deeply nested); the other streams of the case are
		// valid and must decode without a single error, alone and beside it
		deepCase := c%5 == 3
		soloErrs, concErrs := make([]int, nStreams), make([]int, nStreams)
		solo := make([][]string, nStreams)
		for i, s := range seeds {
			solo[i], soloErrs[i], _ = runStream(s, func() {}, shared, sharedConsumerOptions(), 0, deepCase && i == 0)
		}
		copts := sharedConsumerOptions() // one set of option values for all streams of the case
		conc := make([][]string, nStreams)
		var wg sync.WaitGroup
		gate := make(chan struct{})
		for i, s := range seeds {
			wg.Add(1)
			go func(i int, s uint64) {
				defer wg.Done()
				<-gate
				conc[i], concErrs[i], _ = runStream(s, func() {}, shared, copts, []int{2, 0, 1}[(c+i)%3], deepCase && i == 0)
			}(i, s)
		}
		close(gate)
		wg.Wait()
		same := true
		for i := range seeds {
			if i > 0 && (soloErrs[i] > 0 || concErrs[i] > 0) {
				out.Violation("C16", "valid-stream-fails", fmt.Sprintf("stream %d of %d is valid but %d (alone) / %d (concurrently) of its batches were not encoded or decoded; stream 0 of the case carried a value its own consumer refuses: %v", i, nStreams, soloErrs[i], concErrs[i], deepCase),
					map[string]any{"seed": o.seed, "case": c, "stream": i, "stream_seed": seeds[i], "deep_value_in_stream_0": deepCase})
			}
			if fmt.Sprint(solo[i]) != fmt.Sprint(conc[i]) {
				same = false
				out.Violation("C16", "concurrent-differs-from-solo", fmt.Sprintf("stream %d of %d decodes differently when run concurrently with the others than when run alone", i, nStreams),
					map[string]any{"seed": o.seed, "case": c, "stream": i, "stream_seed": seeds[i]})
			}
			stats["batches"] += len(solo[i])
		}
		// the same streams under the cooperative scheduler: one goroutine runs at a time and hands over at
		// allocation points (inside the encoders' loops), deterministically from the seed
		for rep := 0; rep < 3; rep++ {
			schedSeed := r.U64()
			co := newCoop(NewRng(schedSeed), nStreams, []int{5, 25, 60}[rep])
			coopOut := make([][]string, nStreams)
			coopSched := make([][]int, nStreams)
			var wg2 sync.WaitGroup
			for i, s := range seeds {
				wg2.Add(1)
				go func(i int, s uint64) {
					defer wg2.Done()
					<-co.wake[i]
					defer co.done(i)
					coopOut[i], _, coopSched[i] = runStream(s, func() { co.yield(i) }, shared, copts, (rep+i)%2, deepCase && i == 0)
				}(i, s)
			}
			co.wake[0] <- struct{}{}
			wg2.Wait()
			for i := range seeds {
				if fmt.Sprint(solo[i]) != fmt.Sprint(coopOut[i]) {
					same = false
					out.Violation("C16", "interleaved-differs-from-solo", fmt.Sprintf("stream %d of %d decodes differently when its encoder steps are interleaved with those of the other streams than when run alone", i, nStreams),
						map[string]any{"seed": o.seed, "case": c, "stream": i, "stream_seed": seeds[i], "schedule_seed": schedSeed, "switch_pct": co.pct})
				}
			}
			for i := range seeds {
				// the produce/consume schedule of the stream and which produced message each decoded one equals (by its solo
				// decoding): the message-ownership model (Indep/Alias.v) must decode the same sequence
				if len(aliasCases) >= 400 || len(coopSched[i]) == 0 {
					continue
				}
				var ops, obs []string
				k := 0
				for _, e := range coopSched[i] {
					if e >= 0 {
						ops = append(ops, fmt.Sprintf("Produce [%d]", e))
						continue
					}
					ops = append(ops, "Consume")
					id := 9999
					if k < len(coopOut[i]) {
						if k < len(solo[i]) && coopOut[i][k] == solo[i][k] {
							id = k
						} else {
							for j := range solo[i] {
								if solo[i][j] == coopOut[i][k] {
									id = j
									break
								}
							}
						}
					}
					obs = append(obs, fmt.Sprintf("[%d]", id))
					k++
				}
				aliasCases = append(aliasCases, fmt.Sprintf(" ([%s], [%s])", strings.Join(ops, "; "), strings.Join(obs, "; ")))
			}
			stats["sched_points"] += co.points
			stats["sched_switches"] += co.switches
		}
		stats["streams"] += nStreams
		out.AddCase(map[string]any{"case": c, "streams": nStreams, "shared_vocabulary_signal": shared, "same_as_solo": same}, true, fmt.Sprintf("streams=%d shared=%d", nStreams, shared))
	}
	stats["alias_cases"] = len(aliasCases)
	out.Coq.WriteString("Definition alias_cases : list (list op * list (list N)) := [\n" + strings.Join(aliasCases, ";\n") + "\n].\n")
	out.Coq.WriteString(`(* every stream's produce/consume schedule (alternating or lagging) run through the message-ownership model: what the real
   consumer decoded at each Consume step is the message the model says it reads *)
Definition alias_mismatch := Eval vm_compute in
  failing (fun c : list op * list (list N) => list_eqb (list_eqb N.eqb) (decoded (run false (fst c))) (snd c)) alias_cases.
Print alias_mismatch.
`)
	out.Lists = append(out.Lists, "alias_mismatch")
	out.Extra["stats"] = stats
}

// ---------------------------------------------------------------- C15

func runMemory(o opts, out *Output) {
	out.Imports = "From Verif Require Import Base.ListX Mem.Ownership."
	r := NewRng(o.seed)
	stats := map[string]int{}
	tm, lm, mm := &ptrace.ProtoMarshaler{}, &plog.ProtoMarshaler{}, &pmetric.ProtoMarshaler{}
	for c := 0; c < o.n; c++ {
		g := &OGen{r: r.Fork(), Wide: r.Chance(40), Mono: monoPick(r)}
		options, optName := optionSet(r)
		if r.Bool() {
			options, optName = randomOptions(r)
		}
		pool := memory.NewCheckedAllocator(memory.NewGoAllocator())
		var fa *faultAllocator
		if c%4 == 1 {
			// an encode error in the middle of Produce: the caller's allocator refuses one allocation during the IPC write of
			// the k-th record of the stream (arrow-go reports it as an error of Write)
			fa = &faultAllocator{inner: pool}
			options = append(options, cfgpkg.WithAllocator(fa), cfgpkg.WithObserver(&faultObs{evObserver: evObserver{events: map[string]string{}}, alloc: fa, at: r.Intn(10)}))
			optName += "+refused-allocation-in-ipc-write"
		} else {
			options = append(options, cfgpkg.WithAllocator(pool))
		}
		p := arrow_record.NewProducerWithOptions(options...)
		mode := r.Intn(4)
		nb := 1 + r.Intn(6)
		leanBase := 0
		var hist []map[string]any
		for b := 0; b < nb; b++ {
			sig := mode
			if mode == 3 {
				sig = r.Intn(3)
			}
			var data any = genAnyN(g, r, sig, 1+r.Intn(8))
			switch {
			case r.Chance(20):
				data = leanBatch(sig, 100+r.Intn(250), 1+r.Intn(3), &leanBase)
			case c%25 == 7 && b == 1:
				// an encode error in the middle of a history: more parents than the id width
				data = manySpans(65537, true, 1)
			}
			if itemCount(data) == 0 {
				continue
			}
			var before, after []byte
			class := "ok"
			func() {
				defer func() {
					if rec := recover(); rec != nil {
						class = "panic"
					}
				}()
				switch d := data.(type) {
				case ptrace.Traces:
					before, _ = tm.MarshalTraces(d)
					defer func() { after, _ = tm.MarshalTraces(d) }()
					if _, err := p.BatchArrowRecordsFromTraces(d); err != nil {
						class = "error"
					}
				case plog.Logs:
					before, _ = lm.MarshalLogs(d)
					defer func() { after, _ = lm.MarshalLogs(d) }()
					if _, err := p.BatchArrowRecordsFromLogs(d); err != nil {
						class = "error"
					}
				case pmetric.Metrics:
					before, _ = mm.MarshalMetrics(d)
					defer func() { after, _ = mm.MarshalMetrics(d) }()
					if _, err := p.BatchArrowRecordsFromMetrics(d); err != nil {
						class = "error"
					}
				}
			}()
			stats["batch_"+class]++
			statsRead := false
			if r.Chance(30) {
				// the producer's other public entry points are part of a history too: reading (and resetting) its statistics
				func() {
					defer func() { recover() }()
					_ = p.GetAndResetStats()
					_ = p.RecordSizeStats()
				}()
				statsRead = true
			}
			hist = append(hist, map[string]any{"signal": sig, "items": itemCount(data), "class": class, "stats_read_after": statsRead})
			if string(before) != string(after) {
				out.Violation("C15", "input-modified", fmt.Sprintf("encoding modified its input (batch %d, signal %d, options %s)", b, sig, optName), map[string]any{"seed": o.seed, "case": c, "batch": b})
			}
		}
		inuseBefore := pool.CurrentAlloc()
		if err := p.Close(); err != nil {
			stats["close_errors"]++
		}
		if left := pool.CurrentAlloc(); left != 0 {
			out.Violation("C15", "memory-not-released", fmt.Sprintf("%d bytes of the caller's allocator still in use after Close (options %s, history %v)", left, optName, hist), map[string]any{"seed": o.seed, "case": c, "history": hist})
		}
		if fa != nil {
			stats["injected_refusals_fired"] += int(fa.fired)
		}
		stats["bytes_in_use_before_close"] += inuseBefore
		out.AddCase(map[string]any{"case": c, "options": optName, "history": hist, "in_use_before_close": inuseBefore, "in_use_after_close": pool.CurrentAlloc()}, true, "options="+optName)
	}
	out.Extra["stats"] = stats
}
