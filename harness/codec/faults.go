package main

// C07: a valid stream prefix, then one batch altered by payload-level faults, through the real consumer.

import (
	"errors"
	"fmt"
	"runtime/debug"
	"strings"

	colarspb "github.com/open-telemetry/otel-arrow/api/experimental/arrow/v1"
	"github.com/open-telemetry/otel-arrow/pkg/otel/arrow_record"
	"go.opentelemetry.io/collector/pdata/plog"
	"go.opentelemetry.io/collector/pdata/pmetric"
	"go.opentelemetry.io/collector/pdata/ptrace"
	"google.golang.org/protobuf/proto"
)

func init() { subcommands["faults"] = runFaults }

type fault struct {
	Kind string `json:"kind"` // relabel | drop | dup | swap | reverse | empty | sid_unknown | sid_fresh | sid_of
	I    int    `json:"i"`
	J    int    `json:"j,omitempty"`
	Ty   int32  `json:"type,omitempty"`
}

func applyFaults(bar *colarspb.BatchArrowRecords, fs []fault, seq *int, stale map[colarspb.ArrowPayloadType]string) *colarspb.BatchArrowRecords {
	out := proto.Clone(bar).(*colarspb.BatchArrowRecords)
	for _, f := range fs {
		n := len(out.ArrowPayloads)
		if n == 0 {
			break
		}
		i := f.I % n
		switch f.Kind {
		case "relabel":
			out.ArrowPayloads[i].Type = colarspb.ArrowPayloadType(f.Ty)
		case "drop":
			out.ArrowPayloads = append(out.ArrowPayloads[:i], out.ArrowPayloads[i+1:]...)
		case "dup":
			cp := proto.Clone(out.ArrowPayloads[i]).(*colarspb.ArrowPayload)
			out.ArrowPayloads = append(out.ArrowPayloads[:i+1], append([]*colarspb.ArrowPayload{cp}, out.ArrowPayloads[i+1:]...)...)
		case "swap":
			j := f.J % n
			out.ArrowPayloads[i], out.ArrowPayloads[j] = out.ArrowPayloads[j], out.ArrowPayloads[i]
		case "reverse":
			for a, b := 0, n-1; a < b; a, b = a+1, b-1 {
				out.ArrowPayloads[a], out.ArrowPayloads[b] = out.ArrowPayloads[b], out.ArrowPayloads[a]
			}
		case "empty":
			out.ArrowPayloads[i].Record = nil
		case "sid_unknown":
			*seq++
			out.ArrowPayloads[i].SchemaId = fmt.Sprintf("unknown-%d", *seq)
		case "sid_stale":
			// a schema id the producer used earlier for this payload type and has since abandoned
			if st, ok := stale[out.ArrowPayloads[i].Type]; ok {
				out.ArrowPayloads[i].SchemaId = st
			} else {
				*seq++
				out.ArrowPayloads[i].SchemaId = fmt.Sprintf("unknown-%d", *seq)
			}
		}
	}
	return out
}

func describe(bar *colarspb.BatchArrowRecords) []string {
	var s []string
	for _, p := range bar.ArrowPayloads {
		s = append(s, fmt.Sprintf("%s@%s(%dB)", p.Type, p.SchemaId, len(p.Record)))
	}
	return s
}

type consumeResult struct {
	Class   string
	Msg     string
	Site    string
	Items   int
	Canon   string
	Trees   itemsOut
	Decoded [][3]string
	// per span, in row order: the events / links the real consumer attached (group key, attributes)
	DecodedEvents [][]string
	DecodedLinks  [][]string
	// per metric, in row order: "None" for metrics that are not gauges/sums, else "Some [attrs of every number data point]"
	DecodedPoints []string
}

func consumeAny(c *arrow_record.Consumer, signal string, bar *colarspb.BatchArrowRecords) (res consumeResult) {
	defer func() {
		if r := recover(); r != nil {
			res = consumeResult{Class: "panic", Msg: fmt.Sprint(r), Site: firstRepoFrame(string(debug.Stack()))}
		}
	}()
	var err error
	switch signal {
	case "traces":
		tds, e := c.TracesFrom(bar)
		err = e
		for _, td := range tds {
			res.Items += td.SpanCount()
			res.Canon += canonTraces(td)
			res.Trees = tracesItems(td)
			res.Decoded = decodedTraces(td)
			res.DecodedEvents, res.DecodedLinks = decodedChildren(td)
		}
		if e == nil && len(tds) == 0 {
			res.Items = -1
		}
	case "logs":
		lds, e := c.LogsFrom(bar)
		err = e
		for _, ld := range lds {
			res.Items += ld.LogRecordCount()
			res.Trees = logsItems(ld)
			res.Decoded = decodedLogs(ld)
		}
		if e == nil && len(lds) == 0 {
			res.Items = -1
		}
	default:
		mds, e := c.MetricsFrom(bar)
		err = e
		for _, md := range mds {
			res.Items += md.MetricCount()
			res.Trees = metricsItems(md)
			res.DecodedPoints = decodedPoints(md)
		}
		if e == nil && len(mds) == 0 {
			res.Items = -1
		}
	}
	if err != nil {
		res.Class = "error"
		res.Msg = err.Error()
		if errors.Is(err, arrow_record.ErrConsumerMemoryLimit) {
			res.Class = "limit"
		}
		return
	}
	res.Class = "ok"
	return
}

func mainType(signal string) colarspb.ArrowPayloadType {
	switch signal {
	case "traces":
		return colarspb.ArrowPayloadType_SPANS
	case "logs":
		return colarspb.ArrowPayloadType_LOGS
	}
	return colarspb.ArrowPayloadType_UNIVARIATE_METRICS
}

func runFaults(o opts, out *Output) {
	out.Imports = "From Verif Require Import Base.ListX Stream.Consumer."
	r := NewRng(o.seed)
	stats := map[string]int{}
	seq := 0
	var relabelCases []string
	var cq strings.Builder
	cq.WriteString("Definition fault_cases : list (N * list centry * list payload * N) := [\n")
	ncq := 0
	sidIDs := map[string]int{}
	sidOf := func(s string) int {
		if v, ok := sidIDs[s]; ok {
			return v
		}
		sidIDs[s] = len(sidIDs) + 1
		return sidIDs[s]
	}
	for c := 0; c < o.n; c++ {
		g := &OGen{r: r.Fork()}
		sig := r.Intn(3)
		signal := []string{"traces", "logs", "metrics"}[sig]
		pr := newProducerRun()
		var bars []*colarspb.BatchArrowRecords
		var mainRows []int
		var inKeys [][]string
		nb := 1 + r.Intn(3)
		for len(bars) < nb+2 {
			g.Zero = c%10 == 3 && len(bars) == 0
			data := genAny(g, r, sig)
			g.Zero = false
			if c%10 == 7 && sig == 0 && len(bars) == nb {
				// the batch that will be altered carries bare spans only (no attributes, events or links: every id is null)
				data = spansOfKinds(1+r.Intn(4), func(int) int { return 0 })
				stats["bare_span_batches"]++
			}
			if itemCount(data) == 0 {
				continue
			}
			res := pr.produce(data)
			if res.Class != "ok" {
				break
			}
			bars = append(bars, res.Bar)
			mainRows = append(mainRows, len(res.Recs[0].Table.Rows))
			switch d := data.(type) {
			case ptrace.Traces:
				inKeys = append(inKeys, tracesItems(d).Keys)
			case plog.Logs:
				inKeys = append(inKeys, logsItems(d).Keys)
			case pmetric.Metrics:
				inKeys = append(inKeys, metricsItems(d).Keys)
			}
		}
		pr.p.Close()
		if len(bars) < 3 {
			continue
		}
		follow := bars[len(bars)-1] // the valid batch after the altered one
		bars = bars[:len(bars)-1]
		last := bars[len(bars)-1]
		// stale schema ids: used in the prefix for a payload type that now uses another id
		stale := map[colarspb.ArrowPayloadType]string{}
		cur := map[colarspb.ArrowPayloadType]string{}
		for _, p := range last.ArrowPayloads {
			cur[p.Type] = p.SchemaId
		}
		for _, b := range bars[:len(bars)-1] {
			for _, p := range b.ArrowPayloads {
				if c, ok := cur[p.Type]; ok && c != p.SchemaId {
					stale[p.Type] = p.SchemaId
				}
			}
		}
		np := len(last.ArrowPayloads)
		// fault lists: every single fault systematically (a sample), plus random pairs
		var lists [][]fault
		kinds := []string{"drop", "dup", "empty", "sid_unknown", "reverse"}
		for _, k := range kinds {
			lists = append(lists, []fault{{Kind: k, I: r.Intn(np)}})
		}
		lists = append(lists, []fault{{Kind: "relabel", I: 0, Ty: 99}}, []fault{{Kind: "relabel", I: r.Intn(np), Ty: 99}},
			[]fault{{Kind: "relabel", I: 0, Ty: int32(last.ArrowPayloads[np-1].Type)}},
			[]fault{{Kind: "relabel", I: np - 1, Ty: int32(mainType(signal))}},
			[]fault{{Kind: "dup", I: 0}}, []fault{{Kind: "drop", I: 0}}, []fault{{Kind: "swap", I: 0, J: np - 1}},
			[]fault{{Kind: "sid_stale", I: 0}}, []fault{{Kind: "sid_stale", I: np - 1}}, []fault{{Kind: "sid_unknown", I: np - 1}}, []fault{{Kind: "sid_unknown", I: 0}, {Kind: "dup", I: 0}},
			[]fault{{Kind: "empty", I: np - 1}, {Kind: "sid_unknown", I: np - 1}, {Kind: "dup", I: np - 1}, {Kind: "sid_unknown", I: np}})
		for k := 0; k < 4; k++ {
			var fl []fault
			for j := 0; j < 2; j++ {
				kd := []string{"relabel", "drop", "dup", "swap", "empty", "sid_unknown", "sid_stale"}[r.Intn(7)]
				fl = append(fl, fault{Kind: kd, I: r.Intn(np + 1), J: r.Intn(np + 1), Ty: []int32{99, int32(mainType(signal)), int32(last.ArrowPayloads[r.Intn(np)].Type)}[r.Intn(3)]})
			}
			lists = append(lists, fl)
		}
		// every payload relabelled to three types drawn from the whole type set of the signal, present in the batch or not
		// (a related table announced under a type the batch does not otherwise carry)
		typeSet := map[string][]int32{
			"traces":  {40, 41, 42, 43, 44, 45, 1, 2},
			"logs":    {30, 31, 1, 2},
			"metrics": {10, 11, 12, 13, 14, 15, 16, 17, 18, 19, 20, 21, 22, 23, 24, 1, 2},
		}[signal]
		for i := 0; i < np; i++ {
			for k := 0; k < 3; k++ {
				ty := typeSet[r.Intn(len(typeSet))]
				if ty != int32(last.ArrowPayloads[i].Type) {
					lists = append(lists, []fault{{Kind: "relabel", I: i, Ty: ty}})
				}
			}
		}
		// the main record under every other type of the signal (the lenient related-table decoders must not swallow it)
		for _, ty := range typeSet {
			if ty != int32(last.ArrowPayloads[0].Type) {
				lists = append(lists, []fault{{Kind: "relabel", I: 0, Ty: ty}})
			}
		}
		lists = append(lists, nil) // the unaltered batch
		for _, fl := range lists {
			cons := arrow_record.NewConsumer()
			okPrefix := true
			for _, b := range bars[:len(bars)-1] {
				if res := consumeAny(cons, signal, b); res.Class != "ok" {
					okPrefix = false
				}
			}
			if !okPrefix {
				stats["prefix_not_ok"]++ // C01-C03's business
				continue
			}
			altered := applyFaults(last, fl, &seq, stale)
			arrow_record.VerifConsumeReset()
			res := consumeAny(cons, signal, altered)
			// the consumer's stream table after the valid prefix, and what the IPC library answered per payload
			{
				type ent struct {
					sid string
					ty  int32
				}
				var table []ent
				for _, b := range bars[:len(bars)-1] {
					for _, p := range b.ArrowPayloads {
						found := false
						for _, e := range table {
							if e.sid == p.SchemaId {
								found = true
							}
						}
						if !found {
							var keep []ent
							for _, e := range table {
								if e.ty != int32(p.Type) {
									keep = append(keep, e)
								}
							}
							table = append(keep, ent{p.SchemaId, int32(p.Type)})
						}
					}
				}
				var es, ps []string
				for _, e := range table {
					es = append(es, fmt.Sprintf("{| e_sid := %d; e_ty := %d; e_reader := true |}", sidOf(e.sid), e.ty))
				}
				log := arrow_record.VerifConsumeLog()
				for i, p := range altered.ArrowPayloads {
					openOK, next, errOK := true, false, true
					for _, ev := range log {
						if ev.Payload != i {
							continue
						}
						switch ev.Stage {
						case "open":
							openOK = ev.OK
						case "next":
							next = true
						case "err":
							errOK = false
						}
					}
					ps = append(ps, fmt.Sprintf("{| p_sid := %d; p_ty := %d; p_lib := {| l_open_ok := %v; l_next := %v; l_err_ok := %v |}; p_decodes := true |}", sidOf(p.SchemaId), int32(p.Type), openOK, next, errOK))
				}
				code := map[string]int{"ok": 0, "error": 2, "limit": 2, "panic": 3}[res.Class]
				if res.Class == "ok" && res.Items < 0 {
					code = 1 // success with nothing
				}
				if ncq > 0 {
					cq.WriteString(";\n")
				}
				fmt.Fprintf(&cq, " (%d, [%s], [%s], %d)", sig, strings.Join(es, "; "), strings.Join(ps, "; "), code)
				ncq++
			}
			// one more, valid, batch of the same stream: after a damaged batch the sub-streams may be out of
			// step (outside the property), but the consumer's own stream table must still not crash
			after := consumeAny(cons, signal, follow)
			stats["after_"+after.Class]++
			if after.Class == "panic" && strings.Contains(after.Site, "Consumer).Consume") {
				out.Violation("C07", "consumer-panic:"+after.Site, fmt.Sprintf("consumer panicked in its stream table (%s) on the valid batch following a batch altered by %v: %s", after.Site, fl, after.Msg),
					map[string]any{"seed": o.seed, "case": c, "signal": signal, "faults": fl, "payloads": describe(altered), "then": describe(follow), "msg": after.Msg})
			}
			func() { defer func() { recover() }(); cons.Close() }()
			stats["class_"+res.Class]++
			mainPresent := 0
			for _, p := range altered.ArrowPayloads {
				if p.Type == mainType(signal) && len(p.Record) > 0 {
					mainPresent++
				}
			}
			obs := map[string]any{"signal": signal, "prefix_batches": len(bars) - 1, "faults": fl, "payloads": describe(altered), "class": res.Class, "items": res.Items, "msg": panicSite(res.Msg)}
			replay := map[string]any{"seed": o.seed, "case": c, "signal": signal, "faults": fl, "payloads": describe(altered), "result": res.Class, "msg": res.Msg}
			if res.Class == "panic" {
				out.Violation("C07", "consumer-panic:"+res.Site, fmt.Sprintf("consumer panicked (%s) on a batch altered by %v: %s", res.Site, fl, res.Msg), replay)
			}
			if res.Class == "ok" && mainPresent > 0 && res.Items < 0 {
				out.Violation("C07", "main-record-discarded", fmt.Sprintf("consumer returned success with nothing although a main record was present in the batch (faults %v)", fl), replay)
			}
			// the main record still travels in the batch when it was merely relabelled
			relabelledMain := false
			for _, f := range fl {
				if f.Kind == "relabel" && f.I%len(last.ArrowPayloads) == 0 && len(fl) == 1 && f.Ty != int32(last.ArrowPayloads[0].Type) {
					relabelledMain = true
				}
			}
			if relabelledMain && len(relabelCases) < 600 {
				// the records of the batch as (label, true type), with the observed outcome, for the relabel-aware dispatch model
				var rs []string
				for j, pl := range altered.ArrowPayloads {
					rs = append(rs, fmt.Sprintf("(%d, %d)", int32(pl.Type), int32(last.ArrowPayloads[j].Type)))
				}
				code := map[string]int{"ok": 0, "error": 2, "panic": 3}[res.Class]
				if res.Class == "ok" && res.Items <= 0 {
					code = 1
				}
				relabelCases = append(relabelCases, fmt.Sprintf(" (%d, [%s], %d)", sig, strings.Join(rs, "; "), code))
			}
			if res.Class == "ok" && relabelledMain && res.Items <= 0 {
				stats["relabelled_main_success_with_nothing"]++
				out.Violation("C07", "relabelled-main-record-discarded", fmt.Sprintf("the main record of the batch was relabelled to payload type %d; the consumer returned success with nothing instead of an error", fl[0].Ty), replay)
			}
			if len(fl) == 0 && (res.Class != "ok" || res.Items != mainRows[len(bars)-1]) {
				out.Violation("C07", "clean-batch-not-decoded", fmt.Sprintf("the unaltered batch was not decoded completely: %s items=%d want=%d %s", res.Class, res.Items, mainRows[len(bars)-1], res.Msg), replay)
			} else if len(fl) == 0 && len(inKeys) >= len(bars) {
				// "returns all of its telemetry": the content too, with the documented normalisations (Go mirror of Otlp/Equiv.v)
				if d := diffKeys(inKeys[len(bars)-1], res.Trees.Keys); d != "" {
					out.Violation("C07", "clean-batch-content-differs", "the unaltered well-formed batch on a healthy stream was decoded to different telemetry: "+d, replay)
				}
			}
			tag := "faults=" + strings.Join(func() []string {
				var ks []string
				for _, f := range fl {
					ks = append(ks, f.Kind)
				}
				return ks
			}(), "+")
			out.AddCase(obs, len(fl) > 0, signal+" "+tag+" -> "+res.Class)
		}
	}
	cq.WriteString("\n].\n")
	out.Coq.WriteString(cq.String())
	out.Coq.WriteString(`(* observed result: 0 = decoded, 1 = success with nothing, 2 = error, 3 = panic.
   The table decoders' own verdict is not observed (p_decodes := true), so the model may answer FDecoded/FNothing
   where the real consumer reports a decoding error; every other combination is a disagreement. *)
Definition fault_check (c : N * list centry * list payload * N) : bool :=
  let '(signal, st, ps, obs) := c in
  match snd (from false false signal st ps) with
  | FErr => obs =? 2
  | FDecoded => (obs =? 0) || (obs =? 2)
  | FNothing => (obs =? 1) || (obs =? 2)
  | FPanic => false
  end.
(* the property on the real outcome: no panic; no success-with-nothing when the model saw a main record read *)
Definition fault_prop (c : N * list centry * list payload * N) : bool :=
  let '(signal, st, ps, obs) := c in
  negb (obs =? 3) &&
  (negb (obs =? 1) || match snd (consume false st ps) with COk recs => Nat.eqb (count_ty (main_type signal) recs) 0 | _ => true end).
Definition fault_mismatch := Eval vm_compute in failing fault_check fault_cases.
Definition fault_propfail := Eval vm_compute in failing fault_prop fault_cases.
Print fault_mismatch.
Print fault_propfail.
`)
	out.Coq.WriteString("Definition relabel_cases : list (N * list (N * N) * N) := [\n" + strings.Join(relabelCases, ";\n") + "\n].\n")
	out.Coq.WriteString(`(* the main record of a valid batch sent under every other payload type of the signal: (signal, [(label, true type)], observed).
   The relabel-aware dispatch (Stream/Consumer.v dispatch3, strict decoders) answers FErr whatever the lenient decoders would say;
   the property: never success with nothing (observed 1) *)
Definition relabel_model (c : N * list (N * N) * N) : fres :=
  let '(signal, rs, _) := c in
  dispatch3 true signal (map (fun r : N * N => {| r_label := fst r; r_true := snd r; r_wf := true; r_lenient := true |}) rs).
Definition relabel_mismatch := Eval vm_compute in
  failing (fun c : N * list (N * N) * N => match relabel_model c with FErr => snd c =? 2 | _ => false end) relabel_cases.
Definition relabel_propfail := Eval vm_compute in failing (fun c : N * list (N * N) * N => negb (snd c =? 1) && negb (snd c =? 3)) relabel_cases.
Print relabel_mismatch.
Print relabel_propfail.
`)
	stats["relabel_cases"] = len(relabelCases)
	out.Lists = append(out.Lists, "fault_mismatch", "fault_propfail", "relabel_mismatch", "relabel_propfail")
	out.Extra["stats"] = stats
}
