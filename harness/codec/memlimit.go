package main

// C14, part 2: the real consumer under memory limits.

import (
	"context"
	"errors"
	"fmt"
	"go.opentelemetry.io/collector/pdata/pcommon"
	"go.opentelemetry.io/collector/pdata/plog"
	"go.opentelemetry.io/collector/pdata/ptrace"
	"os"
	"runtime/debug"
	"strings"
	"sync"

	"github.com/open-telemetry/otel-arrow/pkg/otel/arrow_record"
	"go.opentelemetry.io/otel/metric"
	"go.opentelemetry.io/otel/metric/embedded"
	"go.opentelemetry.io/otel/metric/noop"

	colarspb "github.com/open-telemetry/otel-arrow/api/experimental/arrow/v1"
)

func init() { subcommands["memlimit"] = runMemLimit }

// a MeterProvider that only records the arrow_memory_inuse up-down counter
type capProvider struct {
	noop.MeterProvider
	mu    sync.Mutex
	inuse int64
	max   int64
	min   int64
}
type capMeter struct {
	noop.Meter
	p *capProvider
}
type capUDC struct {
	embedded.Int64UpDownCounter
	p *capProvider
}

func (p *capProvider) Meter(string, ...metric.MeterOption) metric.Meter { return capMeter{p: p} }
func (m capMeter) Int64UpDownCounter(name string, _ ...metric.Int64UpDownCounterOption) (metric.Int64UpDownCounter, error) {
	if name == "arrow_memory_inuse" {
		return capUDC{p: m.p}, nil
	}
	return noop.Int64UpDownCounter{}, nil
}
func (c capUDC) Add(_ context.Context, v int64, _ ...metric.AddOption) {
	c.p.mu.Lock()
	defer c.p.mu.Unlock()
	c.p.inuse += v
	if c.p.inuse > c.p.max {
		c.p.max = c.p.inuse
	}
	if c.p.inuse < c.p.min {
		c.p.min = c.p.inuse
	}
}

type decodeResult struct {
	Class string // ok | limit | error | panic
	Msg   string
	Bytes string
}

func safeTracesFrom(c *arrow_record.Consumer, bar *colarspb.BatchArrowRecords) (res decodeResult) {
	defer func() {
		if r := recover(); r != nil {
			if os.Getenv("VERIF_STACK") != "" {
				fmt.Fprintf(os.Stderr, "%v\n%s\n", r, debug.Stack())
			}
			res = decodeResult{Class: "panic", Msg: fmt.Sprint(r) + " in " + firstRepoFrame(string(debug.Stack()))}
		}
	}()
	// the consumer mutates nothing of the message, but copy defensively
	tds, err := c.TracesFrom(bar)
	if err != nil {
		if errors.Is(err, arrow_record.ErrConsumerMemoryLimit) {
			return decodeResult{Class: "limit", Msg: err.Error()}
		}
		return decodeResult{Class: "error", Msg: err.Error()}
	}
	all := ""
	for _, td := range tds {
		all += canonTraces(td)
	}
	return decodeResult{Class: "ok", Bytes: all}
}

func runMemLimit(o opts, out *Output) {
	out.Imports = "From Verif Require Import Base.ListX Mem.Allocator Stream.Abandon."
	r := NewRng(o.seed)
	limits := []uint64{16, 64, 256, 1024, 4096, 8192, 16384, 65536, 1 << 20, 70 << 20}
	stats := map[string]int{}
	var marksCases []string
	for c := 0; c < o.n; c++ {
		g := &OGen{r: r.Fork(), Wide: r.Chance(40), Mono: monoPick(r)}
		nb := 1 + r.Intn(4)
		subsets := c%3 == 2
		if subsets {
			// histories built around a refusal at a chosen related table X (one huge value): the next batch carries X again and,
			// behind it, a table Y the refused batch did not carry; the one after carries Y without X (all 49 pairs X, Y over the
			// cases)
			nb = 5
		}
		prod := arrow_record.NewProducer()
		var bars []*colarspb.BatchArrowRecords
		for i := 0; i < nb; i++ {
			td := g.Traces(TShape{MaxRes: 2, MaxScopes: 2, MaxSpans: 1 + r.Intn(12)})
			if subsets {
				if h := abandonHistory(c / 3); i < len(h) {
					td = h[i]
				}
			}
			if td.SpanCount() == 0 {
				continue
			}
			bar, err := func() (b *colarspb.BatchArrowRecords, err error) {
				defer func() {
					if rec := recover(); rec != nil {
						err = fmt.Errorf("producer panic: %v", rec)
					}
				}()
				return prod.BatchArrowRecordsFromTraces(td)
			}()
			if err != nil {
				stats["producer_errors"]++ // C08's business
				break
			}
			bars = append(bars, bar)
		}
		_ = prod.Close()
		if len(bars) == 0 {
			continue
		}
		// baseline: default limit
		base := arrow_record.NewConsumer()
		var want []decodeResult
		for _, b := range bars {
			want = append(want, safeTracesFrom(base, b))
		}
		_ = base.Close()
		prevFirstRefusal := -1
		var perLimit []map[string]any
		caseLimits := limits
		if subsets {
			// a dense sweep, so that the first refusal falls on every payload position of some batch
			caseLimits = []uint64{96 << 10, 160 << 10, 224 << 10, 1 << 20, 70 << 20}
		}
		for _, lim := range caseLimits {
			mp := &capProvider{}
			cons := arrow_record.NewConsumer(arrow_record.WithMemoryLimit(lim), arrow_record.WithMeterProvider(mp))
			firstRefusal := len(bars)
			var classes []string
			opened := map[string]bool{}
			var mh, mobs []string
			marksOK := true
			for i, b := range bars {
				arrow_record.VerifConsumeReset()
				res := safeTracesFrom(cons, b)
				classes = append(classes, res.Class)
				stats["outcome_"+res.Class]++
				replay := map[string]any{"seed": o.seed, "case": c, "limit": lim, "batch": i, "result": res.Class, "msg": res.Msg}
				if res.Class == "panic" {
					out.Violation("C14", "consumer-panic-under-limit:"+sigOf(res.Msg), fmt.Sprintf("consumer panicked under memory limit %d on batch %d (after %v): %s", lim, i, classes[:i], res.Msg), replay)
				}
				if i < firstRefusal {
					switch res.Class {
					case "ok":
						if want[i].Class == "ok" && res.Bytes != want[i].Bytes {
							out.Violation("C14", "limit-changes-output", fmt.Sprintf("limit %d changes the decoded telemetry of batch %d", lim, i), replay)
						}
					case "limit":
						firstRefusal = i
					case "error":
						if want[i].Class == "ok" {
							out.Violation("C14", "refusal-not-recognisable", fmt.Sprintf("limit %d: batch %d refused with an error that is not the memory-limit error: %s", lim, i, res.Msg), replay)
							firstRefusal = i
						}
					}
				}
				// the batch as the marks model sees it: (schema id, library failure) per payload, the failure placed at the payload
				// where Consume stopped (the last one the hook saw)
				{
					failIdx := -1
					if res.Class == "limit" || res.Class == "error" {
						for _, ev := range arrow_record.VerifConsumeLog() {
							if ev.Payload > failIdx {
								failIdx = ev.Payload
							}
						}
						if failIdx < 0 || failIdx >= len(b.ArrowPayloads) {
							marksOK = false // refused before any payload was looked at (or after all of them: a decoding error of the tables)
						}
					}
					if res.Class == "panic" {
						marksOK = false
					}
					var ps []string
					for j, pl := range b.ArrowPayloads {
						var sidn int
						if _, err := fmt.Sscan(pl.SchemaId, &sidn); err != nil {
							marksOK = false
						}
						f := "None"
						if j == failIdx {
							f = fmt.Sprintf("Some %v", res.Class == "limit")
						}
						ps = append(ps, fmt.Sprintf("(%d, %s)", sidn, f))
					}
					mh = append(mh, "["+strings.Join(ps, "; ")+"]")
					switch res.Class {
					case "ok":
						mobs = append(mobs, "None")
					default:
						mobs = append(mobs, fmt.Sprintf("Some %v", res.Class == "limit"))
					}
				}
				// which sub-streams had a live reader, and was one of them opened again (i.e. had been dropped)?
				reopened := false
				for _, ev := range arrow_record.VerifConsumeLog() {
					if ev.Stage == "open" && ev.Payload < len(b.ArrowPayloads) {
						sid := b.ArrowPayloads[ev.Payload].SchemaId
						if opened[sid] {
							reopened = true
						}
						if ev.OK {
							opened[sid] = true
						}
					}
				}
				if i > firstRefusal {
					stats["after_refusal_"+res.Class]++
					if res.Class == "error" {
						m := res.Msg
						if k := strings.LastIndex(m, "->"); k >= 0 {
							m = m[k+2:]
						}
						stats["after_refusal_error: "+sigOf(m)]++
					}
					// After a refusal the sub-streams that were never opened are out of step (any error is acceptable
					// there), but a sub-stream whose reader was live keeps answering with the recognisable limit error:
					// dropping that reader turns the refusal into an unrelated "invalid message type" error.
					if res.Class == "error" && !reopened && want[i].Class == "ok" {
						// a sub-stream left behind by the abandoned batch refuses: that refusal is a consequence of the memory limit
						// and must be recognisable as such (errors.Is(err, ErrConsumerMemoryLimit))
						out.Violation("C14", "later-refusal-not-recognisable", fmt.Sprintf("limit %d: batch %d (valid; after the refusal of batch %d) is refused with an error that is not recognisable as the memory-limit error: %s", lim, i, firstRefusal, res.Msg), replay)
					}
					if res.Class == "error" && reopened {
						out.Violation("C14", "refusal-not-recognisable", fmt.Sprintf("limit %d: batch %d, after the refusal of batch %d, is refused with an error that is not recognisable as the memory-limit error although its sub-stream had a live reader: %s", lim, i, firstRefusal, res.Msg), replay)
					}
				}
				if mp.max > int64(lim) || mp.min < 0 {
					out.Violation("C14", "published-inuse-over-limit", fmt.Sprintf("published in-use reached %d (min %d) under limit %d", mp.max, mp.min, lim), replay)
				}
			}
			_ = cons.Close()
			if marksOK && firstRefusal < len(bars) && len(marksCases) < 400 {
				marksCases = append(marksCases, fmt.Sprintf(" ([%s], [%s])", strings.Join(mh, "; "), strings.Join(mobs, "; ")))
			}
			if prevFirstRefusal >= 0 && firstRefusal < prevFirstRefusal {
				out.Violation("C14", "limit-not-monotone", fmt.Sprintf("raising the limit to %d refuses batch %d that a smaller limit decoded", lim, firstRefusal), map[string]any{"seed": o.seed, "case": c, "limit": lim})
			}
			prevFirstRefusal = firstRefusal
			perLimit = append(perLimit, map[string]any{"limit": lim, "classes": classes, "max_published_inuse": mp.max})
		}
		out.AddCase(map[string]any{"case": c, "batches": len(bars), "wide": g.Wide, "per_limit": perLimit}, true, fmt.Sprintf("batches=%d wide=%v", len(bars), g.Wide))
	}
	runSchemaSwitch(o, out, r, stats)
	stats["marks_cases"] = len(marksCases)
	out.Coq.WriteString("Definition marks_cases : list (list (list (N * option bool)) * list (option bool)) := [\n" + strings.Join(marksCases, ";\n") + "\n].\n")
	out.Coq.WriteString(`(* every stream on which some batch was refused, under every limit: per batch the schema ids of the payloads and where the
   library failed (for the limit or otherwise), run through the model of the abandon marks (Stream/Abandon.v); the class of every
   batch (decoded / refused recognisably / refused otherwise) must be the one the model derives *)
Definition batch_class (os : list mout) : option bool :=
  fold_right (fun o acc => match o with MRefused r => Some r | _ => acc end) None os.
Definition marks_mismatch := Eval vm_compute in
  failing (fun c : list (list (N * option bool)) * list (option bool) =>
             list_eqb (fun a b : option bool => match a, b with None, None => true | Some x, Some y => Bool.eqb x y | _, _ => false end)
                      (map batch_class (mhistory true no_marks (fst c))) (snd c)) marks_cases.
Print marks_mismatch.
`)
	out.Lists = append(out.Lists, "marks_mismatch")
	out.Extra["stats"] = stats
}

// tableSet: which related tables a trace batch carries (bit i of present), and which one holds one huge value (huge = -1: none).
// tables: 0 resource attrs, 1 scope attrs, 2 span attrs, 3 span events, 4 event attrs, 5 span links, 6 link attrs
func tableSetTraces(n, batch int, present uint, huge int) ptrace.Traces {
	has := func(i int) bool { return present&(1<<uint(i)) != 0 }
	big := func(i int, s string) string {
		if huge == i {
			return s + strings.Repeat("x", 300_000)
		}
		return s
	}
	td := ptrace.NewTraces()
	rs := td.ResourceSpans().AppendEmpty()
	if has(0) {
		rs.Resource().Attributes().PutStr("service.name", big(0, fmt.Sprintf("svc-%d", batch)))
	}
	ss := rs.ScopeSpans().AppendEmpty()
	if has(1) {
		ss.Scope().Attributes().PutStr("lib", big(1, fmt.Sprintf("lib-%d", batch)))
	}
	for i := 0; i < n; i++ {
		sp := ss.Spans().AppendEmpty()
		sp.SetName(fmt.Sprintf("span-%d", i%3))
		sp.SetSpanID(pcommon.SpanID{1, byte(batch), byte(i >> 8), byte(i), 0, 0, 0, 1})
		first := i == 0
		if has(2) {
			v := fmt.Sprintf("value-%d-%d", batch, i%5)
			if first {
				v = big(2, v)
			}
			sp.Attributes().PutStr("k", v)
			sp.Attributes().PutStr("old", fmt.Sprintf("value-%d-%d", (batch+5)%6, i%5)) // values of earlier batches come back
		}
		if has(3) || has(4) {
			ev := sp.Events().AppendEmpty()
			nm := fmt.Sprintf("event-%d-%d", batch, i%4)
			if first {
				nm = big(3, nm)
			}
			ev.SetName(nm)
			if has(4) {
				v := fmt.Sprintf("ev-%d-%d", batch, i%5)
				if first {
					v = big(4, v)
				}
				ev.Attributes().PutStr("e", v)
				ev.Attributes().PutStr("old", fmt.Sprintf("ev-%d-%d", (batch+5)%6, i%5))
			}
		}
		if has(5) || has(6) {
			lk := sp.Links().AppendEmpty()
			lk.SetSpanID(pcommon.SpanID{2, byte(batch), byte(i >> 8), byte(i), 0, 0, 0, 2})
			ts := fmt.Sprintf("t=%d", batch)
			if first {
				ts = big(5, ts)
			}
			lk.TraceState().FromRaw(ts)
			if has(6) {
				v := fmt.Sprintf("lk-%d-%d", batch, i%5)
				if first {
					v = big(6, v)
				}
				lk.Attributes().PutStr("l", v)
				lk.Attributes().PutStr("old", fmt.Sprintf("lk-%d-%d", (batch+5)%6, i%5))
			}
		}
	}
	return td
}

// abandonHistory: every table exists; batch 1 is refused at table X (one huge value); batch 2 carries X again and, behind it,
// table Y that batch 1 did not carry, with new values; batch 3 carries Y alone; batch 4 everything.
func abandonHistory(k int) []ptrace.Traces {
	x, y := k%7, (k/7)%7
	all := uint(0x7f)
	without := func(t int) uint {
		m := all &^ (1 << uint(t))
		if t == 3 {
			m &^= 1 << 4 // no events: no event attributes either
		}
		if t == 5 {
			m &^= 1 << 6
		}
		return m
	}
	return []ptrace.Traces{
		tableSetTraces(6, 0, all, -1),
		tableSetTraces(6, 1, without(y)|1<<uint(x), x),
		tableSetTraces(6, 2, all, -1),
		tableSetTraces(6, 3, 1<<uint(y), -1), // Y alone (the tables between X and Y, marked by batch 1, would be met first)
		tableSetTraces(6, 4, all, -1),
	}
}

// runSchemaSwitch: a big batch A, then a small batch B in which every payload type of A appears again under a NEW schema id
// (the consumer releases the superseded readers before it opens the new ones, so the memory B needs does not depend on A):
// over a sweep of limits, once B decodes it must keep decoding under every larger limit.
func runSchemaSwitch(o opts, out *Output, r *Rng, stats map[string]int) {
	limits := []uint64{8 << 10, 12 << 10, 16 << 10, 24 << 10, 32 << 10, 48 << 10, 64 << 10, 96 << 10, 128 << 10, 192 << 10, 256 << 10, 384 << 10, 512 << 10, 1 << 20, 4 << 20, 70 << 20}
	nCases := 6
	if o.tier == "thorough" {
		nCases = 60
	}
	for c := 0; c < nCases; c++ {
		na, nb := 100+r.Intn(400), 5+r.Intn(60)
		mk := func(n int, second bool) plog.Logs {
			ld := plog.NewLogs()
			sl := ld.ResourceLogs().AppendEmpty().ScopeLogs().AppendEmpty()
			for i := 0; i < n; i++ {
				lr := sl.LogRecords().AppendEmpty()
				if second {
					lr.Body().SetInt(int64(i))
					lr.Attributes().PutInt("n", int64(i%5))
					lr.SetSeverityText("warn")
				} else {
					lr.Body().SetStr(fmt.Sprintf("a long enough body text number %d of the first batch", i))
					lr.Attributes().PutStr("k", fmt.Sprintf("value-%d", i%50))
				}
			}
			return ld
		}
		prod := arrow_record.NewProducer()
		barA, errA := prod.BatchArrowRecordsFromLogs(mk(na, false))
		barB, errB := prod.BatchArrowRecordsFromLogs(mk(nb, true))
		_ = prod.Close()
		if errA != nil || errB != nil {
			continue
		}
		// precondition: every payload type of A reappears in B, no schema id of A is used by B
		sidsA, typesA := map[string]bool{}, map[colarspb.ArrowPayloadType]bool{}
		for _, p := range barA.ArrowPayloads {
			sidsA[p.SchemaId], typesA[p.Type] = true, true
		}
		okPre := true
		typesB := map[colarspb.ArrowPayloadType]bool{}
		for _, p := range barB.ArrowPayloads {
			typesB[p.Type] = true
			if sidsA[p.SchemaId] {
				okPre = false
			}
		}
		for t := range typesA {
			if !typesB[t] {
				okPre = false
			}
		}
		if !okPre {
			stats["switch_precondition_not_met"]++
			continue
		}
		decodedAt := uint64(0)
		var perLimit []map[string]any
		for _, lim := range limits {
			cons := arrow_record.NewConsumer(arrow_record.WithMemoryLimit(lim))
			classOf := func(bar *colarspb.BatchArrowRecords) (cl string) {
				defer func() {
					if rec := recover(); rec != nil {
						cl = "panic"
					}
				}()
				_, err := cons.LogsFrom(bar)
				switch {
				case err == nil:
					return "ok"
				case errors.Is(err, arrow_record.ErrConsumerMemoryLimit):
					return "limit"
				}
				return "error"
			}
			ca, cb := classOf(barA), classOf(barB)
			_ = cons.Close()
			perLimit = append(perLimit, map[string]any{"limit": lim, "A": ca, "B": cb})
			if cb == "ok" && decodedAt == 0 {
				decodedAt = lim
			}
			if cb == "limit" && decodedAt != 0 {
				out.Violation("C14", "limit-not-monotone-after-schema-change", fmt.Sprintf("a %d-record batch arriving under new schema ids after a %d-record batch decodes under limit %d but is refused under the larger limit %d", nb, na, decodedAt, lim),
					map[string]any{"seed": o.seed, "switch_case": c, "records_A": na, "records_B": nb, "per_limit": perLimit})
				break
			}
		}
		stats["switch_cases"]++
		out.AddCase(map[string]any{"switch_case": c, "records_A": na, "records_B": nb, "per_limit": perLimit}, true, "schema switch")
	}
}

func sigOf(msg string) string {
	if len(msg) > 40 {
		msg = msg[:40]
	}
	return msg
}
