package main

// C14, part 2: the real consumer under memory limits.

import (
	"context"
	"errors"
	"fmt"
	"sync"

	"github.com/open-telemetry/otel-arrow/pkg/otel/arrow_record"
	"go.opentelemetry.io/otel/metric"
	"go.opentelemetry.io/otel/metric/embedded"
	"go.opentelemetry.io/otel/metric/noop"

	colarspb "github.com/open-telemetry/otel-arrow/api/experimental/arrow/v1"
)

func init() { subcommands["memlimit"] = runMemLimit }

// a MeterProvider that only records the arrow_memory_inuse up-down counter
type capProvider struct {
	noop.MeterProvider
	mu    sync.Mutex
	inuse int64
	max   int64
	min   int64
}
type capMeter struct {
	noop.Meter
	p *capProvider
}
type capUDC struct {
	embedded.Int64UpDownCounter
	p *capProvider
}

func (p *capProvider) Meter(string, ...metric.MeterOption) metric.Meter { return capMeter{p: p} }
func (m capMeter) Int64UpDownCounter(name string, _ ...metric.Int64UpDownCounterOption) (metric.Int64UpDownCounter, error) {
	if name == "arrow_memory_inuse" {
		return capUDC{p: m.p}, nil
	}
	return noop.Int64UpDownCounter{}, nil
}
func (c capUDC) Add(_ context.Context, v int64, _ ...metric.AddOption) {
	c.p.mu.Lock()
	defer c.p.mu.Unlock()
	c.p.inuse += v
	if c.p.inuse > c.p.max {
		c.p.max = c.p.inuse
	}
	if c.p.inuse < c.p.min {
		c.p.min = c.p.inuse
	}
}

type decodeResult struct {
	Class string // ok | limit | error | panic
	Msg   string
	Bytes string
}

func safeTracesFrom(c *arrow_record.Consumer, bar *colarspb.BatchArrowRecords) (res decodeResult) {
	defer func() {
		if r := recover(); r != nil {
			res = decodeResult{Class: "panic", Msg: fmt.Sprint(r)}
		}
	}()
	// the consumer mutates nothing of the message, but copy defensively
	tds, err := c.TracesFrom(bar)
	if err != nil {
		if errors.Is(err, arrow_record.ErrConsumerMemoryLimit) {
			return decodeResult{Class: "limit", Msg: err.Error()}
		}
		return decodeResult{Class: "error", Msg: err.Error()}
	}
	all := ""
	for _, td := range tds {
		all += canonTraces(td)
	}
	return decodeResult{Class: "ok", Bytes: all}
}

func runMemLimit(o opts, out *Output) {
	out.Imports = "From Verif Require Import Base.ListX Mem.Allocator."
	r := NewRng(o.seed)
	limits := []uint64{16, 64, 256, 1024, 4096, 8192, 16384, 65536, 1 << 20, 70 << 20}
	stats := map[string]int{}
	for c := 0; c < o.n; c++ {
		g := &OGen{r: r.Fork(), Wide: r.Chance(40), Mono: monoPick(r)}
		nb := 1 + r.Intn(4)
		prod := arrow_record.NewProducer()
		var bars []*colarspb.BatchArrowRecords
		for i := 0; i < nb; i++ {
			td := g.Traces(TShape{MaxRes: 2, MaxScopes: 2, MaxSpans: 1 + r.Intn(12)})
			if td.SpanCount() == 0 {
				continue
			}
			bar, err := func() (b *colarspb.BatchArrowRecords, err error) {
				defer func() {
					if rec := recover(); rec != nil {
						err = fmt.Errorf("producer panic: %v", rec)
					}
				}()
				return prod.BatchArrowRecordsFromTraces(td)
			}()
			if err != nil {
				stats["producer_errors"]++ // C08's business
				break
			}
			bars = append(bars, bar)
		}
		_ = prod.Close()
		if len(bars) == 0 {
			continue
		}
		// baseline: default limit
		base := arrow_record.NewConsumer()
		var want []decodeResult
		for _, b := range bars {
			want = append(want, safeTracesFrom(base, b))
		}
		_ = base.Close()
		prevFirstRefusal := -1
		var perLimit []map[string]any
		for _, lim := range limits {
			mp := &capProvider{}
			cons := arrow_record.NewConsumer(arrow_record.WithMemoryLimit(lim), arrow_record.WithMeterProvider(mp))
			firstRefusal := len(bars)
			var classes []string
			opened := map[string]bool{}
			for i, b := range bars {
				arrow_record.VerifConsumeReset()
				res := safeTracesFrom(cons, b)
				classes = append(classes, res.Class)
				stats["outcome_"+res.Class]++
				replay := map[string]any{"seed": o.seed, "case": c, "limit": lim, "batch": i, "result": res.Class, "msg": res.Msg}
				if res.Class == "panic" {
					out.Violation("C14", "consumer-panic-under-limit:"+sigOf(res.Msg), fmt.Sprintf("consumer panicked under memory limit %d on batch %d (after %v): %s", lim, i, classes[:i], res.Msg), replay)
				}
				if i < firstRefusal {
					switch res.Class {
					case "ok":
						if want[i].Class == "ok" && res.Bytes != want[i].Bytes {
							out.Violation("C14", "limit-changes-output", fmt.Sprintf("limit %d changes the decoded telemetry of batch %d", lim, i), replay)
						}
					case "limit":
						firstRefusal = i
					case "error":
						if want[i].Class == "ok" {
							out.Violation("C14", "refusal-not-recognisable", fmt.Sprintf("limit %d: batch %d refused with an error that is not the memory-limit error: %s", lim, i, res.Msg), replay)
							firstRefusal = i
						}
					}
				}
				// which sub-streams had a live reader, and was one of them opened again (i.e. had been dropped)?
				reopened := false
				for _, ev := range arrow_record.VerifConsumeLog() {
					if ev.Stage == "open" && ev.Payload < len(b.ArrowPayloads) {
						sid := b.ArrowPayloads[ev.Payload].SchemaId
						if opened[sid] {
							reopened = true
						}
						if ev.OK {
							opened[sid] = true
						}
					}
				}
				if i > firstRefusal {
					stats["after_refusal_"+res.Class]++
					// After a refusal the sub-streams that were never opened are out of step (any error is acceptable
					// there), but a sub-stream whose reader was live keeps answering with the recognisable limit error:
					// dropping that reader turns the refusal into an unrelated "invalid message type" error.
					if res.Class == "error" && reopened {
						out.Violation("C14", "refusal-not-recognisable", fmt.Sprintf("limit %d: batch %d, after the refusal of batch %d, is refused with an error that is not recognisable as the memory-limit error although its sub-stream had a live reader: %s", lim, i, firstRefusal, res.Msg), replay)
					}
				}
				if mp.max > int64(lim) || mp.min < 0 {
					out.Violation("C14", "published-inuse-over-limit", fmt.Sprintf("published in-use reached %d (min %d) under limit %d", mp.max, mp.min, lim), replay)
				}
			}
			_ = cons.Close()
			if prevFirstRefusal >= 0 && firstRefusal < prevFirstRefusal {
				out.Violation("C14", "limit-not-monotone", fmt.Sprintf("raising the limit to %d refuses batch %d that a smaller limit decoded", lim, firstRefusal), map[string]any{"seed": o.seed, "case": c, "limit": lim})
			}
			prevFirstRefusal = firstRefusal
			perLimit = append(perLimit, map[string]any{"limit": lim, "classes": classes, "max_published_inuse": mp.max})
		}
		out.AddCase(map[string]any{"case": c, "batches": len(bars), "wide": g.Wide, "per_limit": perLimit}, true, fmt.Sprintf("batches=%d wide=%v", len(bars), g.Wide))
	}
	out.Extra["stats"] = stats
}

func sigOf(msg string) string {
	if len(msg) > 40 {
		msg = msg[:40]
	}
	return msg
}
