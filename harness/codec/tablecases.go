package main

// Table-level cases for the Coq models of Otap/Tables.v and Otap/Attrs.v: the real attribute tables (rows as
// the producer wrote them), the id columns of the main record, and what the real decoder attached to every
// row of the main record.

import (
	"fmt"
	"strings"

	"github.com/open-telemetry/otel-arrow/pkg/otel/common"
	"go.opentelemetry.io/collector/pdata/pcommon"
	"go.opentelemetry.io/collector/pdata/plog"
	"go.opentelemetry.io/collector/pdata/pmetric"
	"go.opentelemetry.io/collector/pdata/ptrace"
)

func attrValue(row map[string]any) (pcommon.Value, bool) {
	v := pcommon.NewValueEmpty()
	t, _ := u64(row["type"])
	switch pcommon.ValueType(t) {
	case pcommon.ValueTypeStr:
		s, _ := row["str"].(string)
		v.SetStr(s)
	case pcommon.ValueTypeInt:
		i, _ := row["int"].(int64)
		v.SetInt(i)
	case pcommon.ValueTypeDouble:
		f, _ := row["double"].(float64)
		v.SetDouble(f)
	case pcommon.ValueTypeBool:
		b, _ := row["bool"].(bool)
		v.SetBool(b)
	case pcommon.ValueTypeBytes:
		b, _ := row["bytes"].([]byte)
		v.SetEmptyBytes().FromRaw(b)
	case pcommon.ValueTypeSlice, pcommon.ValueTypeMap:
		b, _ := row["ser"].([]byte)
		if err := common.Deserialize(b, v); err != nil {
			return v, false
		}
	default:
		return v, false
	}
	return v, true
}

// [(key, value, encoded parent id)] in table order
func attrRowsCoq(t *Table) (string, bool) {
	var rows []string
	for _, row := range t.Rows {
		key, _ := row["key"].(string)
		v, ok := attrValue(row)
		if !ok {
			return "", false
		}
		p, _ := u64(row["parent_id"])
		var sb strings.Builder
		coqValue(&sb, v)
		rows = append(rows, fmt.Sprintf("((%s, %s), %d)", coqBytes(key), sb.String(), p))
	}
	return "[" + strings.Join(rows, "; ") + "]", true
}

func optCell(v any) string {
	if v == nil {
		return "None"
	}
	x, _ := u64(v)
	return fmt.Sprintf("Some %d", x)
}

func structCell(row map[string]any, st, field string) any {
	m, ok := row[st].(map[string]any)
	if !ok {
		return nil
	}
	return m[field]
}

func rawAttrs(m pcommon.Map) string {
	var sb strings.Builder
	coqMap(&sb, m)
	return sb.String()
}

// one Coq term: (id cells, resource id cells, scope id cells, resource attr rows, scope attr rows, item attr rows,
//
//	[(resource attrs, scope attrs, item attrs)] as decoded, in row order)
func tableCase(recs []*obsRecord, itemAttrsType int32, decoded [][3]string) (string, bool) {
	if len(recs) == 0 {
		return "", false
	}
	main := recs[0].Table
	var ids, rids, sids []string
	for _, row := range main.Rows {
		ids = append(ids, optCell(row["id"]))
		rids = append(rids, optCell(structCell(row, "resource", "id")))
		sids = append(sids, optCell(structCell(row, "scope", "id")))
	}
	tables := map[int32]string{1: "[]", 2: "[]", itemAttrsType: "[]"}
	for _, r := range recs[1:] {
		pt := int32(r.PType)
		if _, want := tables[pt]; want {
			s, ok := attrRowsCoq(r.Table)
			if !ok {
				return "", false
			}
			tables[pt] = s
		}
	}
	if len(decoded) != len(main.Rows) {
		return "", false
	}
	var dec []string
	for _, d := range decoded {
		dec = append(dec, fmt.Sprintf("(%s, %s, %s)", d[0], d[1], d[2]))
	}
	return fmt.Sprintf("([%s], [%s], [%s], %s, %s, %s,\n   [%s])", strings.Join(ids, ";"), strings.Join(rids, ";"), strings.Join(sids, ";"),
		tables[1], tables[2], tables[itemAttrsType], strings.Join(dec, ";\n    ")), true
}

func decodedTraces(td ptrace.Traces) [][3]string {
	var out [][3]string
	for i := 0; i < td.ResourceSpans().Len(); i++ {
		rs := td.ResourceSpans().At(i)
		for j := 0; j < rs.ScopeSpans().Len(); j++ {
			ss := rs.ScopeSpans().At(j)
			for k := 0; k < ss.Spans().Len(); k++ {
				out = append(out, [3]string{rawAttrs(rs.Resource().Attributes()), rawAttrs(ss.Scope().Attributes()), rawAttrs(ss.Spans().At(k).Attributes())})
			}
		}
	}
	return out
}

// per span (row order of the decoded batch): events as (name, attrs), links as (trace id, attrs)
func decodedChildren(td ptrace.Traces) (evs, lks [][]string) {
	for i := 0; i < td.ResourceSpans().Len(); i++ {
		rs := td.ResourceSpans().At(i)
		for j := 0; j < rs.ScopeSpans().Len(); j++ {
			ss := rs.ScopeSpans().At(j)
			for k := 0; k < ss.Spans().Len(); k++ {
				sp := ss.Spans().At(k)
				var e, l []string
				for x := 0; x < sp.Events().Len(); x++ {
					ev := sp.Events().At(x)
					e = append(e, fmt.Sprintf("(%s, %s)", coqBytes(ev.Name()), rawAttrs(ev.Attributes())))
				}
				for x := 0; x < sp.Links().Len(); x++ {
					lk := sp.Links().At(x)
					tid := lk.TraceID()
					l = append(l, fmt.Sprintf("(%s, %s)", coqBytes(string(tid[:])), rawAttrs(lk.Attributes())))
				}
				evs = append(evs, e)
				lks = append(lks, l)
			}
		}
	}
	return
}

// child tables of the span table: (span id cells, [(id cell, group key, parent cell)] of the child table, its attribute rows
// (32-bit parents), per span the children the real consumer attached)
func childCase(recs []*obsRecord, childType, attrsType int32, keyCol string, decoded [][]string) (string, bool) {
	if len(recs) == 0 {
		return "", false
	}
	main := recs[0].Table
	if len(decoded) != len(main.Rows) {
		return "", false
	}
	var ids []string
	for _, row := range main.Rows {
		ids = append(ids, optCell(row["id"]))
	}
	rows, arows := "[]", "[]"
	for _, r := range recs[1:] {
		switch int32(r.PType) {
		case childType:
			var rs []string
			for _, row := range r.Table.Rows {
				key := ""
				switch k := row[keyCol].(type) {
				case string:
					key = k
				case []byte:
					key = string(k)
				}
				p, _ := u64(row["parent_id"])
				rs = append(rs, fmt.Sprintf("(%s, %s, %d)", optCell(row["id"]), coqBytes(key), p))
			}
			rows = "[" + strings.Join(rs, "; ") + "]"
		case attrsType:
			s, ok := attrRowsCoq(r.Table)
			if !ok {
				return "", false
			}
			arows = s
		}
	}
	var dec []string
	for _, d := range decoded {
		dec = append(dec, "["+strings.Join(d, "; ")+"]")
	}
	return fmt.Sprintf("([%s], %s, %s,\n   [%s])", strings.Join(ids, ";"), rows, arows, strings.Join(dec, "; ")), true
}

// per metric (row order of the decoded batch): the attributes of its number data points, in order
func decodedPoints(md pmetric.Metrics) []string {
	var out []string
	for i := 0; i < md.ResourceMetrics().Len(); i++ {
		rm := md.ResourceMetrics().At(i)
		for j := 0; j < rm.ScopeMetrics().Len(); j++ {
			sm := rm.ScopeMetrics().At(j)
			for k := 0; k < sm.Metrics().Len(); k++ {
				m := sm.Metrics().At(k)
				var dps pmetric.NumberDataPointSlice
				switch m.Type() {
				case pmetric.MetricTypeGauge:
					dps = m.Gauge().DataPoints()
				case pmetric.MetricTypeSum:
					dps = m.Sum().DataPoints()
				default:
					out = append(out, "None")
					continue
				}
				var as []string
				for x := 0; x < dps.Len(); x++ {
					as = append(as, rawAttrs(dps.At(x).Attributes()))
				}
				out = append(out, "(Some ["+strings.Join(as, "; ")+"])")
			}
		}
	}
	return out
}

// number data points: (metric id cells, [(id cell, parent cell)] of the NUMBER_DATA_POINTS table, its attribute rows, per metric the decoded points)
func pointCase(recs []*obsRecord, decoded []string) (string, bool) {
	if len(recs) == 0 {
		return "", false
	}
	main := recs[0].Table
	if len(decoded) != len(main.Rows) {
		return "", false
	}
	var ids []string
	for _, row := range main.Rows {
		ids = append(ids, optCell(row["id"]))
	}
	rows, arows := "[]", "[]"
	for _, r := range recs[1:] {
		switch int32(r.PType) {
		case 11:
			var rs []string
			for _, row := range r.Table.Rows {
				p, _ := u64(row["parent_id"])
				rs = append(rs, fmt.Sprintf("(%s, %d)", optCell(row["id"]), p))
			}
			rows = "[" + strings.Join(rs, "; ") + "]"
		case 15:
			s, ok := attrRowsCoq(r.Table)
			if !ok {
				return "", false
			}
			arows = s
		}
	}
	return fmt.Sprintf("([%s], %s, %s,\n   [%s])", strings.Join(ids, ";"), rows, arows, strings.Join(decoded, "; ")), true
}

func decodedLogs(ld plog.Logs) [][3]string {
	var out [][3]string
	for i := 0; i < ld.ResourceLogs().Len(); i++ {
		rl := ld.ResourceLogs().At(i)
		for j := 0; j < rl.ScopeLogs().Len(); j++ {
			sl := rl.ScopeLogs().At(j)
			for k := 0; k < sl.LogRecords().Len(); k++ {
				out = append(out, [3]string{rawAttrs(rl.Resource().Attributes()), rawAttrs(sl.Scope().Attributes()), rawAttrs(sl.LogRecords().At(k).Attributes())})
			}
		}
	}
	return out
}

const tableCheckCoq = `(* id cells of the main record are delta encoded (nullable for the item id); the decoder accumulates them; every row
   gets the attribute maps the stores hold under its decoded ids — recomputed here by the model from the real tables and
   compared with what the real consumer attached; re-encoding the decoded parent ids must reproduce the real column *)
Definition W16 : N := 65536.
Definition tcase := (list (option N) * list (option N) * list (option N) *
                     list (akey * N) * list (akey * N) * list (akey * N) *
                     list (list (bytes * value) * list (bytes * value) * list (bytes * value)))%type.
Definition lookup_attrs (store : list (N * list (bytes * value))) (id : option N) : list (bytes * value) :=
  match id with Some p => store_get value store p | None => [] end.
Definition table_check (c : tcase) : bool :=
  let '(ids, rids, sids, rrows, srows, irows, dec) := c in
  let ids' := id_dec W16 0 ids in
  let rids' := id_dec W16 0 rids in
  let sids' := id_dec W16 0 sids in
  let rst := attrs_store (attrs_dec W16 rrows) in
  let sst := attrs_store (attrs_dec W16 srows) in
  let ist := attrs_store (attrs_dec W16 irows) in
  let rows := combine (combine (combine ids' rids') sids') dec in
  Nat.eqb (length rows) (length dec) &&
  forallb (fun r => let '(i, ri, si, (ra, sa, ia)) := r in
                    perm_eqb entry_eqb (lookup_attrs rst ri) ra && perm_eqb entry_eqb (lookup_attrs sst si) sa &&
                    perm_eqb entry_eqb (lookup_attrs ist i) ia) rows &&
  list_eqb (fun a b => entry_eqb (fst a) (fst b) && N.eqb (snd a) (snd b)) (attrs_enc W16 (attrs_dec W16 irows)) irows.
Definition table_mismatch := Eval vm_compute in failing table_check table_cases.
Print table_mismatch.
`

const pointCheckCoq = `(* number data points: metric ids delta encoded (16-bit), the data-point table's parent ids plain-delta encoded (16-bit), its own ids
   delta encoded (nullable, 32-bit), attributes under those ids.  The model decodes which points belong to which metric and with
   which attributes, in table order; compared with the gauges / sums the real consumer rebuilt. *)
Definition W16 : N := 65536.
Definition W32 : N := 4294967296.
Definition lookup_attrs (store : list (N * list (bytes * value))) (id : option N) : list (bytes * value) :=
  match id with Some p => store_get value store p | None => [] end.
Definition pcase := (list (option N) * list (option N * N) * list (akey * N) * list (option (list (list (bytes * value)))))%type.
Definition point_check (c : pcase) : bool :=
  let '(mids, rows, arows, dec) := c in
  let mids' := id_dec W16 0 mids in
  let parents := id_dec W16 0 (map (fun r => Some (snd r)) rows) in
  let pids := id_dec W32 0 (map fst rows) in
  let ast := attrs_store (attrs_dec W32 arows) in
  let points := combine parents pids in
  Nat.eqb (length mids') (length dec) &&
  forallb (fun r : option N * option (list (list (bytes * value))) =>
             match snd r with
             | None => true
             | Some real =>
                 let expected := match fst r with
                                 | Some i => map (fun pt => lookup_attrs ast (snd pt))
                                                 (filter (fun pt => match fst pt with Some p => N.eqb p i | None => false end) points)
                                 | None => []
                                 end in
                 list_eqb (perm_eqb entry_eqb) expected real
             end) (combine mids' dec).
Definition point_mismatch := Eval vm_compute in failing point_check point_cases.
Print point_mismatch.
`

const childCheckCoq = `(* events and links: the child table's parent ids are group-delta encoded on the event name / link trace id (16-bit), its own
   ids delta encoded (nullable), its attributes stored under those ids (32-bit parents).  From the real tables the model
   decodes which children belong to which span and with which attributes; compared with what the real consumer attached. *)
Definition W32 : N := 4294967296.
Definition bytes_eqb (a b : bytes) : bool := list_eqb N.eqb a b.
Definition ccase := (list (option N) * list (option N * bytes * N) * list (akey * N) * list (list (bytes * list (bytes * value))))%type.
Definition child_eqb (a b : bytes * list (bytes * value)) : bool := bytes_eqb (fst a) (fst b) && perm_eqb entry_eqb (snd a) (snd b).
Definition child_check (c : ccase) : bool :=
  let '(ids, rows, arows, dec) := c in
  let ids' := id_dec W16 0 ids in
  let cids := id_dec W32 0 (map (fun r => fst (fst r)) rows) in
  let parents := gd_dec W16 bytes bytes_eqb None (map (fun r => (snd (fst r), snd r)) rows) in
  let ast := attrs_store (attrs_dec W32 arows) in
  let children := combine parents cids in      (* ((key, parent), child id) *)
  Nat.eqb (length ids') (length dec) &&
  forallb (fun r : option N * list (bytes * list (bytes * value)) =>
             let expected := match fst r with
                             | Some i => map (fun ch => (fst (fst ch), lookup_attrs ast (snd ch)))
                                             (filter (fun ch => N.eqb (snd (fst ch)) i) children)
                             | None => []
                             end in
             perm_eqb child_eqb expected (snd r)) (combine ids' dec) &&
  (* re-encoding the decoded parents reproduces the real parent column *)
  list_eqb (fun a b : bytes * N => bytes_eqb (fst a) (fst b) && N.eqb (snd a) (snd b))
           (gd_enc W16 bytes bytes_eqb None parents) (map (fun r => (snd (fst r), snd r)) rows).
Definition event_mismatch := Eval vm_compute in failing child_check event_cases.
Definition link_mismatch := Eval vm_compute in failing child_check link_cases.
Print event_mismatch.
Print link_mismatch.
`
