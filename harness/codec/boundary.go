package main

// Boundary histories for C08: batches with more parents than the 16-bit ids allow, a refused batch
// followed by a valid one, the dictionary reset regime.

import (
	"fmt"
	"math"
	"strings"

	cfgpkg "github.com/open-telemetry/otel-arrow/pkg/config"
	"go.opentelemetry.io/collector/pdata/pcommon"
	"go.opentelemetry.io/collector/pdata/plog"
	"go.opentelemetry.io/collector/pdata/pmetric"
	"go.opentelemetry.io/collector/pdata/ptrace"
)

type boundaryCase struct {
	Name    string
	Options []cfgpkg.Option
	Batches func() []any
	// Expect[i]: "ok", "error" (must be refused with an error), "any" (ok or error)
	Expect []string
}

func manySpans(n int, withAttrs bool, resources int) ptrace.Traces {
	td := ptrace.NewTraces()
	per := n / resources
	for r := 0; r < resources; r++ {
		rs := td.ResourceSpans().AppendEmpty()
		rs.Resource().Attributes().PutInt("r", int64(r))
		ss := rs.ScopeSpans().AppendEmpty()
		for i := 0; i < per; i++ {
			sp := ss.Spans().AppendEmpty()
			sp.SetName("s")
			sp.SetSpanID(pcommon.SpanID{1, 2, 3, 4, byte(i >> 24), byte(i >> 16), byte(i >> 8), byte(i)})
			if withAttrs {
				sp.Attributes().PutInt("i", int64(i%7))
			}
		}
	}
	return td
}

func manyLogs(n int) plog.Logs {
	ld := plog.NewLogs()
	sl := ld.ResourceLogs().AppendEmpty().ScopeLogs().AppendEmpty()
	for i := 0; i < n; i++ {
		lr := sl.LogRecords().AppendEmpty()
		lr.Body().SetStr("b")
		lr.Attributes().PutInt("i", int64(i%7))
	}
	return ld
}

func manyMetrics(n int) pmetric.Metrics {
	md := pmetric.NewMetrics()
	sm := md.ResourceMetrics().AppendEmpty().ScopeMetrics().AppendEmpty()
	for i := 0; i < n; i++ {
		m := sm.Metrics().AppendEmpty()
		m.SetName("m")
		m.SetEmptyGauge().DataPoints().AppendEmpty().SetIntValue(int64(i))
	}
	return md
}

// spansOfKinds: n spans in one scope; kind(i) says what related data span i carries:
// 0 nothing, 1 an attribute, 2 an event only, 3 a link only.
func spansOfKinds(n int, kind func(i int) int) ptrace.Traces {
	td := ptrace.NewTraces()
	ss := td.ResourceSpans().AppendEmpty().ScopeSpans().AppendEmpty()
	for i := 0; i < n; i++ {
		sp := ss.Spans().AppendEmpty()
		sp.SetName("s")
		switch kind(i) {
		case 1:
			sp.Attributes().PutInt("i", int64(i%7))
		case 2:
			sp.Events().AppendEmpty().SetName("e")
		case 3:
			sp.Links().AppendEmpty().SetSpanID(pcommon.SpanID{9, 9, 9, 9, 0, 0, 0, 1})
		}
	}
	return td
}

// pointsOfKinds: one gauge with n data points; kind(i): 0 bare, 1 an attribute, 2 an exemplar only.
func pointsOfKinds(n int, kind func(i int) int) pmetric.Metrics {
	md := pmetric.NewMetrics()
	m := md.ResourceMetrics().AppendEmpty().ScopeMetrics().AppendEmpty().Metrics().AppendEmpty()
	m.SetName("m")
	dps := m.SetEmptyGauge().DataPoints()
	for i := 0; i < n; i++ {
		dp := dps.AppendEmpty()
		dp.SetIntValue(int64(i))
		switch kind(i) {
		case 1:
			dp.Attributes().PutInt("i", int64(i%7))
		case 2:
			dp.Exemplars().AppendEmpty().SetIntValue(1)
		}
	}
	return md
}

// logsValueless: n log records each carrying only an attribute without value (skipped by the encoder)
func logsValueless(n int) plog.Logs {
	ld := plog.NewLogs()
	sl := ld.ResourceLogs().AppendEmpty().ScopeLogs().AppendEmpty()
	for i := 0; i < n; i++ {
		lr := sl.LogRecords().AppendEmpty()
		lr.Body().SetStr("b")
		lr.Attributes().PutEmpty("k")
	}
	return ld
}

// spansValueless: n spans each carrying only an attribute without value / with an empty key
func spansValueless(n int) ptrace.Traces {
	td := ptrace.NewTraces()
	ss := td.ResourceSpans().AppendEmpty().ScopeSpans().AppendEmpty()
	for i := 0; i < n; i++ {
		sp := ss.Spans().AppendEmpty()
		sp.SetName("s")
		if i%2 == 0 {
			sp.Attributes().PutEmpty("k")
		} else {
			sp.Attributes().PutStr("", "v")
		}
	}
	return td
}

// resourcesValueless: n resources (one span each) whose resource and scope carry only a valueless attribute
func resourcesValueless(n int) ptrace.Traces {
	td := ptrace.NewTraces()
	for i := 0; i < n; i++ {
		rs := td.ResourceSpans().AppendEmpty()
		rs.Resource().Attributes().PutEmpty("k")
		rs.Resource().SetDroppedAttributesCount(uint32(i)) // distinct resources
		ss := rs.ScopeSpans().AppendEmpty()
		ss.Scope().Attributes().PutEmpty("k")
		ss.Spans().AppendEmpty().SetName("s")
	}
	return td
}

func repeatBatches(k int, mk func() any) func() []any {
	return func() []any {
		var out []any
		for i := 0; i < k; i++ {
			out = append(out, mk())
		}
		return out
	}
}

// distinctBatch: n items whose every string / id field holds a value never seen before on the stream (base keeps them apart
// across batches): all dictionary columns of the main record grow by n entries in the same batch.
func distinctBatch(sig, n, base int) any {
	id8 := func(i int) [8]byte { return [8]byte{byte(i >> 24), byte(i >> 16), byte(i >> 8), byte(i), 7, 7, 7, 7} }
	id16 := func(i int) [16]byte {
		return [16]byte{byte(i >> 24), byte(i >> 16), byte(i >> 8), byte(i), 1, 2, 3, 4, 5, 6, 7, 8, 9, 9, 9, 9}
	}
	switch sig {
	case 0:
		td := ptrace.NewTraces()
		ss := td.ResourceSpans().AppendEmpty().ScopeSpans().AppendEmpty()
		for k := 0; k < n; k++ {
			i := base + k
			sp := ss.Spans().AppendEmpty()
			sp.SetName(fmt.Sprintf("name-%d", i))
			sp.SetTraceID(pcommon.TraceID(id16(i)))
			sp.SetSpanID(pcommon.SpanID(id8(i)))
			sp.SetParentSpanID(pcommon.SpanID(id8(i + 1000000)))
			sp.TraceState().FromRaw(fmt.Sprintf("k=%d", i))
			sp.Status().SetMessage(fmt.Sprintf("msg-%d", i))
			sp.SetStartTimestamp(pcommon.Timestamp(1_700_000_000_000_000_000 + uint64(i)*1000))
			sp.SetEndTimestamp(pcommon.Timestamp(1_700_000_000_000_000_000 + uint64(i)*1000 + uint64(i)))
		}
		return td
	case 1:
		ld := plog.NewLogs()
		sl := ld.ResourceLogs().AppendEmpty().ScopeLogs().AppendEmpty()
		for k := 0; k < n; k++ {
			i := base + k
			lr := sl.LogRecords().AppendEmpty()
			lr.SetSeverityText(fmt.Sprintf("sev-%d", i))
			lr.Body().SetStr(fmt.Sprintf("body-%d", i))
			lr.SetTraceID(pcommon.TraceID(id16(i)))
			lr.SetSpanID(pcommon.SpanID(id8(i)))
			lr.SetEventName(fmt.Sprintf("event-%d", i))
			lr.SetTimestamp(pcommon.Timestamp(1_700_000_000_000_000_000 + uint64(i)*1000))
			lr.SetObservedTimestamp(pcommon.Timestamp(1_700_000_000_000_000_000 + uint64(i)*3000))
			lr.SetSeverityNumber(plog.SeverityNumber(1 + i%24))
		}
		return ld
	default:
		md := pmetric.NewMetrics()
		sm := md.ResourceMetrics().AppendEmpty().ScopeMetrics().AppendEmpty()
		for k := 0; k < n; k++ {
			i := base + k
			m := sm.Metrics().AppendEmpty()
			m.SetName(fmt.Sprintf("metric-%d", i))
			m.SetDescription(fmt.Sprintf("description-%d", i))
			m.SetUnit(fmt.Sprintf("unit-%d", i))
			m.SetEmptyGauge().DataPoints().AppendEmpty().SetIntValue(int64(i))
		}
		return md
	}
}

// distinctRich: like distinctBatch, with every string column of the main record and of the related records fresh as well:
// when own is set each item sits in its own resource and scope (distinct schema urls, scope names and versions), and every
// item carries attributes with a fresh key and a fresh string value, and (traces) an event and a link, (metrics) a data
// point with an attribute and an exemplar.
func distinctRich(sig, n, base int, own bool) any {
	id8 := func(i int) [8]byte { return [8]byte{byte(i >> 24), byte(i >> 16), byte(i >> 8), byte(i), 3, 3, 3, 3} }
	id16 := func(i int) [16]byte {
		return [16]byte{byte(i >> 24), byte(i >> 16), byte(i >> 8), byte(i), 8, 7, 6, 5, 4, 3, 2, 1, 9, 9, 9, 9}
	}
	attrs := func(m pcommon.Map, tag string, i int) {
		m.PutStr(fmt.Sprintf("%s-key-%d", tag, i), fmt.Sprintf("%s-val-%d", tag, i))
		m.PutInt("n", int64(i))
		m.PutDouble("d", float64(i)+0.5)
		m.PutEmptyBytes("b").FromRaw([]byte(fmt.Sprintf("bytes-%d", i)))
	}
	res := func(r pcommon.Resource, i int) { attrs(r.Attributes(), "res", i) }
	scope := func(sc pcommon.InstrumentationScope, i int) {
		sc.SetName(fmt.Sprintf("scope-%d", i))
		sc.SetVersion(fmt.Sprintf("v-%d", i))
		attrs(sc.Attributes(), "scope", i)
	}
	switch sig {
	case 0:
		td := ptrace.NewTraces()
		var ss ptrace.ScopeSpans
		for k := 0; k < n; k++ {
			i := base + k
			if own || k == 0 {
				rs := td.ResourceSpans().AppendEmpty()
				rs.SetSchemaUrl(fmt.Sprintf("res-url-%d", i))
				res(rs.Resource(), i)
				ss = rs.ScopeSpans().AppendEmpty()
				ss.SetSchemaUrl(fmt.Sprintf("scope-url-%d", i))
				scope(ss.Scope(), i)
			}
			sp := ss.Spans().AppendEmpty()
			sp.SetName(fmt.Sprintf("name-%d", i))
			sp.SetTraceID(pcommon.TraceID(id16(i)))
			sp.SetSpanID(pcommon.SpanID(id8(i)))
			sp.SetParentSpanID(pcommon.SpanID(id8(i + 1000000)))
			sp.TraceState().FromRaw(fmt.Sprintf("k=%d", i))
			sp.Status().SetMessage(fmt.Sprintf("msg-%d", i))
			sp.Status().SetCode(ptrace.StatusCode(i)) // open enums: any int32 travels (dictionary-encoded 32-bit columns)
			sp.SetKind(ptrace.SpanKind(i))
			sp.SetStartTimestamp(pcommon.Timestamp(1_700_000_000_000_000_000 + uint64(i)*1000))
			sp.SetEndTimestamp(pcommon.Timestamp(1_700_000_000_000_000_000 + uint64(i)*1000 + uint64(i)))
			attrs(sp.Attributes(), "span", i)
			ev := sp.Events().AppendEmpty()
			ev.SetName(fmt.Sprintf("event-%d", i))
			ev.SetTimestamp(pcommon.Timestamp(1_700_000_000_000_000_000 + uint64(i)*7))
			attrs(ev.Attributes(), "ev", i)
			ln := sp.Links().AppendEmpty()
			ln.SetTraceID(pcommon.TraceID(id16(i + 5000000)))
			ln.SetSpanID(pcommon.SpanID(id8(i + 5000000)))
			ln.TraceState().FromRaw(fmt.Sprintf("l=%d", i))
			attrs(ln.Attributes(), "ln", i)
		}
		return td
	case 1:
		ld := plog.NewLogs()
		var sl plog.ScopeLogs
		for k := 0; k < n; k++ {
			i := base + k
			if own || k == 0 {
				rl := ld.ResourceLogs().AppendEmpty()
				rl.SetSchemaUrl(fmt.Sprintf("res-url-%d", i))
				res(rl.Resource(), i)
				sl = rl.ScopeLogs().AppendEmpty()
				sl.SetSchemaUrl(fmt.Sprintf("scope-url-%d", i))
				scope(sl.Scope(), i)
			}
			lr := sl.LogRecords().AppendEmpty()
			lr.SetSeverityText(fmt.Sprintf("sev-%d", i))
			switch i % 3 {
			case 0:
				lr.Body().SetStr(fmt.Sprintf("body-%d", i))
			case 1:
				lr.Body().SetEmptyBytes().FromRaw([]byte(fmt.Sprintf("body-bytes-%d", i)))
			default:
				lr.Body().SetEmptyMap().PutStr("k", fmt.Sprintf("body-map-%d", i))
			}
			lr.SetTraceID(pcommon.TraceID(id16(i)))
			lr.SetSpanID(pcommon.SpanID(id8(i)))
			lr.SetEventName(fmt.Sprintf("event-%d", i))
			lr.SetTimestamp(pcommon.Timestamp(1_700_000_000_000_000_000 + uint64(i)*1000))
			lr.SetObservedTimestamp(pcommon.Timestamp(1_700_000_000_000_000_000 + uint64(i)*3000))
			lr.SetSeverityNumber(plog.SeverityNumber(1 + i))
			attrs(lr.Attributes(), "log", i)
		}
		return ld
	default:
		md := pmetric.NewMetrics()
		var sm pmetric.ScopeMetrics
		for k := 0; k < n; k++ {
			i := base + k
			if own || k == 0 {
				rm := md.ResourceMetrics().AppendEmpty()
				rm.SetSchemaUrl(fmt.Sprintf("res-url-%d", i))
				res(rm.Resource(), i)
				sm = rm.ScopeMetrics().AppendEmpty()
				sm.SetSchemaUrl(fmt.Sprintf("scope-url-%d", i))
				scope(sm.Scope(), i)
			}
			m := sm.Metrics().AppendEmpty()
			m.SetName(fmt.Sprintf("metric-%d", i))
			m.SetDescription(fmt.Sprintf("description-%d", i))
			m.SetUnit(fmt.Sprintf("unit-%d", i))
			switch i % 3 {
			case 0:
				dp := m.SetEmptyGauge().DataPoints().AppendEmpty()
				dp.SetIntValue(int64(i))
				dp.SetTimestamp(pcommon.Timestamp(1_700_000_000_000_000_000 + uint64(i)*11))
				attrs(dp.Attributes(), "dp", i)
				ex := dp.Exemplars().AppendEmpty()
				ex.SetDoubleValue(float64(i))
				ex.SetTraceID(pcommon.TraceID(id16(i)))
				ex.SetSpanID(pcommon.SpanID(id8(i)))
				attrs(ex.FilteredAttributes(), "ex", i)
			case 1:
				dp := m.SetEmptySum().DataPoints().AppendEmpty()
				dp.SetDoubleValue(float64(i) / 3)
				attrs(dp.Attributes(), "dp", i)
			default:
				dp := m.SetEmptyHistogram().DataPoints().AppendEmpty()
				dp.SetCount(uint64(i))
				dp.BucketCounts().FromRaw([]uint64{uint64(i), 1})
				dp.ExplicitBounds().FromRaw([]float64{float64(i)})
				attrs(dp.Attributes(), "dp", i)
			}
		}
		return md
	}
}

// extremeBatch: valid OTLP far outside the sizes the generators draw — very long strings and keys, a very large value, tens of
// thousands of events / links / attributes / buckets on one item ("no domain restriction on strings or numbers").
func extremeBatch(sig int) any {
	long := func(n int, c byte) string { return strings.Repeat(string([]byte{c}), n) }
	switch sig {
	case 0:
		td := ptrace.NewTraces()
		rs := td.ResourceSpans().AppendEmpty()
		rs.SetSchemaUrl(long(70000, 'u'))
		rs.Resource().Attributes().PutStr(long(5000, 'k'), long(2_000_000, 'v'))
		ss := rs.ScopeSpans().AppendEmpty()
		ss.Scope().SetName(long(70000, 's'))
		sp := ss.Spans().AppendEmpty()
		sp.SetName(long(70000, 'n'))
		sp.Status().SetMessage(long(70000, 'm'))
		sp.TraceState().FromRaw(long(70000, 't'))
		sp.Attributes().PutEmptyBytes(long(3000, 'b')).FromRaw([]byte(long(1_500_000, 'x')))
		for i := 0; i < 1200; i++ {
			sp.Attributes().PutInt(fmt.Sprintf("a%d", i), int64(i))
		}
		for i := 0; i < 20001; i++ {
			sp.Events().AppendEmpty().SetName("e")
			sp.Links().AppendEmpty().SetSpanID(pcommon.SpanID([8]byte{1, 2, 3, 4, byte(i >> 8), byte(i), 1, 1}))
		}
		ss.Spans().AppendEmpty().SetName("plain")
		return td
	case 1:
		ld := plog.NewLogs()
		sl := ld.ResourceLogs().AppendEmpty().ScopeLogs().AppendEmpty()
		lr := sl.LogRecords().AppendEmpty()
		lr.Body().SetStr(long(2_000_000, 'b'))
		lr.SetSeverityText(long(70000, 's'))
		lr.SetEventName(long(70000, 'e'))
		lr.Attributes().PutStr(long(5000, 'k'), long(1_200_000, 'v'))
		lr2 := sl.LogRecords().AppendEmpty()
		lr2.Body().SetEmptyBytes().FromRaw([]byte(long(1_500_000, 'y')))
		m := sl.LogRecords().AppendEmpty().Body().SetEmptyMap()
		for i := 0; i < 20001; i++ {
			m.PutInt(fmt.Sprintf("k%d", i), int64(i))
		}
		return ld
	default:
		md := pmetric.NewMetrics()
		sm := md.ResourceMetrics().AppendEmpty().ScopeMetrics().AppendEmpty()
		m := sm.Metrics().AppendEmpty()
		m.SetName(long(70000, 'n'))
		m.SetUnit(long(70000, 'u'))
		m.SetDescription(long(1_200_000, 'd'))
		dp := m.SetEmptyHistogram().DataPoints().AppendEmpty()
		dp.SetCount(math.MaxUint64)
		bc := make([]uint64, 20001)
		eb := make([]float64, 20000)
		for i := range eb {
			bc[i], eb[i] = math.MaxUint64, float64(i)
		}
		dp.BucketCounts().FromRaw(bc)
		dp.ExplicitBounds().FromRaw(eb)
		dp.Attributes().PutStr(long(5000, 'k'), long(1_200_000, 'v'))
		for i := 0; i < 20001; i++ {
			dp.Exemplars().AppendEmpty().SetIntValue(math.MinInt64)
		}
		g := sm.Metrics().AppendEmpty()
		g.SetName("g")
		gp := g.SetEmptyGauge().DataPoints()
		for i := 0; i < 12000; i++ {
			gp.AppendEmpty().SetDoubleValue(math.Inf(-1))
		}
		return md
	}
}

func diagnosticOptions() []cfgpkg.Option {
	opts := []cfgpkg.Option{cfgpkg.WithSchemaStats(), cfgpkg.WithSchemaUpdates(), cfgpkg.WithRecordStats(), cfgpkg.WithProducerStats(), cfgpkg.WithCompressionRatioStats()}
	for _, pt := range []string{"SPANS", "LOGS", "UNIVARIATE_METRICS", "SPAN_ATTRS", "LOG_ATTRS", "RESOURCE_ATTRS", "SCOPE_ATTRS", "SPAN_EVENTS", "SPAN_LINKS", "NUMBER_DATA_POINTS",
		"HISTOGRAM_DATA_POINTS", "NUMBER_DP_ATTRS", "HISTOGRAM_DP_ATTRS", "NUMBER_DP_EXEMPLARS", "HISTOGRAM_DP_EXEMPLARS"} {
		opts = append(opts, cfgpkg.WithDumpRecordRows(pt, 4))
	}
	return opts
}

func smallTraces() ptrace.Traces { return manySpans(3, true, 1) }

func boundaryCases(tier string) []boundaryCase {
	cs := []boundaryCase{
		{Name: "65535 attribute-bearing spans (the id width exactly)", Batches: func() []any { return []any{manySpans(65535, true, 1)} }, Expect: []string{"ok"}},
		{Name: "65537 attribute-bearing spans", Batches: func() []any { return []any{manySpans(65537, true, 1), smallTraces()} }, Expect: []string{"error", "ok"}},
		{Name: "65537 log records with attributes", Batches: func() []any { return []any{manyLogs(65537)} }, Expect: []string{"error"}},
		{Name: "65537 metrics", Batches: func() []any { return []any{manyMetrics(65537)} }, Expect: []string{"error"}},
		{Name: "warm producer, 65537 resources (refused), then a valid batch", Batches: func() []any {
			return []any{smallTraces(), manySpans(65537, false, 65537), smallTraces()}
		}, Expect: []string{"ok", "error", "ok"}},
		{Name: "65537 link-only spans", Batches: func() []any {
			return []any{smallTraces(), spansOfKinds(65537, func(int) int { return 3 }), smallTraces()}
		}, Expect: []string{"ok", "error", "ok"}},
		{Name: "65537 event-only spans", Batches: func() []any {
			return []any{spansOfKinds(65537, func(int) int { return 2 }), smallTraces()}
		}, Expect: []string{"error", "ok"}},
		{Name: "40000 attribute-bearing + 30000 link-only spans (each kind alone fits the id width)", Batches: func() []any {
			return []any{spansOfKinds(70000, func(i int) int {
				if i < 40000 {
					return 1
				}
				return 3
			}), smallTraces()}
		}, Expect: []string{"error", "ok"}},
		{Name: "30000 attribute + 20000 event-only + 20000 link-only spans interleaved", Batches: func() []any {
			return []any{spansOfKinds(70000, func(i int) int { return []int{1, 2, 3, 1, 2, 3, 1}[i%7] }), smallTraces()}
		}, Expect: []string{"error", "ok"}},
		{Name: "70000 bare spans (no related data: no parent ids needed)", Batches: func() []any {
			return []any{spansOfKinds(70000, func(int) int { return 0 }), smallTraces()}
		}, Expect: []string{"any", "ok"}},
		{Name: "one gauge with 70000 data points: attributes / exemplar-only / bare", Batches: func() []any {
			return []any{pointsOfKinds(70000, func(i int) int { return i % 3 }), pointsOfKinds(70000, func(int) int { return 2 }), pointsOfKinds(70000, func(int) int { return 0 })}
		}, Expect: []string{"any", "any", "any"}},
		// per-batch counters must start afresh with every batch: three batches of 25,000 on one stream stay below the id width each
		{Name: "3 x 25000 log records with a valueless attribute only", Batches: repeatBatches(3, func() any { return logsValueless(25000) }), Expect: []string{"ok", "ok", "ok"}},
		{Name: "3 x 25000 spans with a valueless / empty-key attribute only", Batches: repeatBatches(3, func() any { return spansValueless(25000) }), Expect: []string{"ok", "ok", "ok"}},
		{Name: "3 x 25000 attribute-bearing spans", Batches: repeatBatches(3, func() any { return manySpans(25000, true, 1) }), Expect: []string{"ok", "ok", "ok"}},
		{Name: "3 x 25000 link-only spans", Batches: repeatBatches(3, func() any { return spansOfKinds(25000, func(int) int { return 3 }) }), Expect: []string{"ok", "ok", "ok"}},
		{Name: "3 x 25000 event-only spans", Batches: repeatBatches(3, func() any { return spansOfKinds(25000, func(int) int { return 2 }) }), Expect: []string{"ok", "ok", "ok"}},
		{Name: "3 x 23000 resources and scopes with a valueless attribute only", Batches: repeatBatches(3, func() any { return resourcesValueless(23000) }), Expect: []string{"ok", "ok", "ok"}},
		// many dictionary columns of one record crossing an index width in the same batch (one schema-update round must handle them all)
		{Name: "traces: 10, then 300, then 10 spans distinct in every column", Batches: func() []any {
			return []any{distinctBatch(0, 10, 0), distinctBatch(0, 300, 10), distinctBatch(0, 10, 310), smallTraces()}
		}, Expect: []string{"ok", "ok", "ok", "ok"}},
		{Name: "logs: 10, then 300 records distinct in every column", Batches: func() []any {
			return []any{distinctBatch(1, 10, 0), distinctBatch(1, 300, 10), distinctBatch(1, 10, 310)}
		}, Expect: []string{"ok", "ok", "ok"}},
		{Name: "metrics: 10, then 300 metrics distinct in every column", Batches: func() []any {
			return []any{distinctBatch(2, 10, 0), distinctBatch(2, 300, 10), distinctBatch(2, 10, 310)}
		}, Expect: []string{"ok", "ok", "ok"}},
		{Name: "uint8 dictionary limit, one batch with 300 span names x 10 (reset regime)", Options: []cfgpkg.Option{cfgpkg.WithUint8LimitDictIndex()}, Batches: func() []any {
			td := ptrace.NewTraces()
			ss := td.ResourceSpans().AppendEmpty().ScopeSpans().AppendEmpty()
			for rep := 0; rep < 10; rep++ {
				for i := 0; i < 300; i++ {
					ss.Spans().AppendEmpty().SetName(fmt.Sprintf("name-%d", i))
				}
			}
			return []any{td, smallTraces()}
		}, Expect: []string{"ok", "ok"}},
	}
	// identical resources and scopes that come back after different ones (A, B, A), under every span ordering (with no sorting at
	// all the encoder meets them in input order)
	abaTraces := func() any {
		td := ptrace.NewTraces()
		for i, name := range []string{"A", "B", "A", "C", "B"} {
			rs := td.ResourceSpans().AppendEmpty()
			rs.Resource().Attributes().PutStr("service.name", name)
			for j, sc := range []string{"x", "y", "x"} {
				ss := rs.ScopeSpans().AppendEmpty()
				ss.Scope().SetName(sc)
				sp := ss.Spans().AppendEmpty()
				sp.SetName(fmt.Sprintf("s-%d-%d", i, j))
				sp.Attributes().PutInt("i", int64(i))
			}
		}
		return td
	}
	for _, variant := range sortedKeysOf(cfgpkg.OrderSpanByVariants) {
		variant := variant
		cs = append(cs, boundaryCase{Name: "traces: resources A, B, A, C, B with scopes x, y, x under OrderSpanBy(" + variant + ")",
			Options: []cfgpkg.Option{cfgpkg.WithOrderSpanBy(cfgpkg.OrderSpanByVariants[variant])},
			Batches: func() []any { return []any{abaTraces(), abaTraces()} }, Expect: []string{"ok", "ok"}})
	}
	cs = append(cs,
		boundaryCase{Name: "logs: resources A, B, A with scopes x, y, x", Batches: func() []any {
			ld := plog.NewLogs()
			for _, name := range []string{"A", "B", "A"} {
				rl := ld.ResourceLogs().AppendEmpty()
				rl.Resource().Attributes().PutStr("service.name", name)
				for _, sc := range []string{"x", "y", "x"} {
					sl := rl.ScopeLogs().AppendEmpty()
					sl.Scope().SetName(sc)
					sl.LogRecords().AppendEmpty().Body().SetStr(name + sc)
				}
			}
			return []any{ld}
		}, Expect: []string{"ok"}},
		boundaryCase{Name: "metrics: resources A, B, A with scopes x, y, x", Batches: func() []any {
			md := pmetric.NewMetrics()
			for _, name := range []string{"A", "B", "A"} {
				rm := md.ResourceMetrics().AppendEmpty()
				rm.Resource().Attributes().PutStr("service.name", name)
				for _, sc := range []string{"x", "y", "x"} {
					sm := rm.ScopeMetrics().AppendEmpty()
					sm.Scope().SetName(sc)
					m := sm.Metrics().AppendEmpty()
					m.SetName(name + sc)
					m.SetEmptyGauge().DataPoints().AppendEmpty().SetIntValue(1)
				}
			}
			return []any{md}
		}, Expect: []string{"ok"}})
	// close to the id width, with schema updates on the way (every retry of the record builder must start from a clean slate)
	cs = append(cs,
		boundaryCase{Name: "60000 log records with attributes as the first batch of a stream", Batches: func() []any { return []any{manyLogs(60000), manyLogs(3)} }, Expect: []string{"ok", "ok"}},
		boundaryCase{Name: "a small logs batch, then 60000 records that use a new column", Batches: func() []any {
			big := manyLogs(60000)
			big.ResourceLogs().At(0).ScopeLogs().At(0).LogRecords().At(0).SetSeverityText("first use of this column")
			return []any{manyLogs(3), big}
		}, Expect: []string{"ok", "ok"}},
		boundaryCase{Name: "60000 metrics with a data point attribute as the first batch", Batches: func() []any {
			md := manyMetrics(60000)
			ms := md.ResourceMetrics().At(0).ScopeMetrics().At(0).Metrics()
			for i := 0; i < ms.Len(); i++ {
				ms.At(i).Gauge().DataPoints().At(0).Attributes().PutInt("i", int64(i%7))
			}
			return []any{md, manyMetrics(3)}
		}, Expect: []string{"ok", "ok"}},
		boundaryCase{Name: "a small traces batch, then 60000 attribute-bearing spans with a new column", Batches: func() []any {
			big := manySpans(60000, true, 1)
			big.ResourceSpans().At(0).ScopeSpans().At(0).Spans().At(0).Status().SetMessage("first use of this column")
			return []any{smallTraces(), big}
		}, Expect: []string{"ok", "ok"}})
	for sig, name := range []string{"traces", "logs", "metrics"} {
		sig := sig
		cs = append(cs,
			boundaryCase{Name: name + ": extreme sizes (70 KB names, 2 MB values, 20001 children of one item)", Batches: func() []any { return []any{extremeBatch(sig), extremeBatch(sig)} }, Expect: []string{"any", "any"}},
			boundaryCase{Name: name + ": extreme sizes with WithSchemaStats", Options: []cfgpkg.Option{cfgpkg.WithSchemaStats()}, Batches: func() []any { return []any{extremeBatch(sig), extremeBatch(sig)} }, Expect: []string{"any", "any"}},
			boundaryCase{Name: name + ": extreme sizes with all diagnostic options", Options: diagnosticOptions(), Batches: func() []any { return []any{distinctRich(sig, 30, 0, true), extremeBatch(sig)} }, Expect: []string{"any", "any"}})
	}
	return cs
}

func runBoundary(o opts, out *Output, stats map[string]int) {
	for ci, bc := range boundaryCases(o.tier) {
		pr := newProducerRun(bc.Options...)
		var hist []map[string]any
		for b, data := range bc.Batches() {
			res, site := pr.produceWithStack(data)
			stats["boundary_"+res.Class]++
			h := map[string]any{"items": itemCount(data), "class": res.Class, "msg": panicSite(res.Msg), "site": site, "expected": bc.Expect[b]}
			hist = append(hist, h)
			replay := map[string]any{"boundary_case": bc.Name, "batch": b, "history": hist}
			if res.Class == "panic" {
				out.Violation("C08", "producer-panic:"+site+":"+panicSite(res.Msg), fmt.Sprintf("producer panicked (%s), boundary case %q, batch %d: %s", site, bc.Name, b, res.Msg), replay)
				break
			}
			if bc.Expect[b] == "error" && res.Class != "error" {
				out.Violation("C08", "overflow-not-refused", fmt.Sprintf("boundary case %q, batch %d: more parents than the id width allows were not refused with an error (result %s)", bc.Name, b, res.Class), replay)
			}
			if bc.Expect[b] == "ok" && res.Class != "ok" {
				// C08 allows "a batch or an error": a refused representable batch is a matter for the round-trip properties
				// (C01-C03), recorded here as an observation only
				stats["boundary_representable_batch_refused"]++
			}
		}
		func() {
			defer func() { recover() }()
			pr.p.Close()
		}()
		out.AddCase(map[string]any{"boundary_case": ci, "name": bc.Name, "history": hist}, true, "boundary")
	}
}
