package main

import (
	"fmt"

	"go.opentelemetry.io/collector/pdata/pcommon"
	"go.opentelemetry.io/collector/pdata/plog"
	"go.opentelemetry.io/collector/pdata/pmetric"
	"go.opentelemetry.io/collector/pdata/ptrace"
)

// Shape parameters of a generated request.
type Shape struct {
	MaxRes, MaxScopes, MaxItems, MaxMetrics int
	MinItems                                int // at least this many items overall (retry until reached)
}

type Gen struct {
	r   *Rng
	uid uint64 // unique item counter (per case)
}

func (g *Gen) next() uint64 { g.uid++; return g.uid }

func (g *Gen) fillResource(res pcommon.Resource) {
	k := g.r.Intn(3)
	res.Attributes().PutStr("res", fmt.Sprintf("r%d", k))
	if g.r.Chance(30) {
		res.Attributes().PutInt("n", int64(g.r.Intn(2)))
	}
	if g.r.Chance(20) {
		res.SetDroppedAttributesCount(uint32(g.r.Intn(3)))
	}
}

func (g *Gen) schemaURL() string {
	switch g.r.Intn(4) {
	case 0:
		return ""
	case 1:
		return "https://example.test/schema/a"
	default:
		return fmt.Sprintf("https://example.test/schema/%d", g.r.Intn(3))
	}
}

func (g *Gen) fillScope(sc pcommon.InstrumentationScope) {
	sc.SetName(fmt.Sprintf("scope%d", g.r.Intn(3)))
	if g.r.Chance(50) {
		sc.SetVersion(fmt.Sprintf("v%d", g.r.Intn(2)))
	}
	if g.r.Chance(30) {
		sc.Attributes().PutStr("sa", fmt.Sprintf("x%d", g.r.Intn(2)))
	}
}

func (g *Gen) Traces(sh Shape) ptrace.Traces {
	for {
		td := ptrace.NewTraces()
		nr := 1 + g.r.Intn(sh.MaxRes)
		for i := 0; i < nr; i++ {
			rs := td.ResourceSpans().AppendEmpty()
			g.fillResource(rs.Resource())
			rs.SetSchemaUrl(g.schemaURL())
			ns := g.r.Intn(sh.MaxScopes + 1)
			for j := 0; j < ns; j++ {
				ss := rs.ScopeSpans().AppendEmpty()
				g.fillScope(ss.Scope())
				ss.SetSchemaUrl(g.schemaURL())
				ni := g.r.Intn(sh.MaxItems + 1)
				for k := 0; k < ni; k++ {
					id := g.next()
					sp := ss.Spans().AppendEmpty()
					sp.SetName(fmt.Sprintf("s%d", id))
					sp.SetStartTimestamp(pcommon.Timestamp(1000 + id))
					sp.SetEndTimestamp(pcommon.Timestamp(2000 + id))
					sp.SetSpanID(pcommon.SpanID{byte(id), byte(id >> 8), 1, 2, 3, 4, 5, 6})
					sp.Attributes().PutInt("id", int64(id))
					if g.r.Chance(30) {
						ev := sp.Events().AppendEmpty()
						ev.SetName("e")
						ev.Attributes().PutStr("k", "v")
					}
				}
			}
		}
		if td.SpanCount() >= sh.MinItems {
			return td
		}
	}
}

func (g *Gen) Logs(sh Shape) plog.Logs {
	for {
		ld := plog.NewLogs()
		nr := 1 + g.r.Intn(sh.MaxRes)
		for i := 0; i < nr; i++ {
			rs := ld.ResourceLogs().AppendEmpty()
			g.fillResource(rs.Resource())
			rs.SetSchemaUrl(g.schemaURL())
			ns := g.r.Intn(sh.MaxScopes + 1)
			for j := 0; j < ns; j++ {
				ss := rs.ScopeLogs().AppendEmpty()
				g.fillScope(ss.Scope())
				ss.SetSchemaUrl(g.schemaURL())
				ni := g.r.Intn(sh.MaxItems + 1)
				for k := 0; k < ni; k++ {
					id := g.next()
					lr := ss.LogRecords().AppendEmpty()
					lr.Body().SetStr(fmt.Sprintf("log %d", id))
					lr.SetTimestamp(pcommon.Timestamp(1000 + id))
					lr.SetSeverityNumber(plog.SeverityNumber(1 + id%20))
					lr.Attributes().PutInt("id", int64(id))
				}
			}
		}
		if ld.LogRecordCount() >= sh.MinItems {
			return ld
		}
	}
}

func (g *Gen) Metrics(sh Shape) pmetric.Metrics {
	for {
		md := pmetric.NewMetrics()
		nr := 1 + g.r.Intn(sh.MaxRes)
		for i := 0; i < nr; i++ {
			rs := md.ResourceMetrics().AppendEmpty()
			g.fillResource(rs.Resource())
			rs.SetSchemaUrl(g.schemaURL())
			ns := g.r.Intn(sh.MaxScopes + 1)
			for j := 0; j < ns; j++ {
				ss := rs.ScopeMetrics().AppendEmpty()
				g.fillScope(ss.Scope())
				ss.SetSchemaUrl(g.schemaURL())
				nm := g.r.Intn(sh.MaxMetrics + 1)
				for k := 0; k < nm; k++ {
					m := ss.Metrics().AppendEmpty()
					m.SetName(fmt.Sprintf("metric%d", g.r.Intn(4)))
					if g.r.Chance(50) {
						m.SetDescription("desc")
					}
					if g.r.Chance(50) {
						m.SetUnit("ms")
					}
					if g.r.Chance(40) {
						m.Metadata().PutStr("md", fmt.Sprintf("m%d", g.r.Intn(2)))
					}
					np := g.r.Intn(sh.MaxItems + 1)
					ts := func() pcommon.Timestamp { return pcommon.Timestamp(1000 + g.next()) }
					switch g.r.Intn(6) {
					case 0:
						dps := m.SetEmptyGauge().DataPoints()
						for q := 0; q < np; q++ {
							p := dps.AppendEmpty()
							p.SetTimestamp(ts())
							p.SetIntValue(int64(q))
						}
					case 1:
						s := m.SetEmptySum()
						s.SetAggregationTemporality(pmetric.AggregationTemporality(1 + g.r.Intn(2)))
						s.SetIsMonotonic(g.r.Bool())
						for q := 0; q < np; q++ {
							p := s.DataPoints().AppendEmpty()
							p.SetTimestamp(ts())
							p.SetDoubleValue(float64(q) + 0.5)
						}
					case 2:
						h := m.SetEmptyHistogram()
						h.SetAggregationTemporality(pmetric.AggregationTemporality(1 + g.r.Intn(2)))
						for q := 0; q < np; q++ {
							p := h.DataPoints().AppendEmpty()
							p.SetTimestamp(ts())
							p.SetCount(uint64(q))
							p.SetSum(float64(q))
							p.BucketCounts().FromRaw([]uint64{1, 2})
							p.ExplicitBounds().FromRaw([]float64{1})
						}
					case 3:
						h := m.SetEmptyExponentialHistogram()
						h.SetAggregationTemporality(pmetric.AggregationTemporality(1 + g.r.Intn(2)))
						for q := 0; q < np; q++ {
							p := h.DataPoints().AppendEmpty()
							p.SetTimestamp(ts())
							p.SetCount(uint64(q))
							p.SetScale(2)
							p.Positive().BucketCounts().FromRaw([]uint64{3})
						}
					case 4:
						s := m.SetEmptySummary()
						for q := 0; q < np; q++ {
							p := s.DataPoints().AppendEmpty()
							p.SetTimestamp(ts())
							p.SetCount(uint64(q))
							qv := p.QuantileValues().AppendEmpty()
							qv.SetQuantile(0.5)
							qv.SetValue(1)
						}
					default: // metric of type Empty: no points
					}
				}
			}
		}
		if md.DataPointCount() >= sh.MinItems {
			return md
		}
	}
}
