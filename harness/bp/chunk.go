package main

import (
	"fmt"
	"regexp"
	"strings"
)

// chunkLongLists rewrites `Definition NAME : list T := [ e1; e2; … ].` whose elements stand one per line and number more
// than 4000 as the concatenation of chunks of 2000: coqc parses a list literal recursively and overflows its stack
// on very long ones (thorough tier).
func chunkLongLists(coq string) string {
	re := regexp.MustCompile(`(?ms)^Definition (\w+) : (list [^\n]*?) := \[\n(.*?)\n\]\.\n`)
	return re.ReplaceAllStringFunc(coq, func(m string) string {
		sm := re.FindStringSubmatch(m)
		name, typ, body := sm[1], sm[2], sm[3]
		lines := strings.Split(body, "\n")
		if len(lines) <= 4000 {
			return m
		}
		for i, l := range lines {
			if i < len(lines)-1 && !strings.HasSuffix(l, ";") {
				return m // elements span several lines: leave it alone
			}
		}
		var sb strings.Builder
		var names []string
		for k := 0; k*2000 < len(lines); k++ {
			hi := (k + 1) * 2000
			if hi > len(lines) {
				hi = len(lines)
			}
			part := append([]string{}, lines[k*2000:hi]...)
			part[len(part)-1] = strings.TrimSuffix(part[len(part)-1], ";")
			cn := fmt.Sprintf("%s_chunk%d", name, k)
			names = append(names, cn)
			fmt.Fprintf(&sb, "Definition %s : %s := [\n%s\n].\n", cn, typ, strings.Join(part, "\n"))
		}
		fmt.Fprintf(&sb, "Definition %s : %s := %s.\n", name, typ, strings.Join(names, " ++ "))
		return sb.String()
	})
}
