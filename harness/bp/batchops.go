package main

// bp batch: random op sequences (add a request / splitBatch with the configured maximum) on the real
// per-signal batch accumulator (batchTraces / batchLogs / batchMetrics, through the VerifBatch hook),
// compared with Shard.v's `split_batch` and the `add` step of `process_item`.  Every returned request
// is rendered when it is returned and again at the end of the sequence: a request that changes after
// it left the accumulator shares memory with the live buffer (what an export goroutine reads while the
// shard goroutine keeps writing).

import (
	"fmt"
	"strings"

	cbp "github.com/open-telemetry/otel-arrow/collector/processor/concurrentbatchprocessor"
	"go.opentelemetry.io/collector/pdata/plog"
	"go.opentelemetry.io/collector/pdata/pmetric"
	"go.opentelemetry.io/collector/pdata/ptrace"
)

func forestOf(in *Interner, d any) []*Node {
	switch x := d.(type) {
	case ptrace.Traces:
		return TracesForest(in, x)
	case plog.Logs:
		return LogsForest(in, x)
	case pmetric.Metrics:
		return MetricsForest(in, x)
	}
	return nil
}

func runBatch(r *Rng, n int, out *Output) {
	var c1, c2 strings.Builder
	c1.WriteString("Definition batch1_cases : list (N * list (bop 1) * list (N * list (T 2)) * N * list (T 2)) := [\n")
	c2.WriteString("Definition batch2_cases : list (N * list (bop 2) * list (N * list (T 3)) * N * list (T 3)) := [\n")
	n1, n2 := 0, 0
	stats := map[string]int{}
	for i := 0; i < n; i++ {
		g := &Gen{r: r.Fork()}
		in := NewInterner()
		sig := r.Intn(3)
		max := []int{0, 1, 2, 3, 4, 4, 6}[r.Intn(7)]
		depth := 1
		if sig == 2 {
			depth = 2
		}
		vb := cbp.VerifNewBatch(sig)
		type splitObs struct {
			sent     int
			req      any
			atReturn string
		}
		var ops []string
		var obsv []splitObs
		nops := 3 + r.Intn(9)
		exact := 0
		for k := 0; k < nops; k++ {
			doSplit := vb.ItemCount() > 0 && r.Chance(45)
			if k == nops-1 && vb.ItemCount() > 0 && r.Bool() {
				doSplit = true
			}
			if doSplit {
				if max > 0 && vb.ItemCount() == max {
					exact++
				}
				sent, req := vb.SplitBatch(max)
				obsv = append(obsv, splitObs{sent, req, ForestString(forestOf(in, req))})
				ops = append(ops, fmt.Sprintf("@BSplit %d", depth))
				continue
			}
			sh := Shape{MaxRes: 1 + r.Intn(2), MaxScopes: 1 + r.Intn(2), MaxItems: 1 + r.Intn(3), MaxMetrics: 1 + r.Intn(2), MinItems: 1}
			var d any
			switch sig {
			case 0:
				d = g.Traces(sh)
			case 1:
				d = g.Logs(sh)
			default:
				d = g.Metrics(sh)
			}
			ops = append(ops, fmt.Sprintf("BAdd%d %s", depth, ForestString(forestOf(in, d))))
			vb.Add(d)
		}
		stats["exact_boundary_splits"] += exact
		stats["splits"] += len(obsv)
		var os []string
		obs := map[string]any{"signal": []string{"traces", "logs", "metrics"}[sig], "max": max, "ops": ops}
		for j, so := range obsv {
			os = append(os, fmt.Sprintf("(%d, %s)", so.sent, so.atReturn))
			// Go-side oracles (failing inputs for the report)
			now := ForestString(forestOf(in, so.req))
			if now != so.atReturn {
				msg := fmt.Sprintf("the request returned by splitBatch #%d (%d items, send_batch_max_size %d) changed after later add/splitBatch calls: it shares memory with the live buffer", j, so.sent, max)
				out.Violation("C05", "request-aliases-live-buffer", msg, obs)
				out.Violation("C11", "request-aliases-live-buffer", msg+" (the export goroutine reads it while the shard goroutine writes)", obs)
			}
			items := len(Flatten(forestOf(in, so.req)))
			if so.sent == 0 || items == 0 {
				out.Violation("C09", "empty-export", fmt.Sprintf("splitBatch #%d returned an empty request (sent=%d, items=%d)", j, so.sent, items), obs)
			}
			if max > 0 && (so.sent > max || items > max) {
				out.Violation("C09", "over-max-size", fmt.Sprintf("splitBatch #%d returned %d items (declared %d) > send_batch_max_size %d", j, items, so.sent, max), obs)
			}
		}
		finalCnt := vb.ItemCount()
		finalBuf := forestOf(in, vb.Buffer())
		if got := len(Flatten(finalBuf)); got != finalCnt {
			msg := fmt.Sprintf("after the sequence itemCount() = %d but the buffer holds %d items (they are never flushed / flushed twice)", finalCnt, got)
			out.Violation("C05", "count-buffer-disagree", msg, obs)
			out.Violation("C11", "count-buffer-disagree", msg, obs)
		}
		line := fmt.Sprintf(" (%d, [%s], [%s], %d, %s)", max, strings.Join(ops, "; "), strings.Join(os, "; "), finalCnt, ForestString(finalBuf))
		kind := fmt.Sprintf("%s max=%d exact=%v", obs["signal"], max, exact > 0)
		if depth == 2 {
			if n2 > 0 {
				c2.WriteString(";\n")
			}
			c2.WriteString(line)
			n2++
			out.AddCaseTagged("batch2", obs, len(obsv) > 0, kind)
		} else {
			if n1 > 0 {
				c1.WriteString(";\n")
			}
			c1.WriteString(line)
			n1++
			out.AddCaseTagged("batch1", obs, len(obsv) > 0, kind)
		}
	}
	c1.WriteString("\n].\n")
	c2.WriteString("\n].\n")
	out.Coq.WriteString(`Inductive bop (d : nat) := BAdd (f : list (T (S d))) | BSplit.
Arguments BAdd {d}. Arguments BSplit {d}.
Definition BAdd1 (f : list (T 2)) : bop 1 := BAdd f.
Definition BAdd2 (f : list (T 3)) : bop 2 := BAdd f.
(* the accumulator of Shard.v: process_item's add and sendItems' split_batch, without the waiters *)
Fixpoint batch_run (d : nat) (c : cfg) (s : shard d) (ops : list (bop d)) : list (N * list (T (S d))) * shard d :=
  match ops with
  | [] => ([], s)
  | BAdd f :: tl =>
      let n := count_list (S d) f in
      batch_run d c {| buf := if n =? 0 then buf d s else buf d s ++ f; cnt := cnt d s + n; pending := []; total_sent := 0 |} tl
  | BSplit :: tl =>
      let '(sent, req, buf', cnt') := split_batch d c s in
      let '(os, s') := batch_run d c {| buf := buf'; cnt := cnt'; pending := []; total_sent := 0 |} tl in
      ((sent, req) :: os, s')
  end.
`)
	out.Coq.WriteString(c1.String())
	out.Coq.WriteString(c2.String())
	out.Coq.WriteString(`Definition batch_check (d : nat) (c : N * list (bop d) * list (N * list (T (S d))) * N * list (T (S d))) : bool :=
  let '(max, ops, obs, fcnt, fbuf) := c in
  let '(mos, ms) := batch_run d {| send_size := 0; max_size := max; timer := false |} (init d) ops in
  list_eqb (fun a b : N * list (T (S d)) => N.eqb (fst a) (fst b) && forest_eqb (S d) (snd a) (snd b)) mos obs &&
  N.eqb (cnt d ms) fcnt && forest_eqb (S d) (buf d ms) fbuf.
(* the property on the real outputs alone: every request is non-empty, within the maximum, declares its real size;
   requests followed by the final buffer are exactly the items added, in order, with their container identities *)
Definition added (d : nat) (ops : list (bop d)) : list (list ident * N) :=
  flat_map (fun o => match o with BAdd f => flat_list (S d) f | BSplit => [] end) ops.
Definition flat_eqb := list_eqb (fun (a b : list ident * N) => list_eqb ident_eqb (fst a) (fst b) && N.eqb (snd a) (snd b)).
Definition batch_prop (d : nat) (c : N * list (bop d) * list (N * list (T (S d))) * N * list (T (S d))) : bool :=
  let '(max, ops, obs, fcnt, fbuf) := c in
  forallb (fun o : N * list (T (S d)) => (0 <? fst o) && N.eqb (fst o) (count_list (S d) (snd o)) && ((max =? 0) || (fst o <=? max))) obs &&
  flat_eqb (flat_map (fun o : N * list (T (S d)) => flat_list (S d) (snd o)) obs ++ flat_list (S d) fbuf) (added d ops) &&
  N.eqb fcnt (count_list (S d) fbuf).
Definition batch1_mismatch := Eval vm_compute in failing (batch_check 1) batch1_cases.
Definition batch1_propfail := Eval vm_compute in failing (batch_prop 1) batch1_cases.
Definition batch2_mismatch := Eval vm_compute in failing (batch_check 2) batch2_cases.
Definition batch2_propfail := Eval vm_compute in failing (batch_prop 2) batch2_cases.
Print batch1_mismatch.
Print batch1_propfail.
Print batch2_mismatch.
Print batch2_propfail.
`)
	out.Lists = append(out.Lists, "batch1_mismatch", "batch1_propfail", "batch2_mismatch", "batch2_propfail")
	out.Extra["stats"] = stats
}
