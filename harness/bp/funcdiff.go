package main

// Function-level differentials: allSameContext / parentSpans (C18) and
// splitTraces / splitLogs / splitMetrics (C05).

import (
	"context"
	"fmt"
	"strings"

	cbp "github.com/open-telemetry/otel-arrow/collector/processor/concurrentbatchprocessor"
	"go.opentelemetry.io/otel/trace"
)

// spanVariant: which span each of the three context labels carries (0 = no span at all).
// Contexts are always distinct objects; they may share a span (one traced request fanned out into
// several derived contexts) or carry none.
var spanVariants = [][]int{
	{0, 1, 2, 3}, // distinct spans
	{0, 1, 1, 2}, // contexts 1 and 2 share a span
	{0, 1, 1, 1}, // all three share one span
	{0, 0, 1, 0}, // only context 2 is traced
}

func labelledCtxSpan(label, span int) context.Context {
	ctx := context.Background()
	if span != 0 {
		sc := trace.NewSpanContext(trace.SpanContextConfig{
			TraceID: trace.TraceID{1, 2, 3, 4, 5, 6, 7, 8, 9, 10, 11, 12, 13, 14, 15, byte(span)},
			SpanID:  trace.SpanID{0, 0, 0, 0, 0, 0, 0, byte(span)},
		})
		ctx = trace.ContextWithSpanContext(ctx, sc)
	}
	return context.WithValue(ctx, cbp.VerifCtxKey{}, label)
}

func coqNList(xs []int) string {
	ss := make([]string, len(xs))
	for i, x := range xs {
		ss[i] = fmt.Sprint(x)
	}
	return "[" + strings.Join(ss, ";") + "]"
}

// runCtx enumerates every contributor pattern of length 1..maxLen over 3 contexts, for every span variant.
func runCtx(maxLen, nLabels int, out *Output) {
	var sb strings.Builder
	sb.WriteString("Definition ctx_cases : list (list N * list N * bool * N * list N) := [\n")
	first := true
	for vi, variant := range spanVariants {
		ctxs := make([]context.Context, nLabels+1)
		for i := 1; i <= nLabels; i++ {
			ctxs[i] = labelledCtxSpan(i, variant[i])
		}
		var rec func(pat []int)
		emit := func(pat []int) {
			cs := make([]context.Context, len(pat))
			for i, l := range pat {
				cs[i] = ctxs[l]
			}
			same := cbp.VerifAllSameContext(cs)
			obs := map[string]any{"pattern": append([]int{}, pat...), "spans_of_ctx": variant[1:], "all_same": same}
			caller := 0
			var links []int
			if same {
				caller = pat[0]
				obs["export_ctx"] = fmt.Sprintf("caller %d", pat[0])
			} else {
				spans := cbp.VerifParentSpans(cs)
				links = make([]int, len(spans))
				for i, s := range spans {
					sid := s.SpanContext().SpanID()
					links[i] = int(sid[7])
				}
				obs["export_ctx"] = "shard"
				obs["links"] = links
			}
			if !first {
				sb.WriteString(";\n")
			}
			first = false
			fmt.Fprintf(&sb, " (%s, %s, %v, %d, %s)", coqNList(pat), coqNList(variant), same, caller, coqNList(links))
			distinct := map[int]bool{}
			for _, l := range pat {
				distinct[l] = true
			}
			out.AddCase(obs, len(distinct) > 1, fmt.Sprintf("variant=%d len=%d distinct=%d", vi, len(pat), len(distinct)))
		}
		rec = func(pat []int) {
			if len(pat) > 0 {
				emit(pat)
			}
			if len(pat) == maxLen {
				return
			}
			for l := 1; l <= nLabels; l++ {
				rec(append(pat, l))
			}
		}
		rec(nil)
	}
	sb.WriteString("\n].\n")
	sb.WriteString(`(* case = (contributor contexts, span carried by context i (0 = none), observed allSameContext,
   observed caller context (0 = shard), observed linked spans) *)
Definition ctx_check (c : list N * list N * bool * N * list N) : bool :=
  let '(pat, spans, same, caller, links) := c in
  match export_plan pat with
  | Some {| p_ctx := FromCaller d; p_links := _ |} => same && N.eqb caller d
  | Some {| p_ctx := FromShard; p_links := ls |} =>
      negb same && list_eqb N.eqb (map (fun l => nth (N.to_nat l) spans 0) ls) links
  | None => false
  end.
Definition ctx_prop (c : list N * list N * bool * N * list N) : bool :=
  let '(pat, spans, same, caller, links) := c in
  if same then forallb (N.eqb caller) pat
  else forallb (fun l => existsb (N.eqb (nth (N.to_nat l) spans 0)) links) pat.
Definition ctx_mismatch := Eval vm_compute in failing ctx_check ctx_cases.
Definition ctx_propfail := Eval vm_compute in failing ctx_prop ctx_cases.
Print ctx_mismatch.
Print ctx_propfail.
`)
	out.Coq.WriteString(sb.String())
	out.Lists = append(out.Lists, "ctx_mismatch", "ctx_propfail")
	out.Exhaustive = true
}

// runSplit: random forests, every signal.
func runSplit(r *Rng, n int, out *Output) {
	var tr, mt strings.Builder // depth-1 cases (traces, logs), depth-2 cases (metrics)
	tr.WriteString("Definition split1_cases : list (N * list (T 2) * list (T 2) * list (T 2)) := [\n")
	mt.WriteString("Definition split2_cases : list (N * list (T 3) * list (T 3) * list (T 3)) := [\n")
	nt, nm := 0, 0
	for i := 0; i < n; i++ {
		g := &Gen{r: r.Fork()}
		in := NewInterner()
		sh := Shape{MaxRes: 1 + r.Intn(4), MaxScopes: 1 + r.Intn(3), MaxItems: 2 + r.Intn(4), MaxMetrics: 1 + r.Intn(3), MinItems: 2}
		sig := r.Intn(3)
		var src, dst, rest []*Node
		var total, size int
		pick := func(tot int) int {
			// mostly a strict split; sometimes size >= total (nothing to split)
			if r.Chance(10) {
				return tot + r.Intn(2)
			}
			return 1 + r.Intn(tot-1)
		}
		switch sig {
		case 0:
			td := g.Traces(sh)
			src = TracesForest(in, td)
			total = td.SpanCount()
			size = pick(total)
			d := cbp.VerifSplitTraces(size, td)
			dst, rest = TracesForest(in, d), TracesForest(in, td)
		case 1:
			ld := g.Logs(sh)
			src = LogsForest(in, ld)
			total = ld.LogRecordCount()
			size = pick(total)
			d := cbp.VerifSplitLogs(size, ld)
			dst, rest = LogsForest(in, d), LogsForest(in, ld)
		default:
			md := g.Metrics(sh)
			src = MetricsForest(in, md)
			total = md.DataPointCount()
			size = pick(total)
			d := cbp.VerifSplitMetrics(size, md)
			dst, rest = MetricsForest(in, d), MetricsForest(in, md)
		}
		obs := map[string]any{"signal": []string{"traces", "logs", "metrics"}[sig], "size": size, "total": total,
			"src": ForestString(src), "dst": ForestString(dst), "rest": ForestString(rest)}
		kind := fmt.Sprintf("%s total=%s", obs["signal"], bucket(total))
		if size >= total {
			// the source itself is returned: compare on the Go side only
			if ForestString(dst) != ForestString(src) {
				out.Violation("C05", "split-noop-changed", "split with size >= count does not return the source unchanged", obs)
			}
			out.AddCase(obs, false, kind+" nosplit")
			continue
		}
		// Go-side oracle of the property (used for the failing-input search as well)
		if msg := conservation(src, dst, rest, size); msg != "" {
			out.Violation("C05", "split-not-conserving", msg, obs)
		}
		line := fmt.Sprintf(" (%d, %s, %s, %s)", size, ForestString(src), ForestString(dst), ForestString(rest))
		if sig == 2 {
			if nm > 0 {
				mt.WriteString(";\n")
			}
			mt.WriteString(line)
			nm++
			out.AddCaseTagged("split2", obs, true, kind)
		} else {
			if nt > 0 {
				tr.WriteString(";\n")
			}
			tr.WriteString(line)
			nt++
			out.AddCaseTagged("split1", obs, true, kind)
		}
	}
	tr.WriteString("\n].\n")
	mt.WriteString("\n].\n")
	out.Coq.WriteString(tr.String())
	out.Coq.WriteString(mt.String())
	out.Coq.WriteString(`Definition flat_eqb := list_eqb (fun (a b : list ident * N) => list_eqb ident_eqb (fst a) (fst b) && N.eqb (snd a) (snd b)).
Definition split_check (d : nat) (c : N * list (T (S d)) * list (T (S d)) * list (T (S d))) : bool :=
  let '(size, src, dst, rst) := c in
  let '(mdst, mrst) := split copy_ident size d src in
  forest_eqb (S d) mdst dst && forest_eqb (S d) mrst rst.
Definition split_prop (d : nat) (c : N * list (T (S d)) * list (T (S d)) * list (T (S d))) : bool :=
  let '(size, src, dst, rst) := c in
  flat_eqb (flat_list (S d) dst ++ flat_list (S d) rst) (flat_list (S d) src) && N.eqb (count_list (S d) dst) size.
Definition split1_mismatch := Eval vm_compute in failing (split_check 1) split1_cases.
Definition split1_propfail := Eval vm_compute in failing (split_prop 1) split1_cases.
Definition split2_mismatch := Eval vm_compute in failing (split_check 2) split2_cases.
Definition split2_propfail := Eval vm_compute in failing (split_prop 2) split2_cases.
Print split1_mismatch.
Print split1_propfail.
Print split2_mismatch.
Print split2_propfail.
`)
	out.Lists = append(out.Lists, "split1_mismatch", "split1_propfail", "split2_mismatch", "split2_propfail")
}

func bucket(n int) string {
	switch {
	case n <= 3:
		return "1-3"
	case n <= 10:
		return "4-10"
	case n <= 30:
		return "11-30"
	default:
		return ">30"
	}
}

// conservation: items of dst followed by items of rest = items of src, with container identities.
func conservation(src, dst, rest []*Node, size int) string {
	a := append(Flatten(dst), Flatten(rest)...)
	b := Flatten(src)
	if len(Flatten(dst)) != size {
		return fmt.Sprintf("split returned %d items, want %d", len(Flatten(dst)), size)
	}
	if len(a) != len(b) {
		return fmt.Sprintf("item count changed: %d -> %d", len(b), len(a))
	}
	for i := range a {
		if a[i] != b[i] {
			return fmt.Sprintf("item %d changed: %v -> %v (identity path or content)", i, b[i], a[i])
		}
	}
	return ""
}
