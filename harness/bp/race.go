package main

// C10 stress: many goroutines released together, each the first arrival of a distinct new
// metadata combination, racing for the last free slots under a small cardinality limit.

import (
	"context"
	"fmt"
	"runtime"
	"strings"
	"sync"
	"sync/atomic"
	"time"

	cbp "github.com/open-telemetry/otel-arrow/collector/processor/concurrentbatchprocessor"
	"go.opentelemetry.io/collector/client"
	"go.opentelemetry.io/collector/component/componenttest"
	"go.opentelemetry.io/collector/consumer/consumererror"
	"go.opentelemetry.io/collector/processor/processortest"
)

func runRace(r *Rng, rounds int, out *Output) {
	var ab strings.Builder
	ab.WriteString("Definition adm_cases : list (N * list N * bool) := [\n")
	nWorkers := runtime.NumCPU()
	if nWorkers < 4 {
		nWorkers = 4
	}
	if nWorkers > 16 {
		nWorkers = 16
	}
	stats := map[string]int{}
	for round := 0; round < rounds; round++ {
		limit := uint32(1 + r.Intn(3))
		preload := r.Intn(int(limit)) // combinations admitted before the race
		var seq int64
		sk := &sink{seq: &seq, in: NewInterner(), cfg: sysCfg{MetaKeys: []string{"tenant"}}, injected: map[int]error{}, startTime: time.Now()}
		f := cbp.NewFactory()
		cfg := f.CreateDefaultConfig().(*cbp.Config)
		cfg.SendBatchSize = 1
		cfg.Timeout = 0
		cfg.MetadataKeys = []string{"tenant"}
		cfg.MetadataCardinalityLimit = limit
		cfg.EarlyReturn = true
		cbp.VerifReset()
		tp, err := f.CreateTraces(context.Background(), processortest.NewNopSettings(f.Type()), cfg, sk)
		if err != nil {
			panic(err)
		}
		_ = tp.Start(context.Background(), componenttest.NewNopHost())
		g := &Gen{r: r.Fork()}
		mkctx := func(t string) context.Context {
			return client.NewContext(context.Background(), client.Info{Metadata: client.NewMetadata(map[string][]string{"tenant": {t}})})
		}
		for i := 0; i < preload; i++ {
			_ = tp.ConsumeTraces(mkctx(fmt.Sprintf("pre%d", i)), g.Traces(Shape{1, 1, 2, 1, 1}))
		}
		var start sync.WaitGroup
		var done sync.WaitGroup
		var ready int32
		results := make([]error, nWorkers)
		start.Add(1)
		for w := 0; w < nWorkers; w++ {
			done.Add(1)
			td := g.Traces(Shape{1, 1, 2, 1, 1})
			go func(w int) {
				defer done.Done()
				ctx := mkctx(fmt.Sprintf("t%d", w))
				atomic.AddInt32(&ready, 1)
				start.Wait()
				results[w] = tp.ConsumeTraces(ctx, td)
			}(w)
		}
		for atomic.LoadInt32(&ready) < int32(nWorkers) {
			runtime.Gosched()
		}
		start.Done()
		done.Wait()
		_ = tp.Shutdown(context.Background())
		admitted, refused := preload, 0
		var adm []string
		for i := 0; i < preload; i++ {
			adm = append(adm, fmt.Sprint(1000+i))
		}
		for w, e := range results {
			if e == nil {
				admitted++
				adm = append(adm, fmt.Sprint(w+1))
			} else {
				refused++
				if !consumererror.IsPermanent(e) {
					out.Violation("C10", "limit-error-not-permanent", "refusal by the cardinality limit is not a permanent error: "+e.Error(), map[string]any{"round": round})
				}
			}
		}
		shards := map[int]bool{}
		for _, e := range cbp.VerifLog() {
			if e.Kind == "recv" {
				shards[e.Shard] = true
			}
		}
		replay := map[string]any{"round": round, "limit": limit, "preloaded": preload, "workers": nWorkers, "admitted": admitted, "shards": len(shards)}
		if admitted > int(limit) || len(shards) > int(limit) {
			out.Violation("C10", "over-cardinality-limit", fmt.Sprintf("%d metadata combinations admitted (%d shards) > limit %d when %d first arrivals race", admitted, len(shards), limit, nWorkers), replay)
		}
		if refused > 0 && admitted < int(limit) {
			// not demanded by the property as stated (it bounds admissions and requires refusals beyond the limit, not the
			// converse): counted as an observation only
			stats["rounds_refusing_below_limit"]++
		}
		stats["admitted"] += admitted
		stats["refused"] += refused
		if round > 0 {
			ab.WriteString(";\n")
		}
		fmt.Fprintf(&ab, " (%d, [%s], %v)", limit, strings.Join(adm, ";"), refused > 0)
		out.AddCase(replay, true, fmt.Sprintf("limit=%d preload=%d", limit, preload))
	}
	ab.WriteString("\n].\n")
	out.Coq.WriteString(ab.String())
	out.Coq.WriteString(`Definition adm_prop (c : N * list N * bool) : bool := let '(limit, adm, refused) := c in admission_okb limit adm refused.
Definition adm_propfail := Eval vm_compute in failing adm_prop adm_cases.
Print adm_propfail.
`)
	out.Lists = append(out.Lists, "adm_propfail")
	out.Extra["stats"] = stats
}
