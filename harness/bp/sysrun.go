package main

// System-level runs of the real processor (real goroutines, channels, timers, semaphore)
// with the verif event log; per-role trace validation on the Go side and a Coq case per
// shard (its input sequence and the sends it decided) for the model comparison.

import (
	"context"
	"encoding/json"
	"errors"
	"fmt"
	"os"
	"runtime"
	"sort"
	"strings"
	"sync"
	"sync/atomic"
	"time"

	cbp "github.com/open-telemetry/otel-arrow/collector/processor/concurrentbatchprocessor"
	"go.opentelemetry.io/collector/client"
	"go.opentelemetry.io/collector/component"
	"go.opentelemetry.io/collector/component/componenttest"
	"go.opentelemetry.io/collector/consumer"
	"go.opentelemetry.io/collector/consumer/consumererror"
	"go.opentelemetry.io/collector/pdata/plog"
	"go.opentelemetry.io/collector/pdata/pmetric"
	"go.opentelemetry.io/collector/pdata/ptrace"
	"go.opentelemetry.io/collector/processor"
	"go.opentelemetry.io/collector/processor/processortest"
	sdktrace "go.opentelemetry.io/otel/sdk/trace"
	"go.opentelemetry.io/otel/sdk/trace/tracetest"
	"go.opentelemetry.io/otel/trace"
)

type sysCfg struct {
	Signal    int      `json:"signal"` // 0 traces, 1 logs, 2 metrics
	SendSize  uint32   `json:"send_batch_size"`
	MaxSize   uint32   `json:"send_batch_max_size"`
	TimeoutMs int      `json:"timeout_ms"`
	MaxConc   uint32   `json:"max_concurrency"`
	Early     bool     `json:"early_return"`
	MetaKeys  []string `json:"metadata_keys"`
	MetaLimit uint32   `json:"metadata_cardinality_limit"`
	Shutdown  string   `json:"shutdown"` // "after" (all calls returned) | "buffered" (while items are buffered / callers wait)
}

type reqPlan struct {
	ID        int                 `json:"id"`
	Caller    int                 `json:"caller"`
	DelayUs   int                 `json:"delay_us"`
	CtxLabel  int                 `json:"ctx"`
	CancelUs  int                 `json:"cancel_after_us"` // -1: never
	Meta      map[string][]string `json:"meta,omitempty"`
	Items     int                 `json:"items"`
	forest    []*Node
	flat      []FlatItem
	start     int64
	end       int64
	err       error
	returned  bool
	cancelSeq int64 // 0 = not (yet) cancelled (filled from the context's cancel time after the run)
	skipped   bool  // not issued because Shutdown had started
	lc        any
	startWall time.Time // when the Consume call was made
}

type exportRec struct {
	K         int
	Begin     int64
	End       int64
	BeginT    time.Duration
	Label     any
	CtxErrIn  error
	CtxErrOut error
	Meta      map[string][]string
	Forest    []*Node
	Flat      []FlatItem
	Err       error
	Data      any
	SpanID    string // span id of the context the export ran under
}

type sink struct {
	mu        sync.Mutex
	seq       *int64
	in        *Interner
	cfg       sysCfg
	exports   []*exportRec
	inflight  int32
	maxIn     int32
	failPlan  []bool
	latUs     []int
	injected  map[int]error
	startTime time.Time
}

func (s *sink) Capabilities() consumer.Capabilities { return consumer.Capabilities{} }

func (s *sink) consume(ctx context.Context, data any, forest func(*Interner) []*Node) error {
	cur := atomic.AddInt32(&s.inflight, 1)
	defer atomic.AddInt32(&s.inflight, -1)
	s.mu.Lock()
	if cur > s.maxIn {
		s.maxIn = cur
	}
	k := len(s.exports)
	rec := &exportRec{K: k, Begin: atomic.AddInt64(s.seq, 1), BeginT: time.Since(s.startTime), Label: ctx.Value(cbp.VerifCtxKey{}), CtxErrIn: ctx.Err(), Data: data, SpanID: trace.SpanContextFromContext(ctx).SpanID().String()}
	rec.Forest = forest(s.in)
	rec.Flat = Flatten(rec.Forest)
	md := client.FromContext(ctx).Metadata
	rec.Meta = map[string][]string{}
	for _, key := range s.cfg.MetaKeys {
		rec.Meta[strings.ToLower(key)] = md.Get(key)
	}
	s.exports = append(s.exports, rec)
	fail := k < len(s.failPlan) && s.failPlan[k]
	lat := 0
	if k < len(s.latUs) {
		lat = s.latUs[k]
	}
	var inj error
	if fail {
		inj = fmt.Errorf("injected failure of export %d", k)
		s.injected[k] = inj
	}
	s.mu.Unlock()
	var err error
	if lat > 0 {
		t := time.NewTimer(time.Duration(lat) * time.Microsecond)
		select {
		case <-t.C:
		case <-ctx.Done(): // a downstream consumer that honours cancellation
			t.Stop()
			err = ctx.Err()
		}
	}
	if err == nil && ctx.Err() != nil {
		err = ctx.Err()
	}
	if err == nil && fail {
		err = inj
	}
	s.mu.Lock()
	rec.Err = err
	rec.CtxErrOut = ctx.Err()
	rec.End = atomic.AddInt64(s.seq, 1)
	s.mu.Unlock()
	return err
}

func (s *sink) ConsumeTraces(ctx context.Context, td ptrace.Traces) error {
	return s.consume(ctx, td, func(in *Interner) []*Node { return TracesForest(in, td) })
}
func (s *sink) ConsumeLogs(ctx context.Context, ld plog.Logs) error {
	return s.consume(ctx, ld, func(in *Interner) []*Node { return LogsForest(in, ld) })
}
func (s *sink) ConsumeMetrics(ctx context.Context, md pmetric.Metrics) error {
	return s.consume(ctx, md, func(in *Interner) []*Node { return MetricsForest(in, md) })
}

type runPlan struct {
	Cfg   sysCfg     `json:"cfg"`
	Reqs  []*reqPlan `json:"requests"`
	Fail  []bool     `json:"export_failures"`
	LatUs []int      `json:"export_latency_us"`
	Seed  uint64     `json:"gen_seed"`
	// SharedSpan: every caller context derives from one traced parent (same span, distinct contexts)
	SharedSpan bool `json:"shared_span"`
	// CtxSpans: three out of four caller contexts carry their own (remote / non-recording) span, and the processor gets a real
	// tracer provider whose export spans are recorded with their links
	CtxSpans bool `json:"ctx_spans,omitempty"`
	// Trickle: one caller sends small requests spaced below the timeout for many timeouts
	Trickle bool `json:"trickle"`
	// ShutdownAfterUs: with Shutdown == "midstream", how long after the callers started Shutdown is called
	ShutdownAfterUs int `json:"shutdown_after_us,omitempty"`
}

var sharedSpanCtx = trace.ContextWithSpanContext(context.Background(), trace.NewSpanContext(trace.SpanContextConfig{
	TraceID: trace.TraceID{9, 9, 9, 9, 9, 9, 9, 9, 9, 9, 9, 9, 9, 9, 9, 9}, SpanID: trace.SpanID{7, 7, 7, 7, 7, 7, 7, 7}, TraceFlags: trace.FlagsSampled,
}))

var forceTrickle bool

// forceNoTimer: 0 = random; 1 = timeout 0 with a positive send_batch_size; 2 = send_batch_size 0 with a positive timeout
// (both: no flush timer, every request must leave at once)
var forceNoTimer int

// curFile: where the plan of the run being executed is left (removed when the harness ends normally)
var curFile string

func genPlan(r *Rng, focus string) *runPlan {
	p := &runPlan{Seed: r.U64()}
	p.SharedSpan = r.Chance(35)
	c := &p.Cfg
	c.Signal = r.Intn(3)
	sizes := []uint32{0, 1, 2, 3, 5, 8}
	c.SendSize = sizes[r.Intn(len(sizes))]
	switch r.Intn(4) {
	case 0:
		c.MaxSize = 0
	case 1:
		c.MaxSize = c.SendSize
	default:
		c.MaxSize = c.SendSize + uint32(r.Intn(5))
	}
	c.TimeoutMs = []int{0, 8, 15, 30}[r.Intn(4)]
	c.MaxConc = uint32([]int{0, 0, 1, 2}[r.Intn(4)])
	c.Early = r.Chance(30)
	c.Shutdown = "after"
	if r.Chance(30) {
		c.Shutdown = "buffered"
	}
	nCallers := 1 + r.Intn(5)
	shareCtx := r.Chance(25) // all callers share one context object
	failPct, cancelPct := 25, 15
	switch focus {
	case "C06":
		c.Early = r.Chance(15)
		failPct, cancelPct = 40, 25
	case "C09":
		if c.TimeoutMs == 0 && r.Chance(30) {
			c.TimeoutMs = 10
		}
		switch forceNoTimer {
		case 1:
			c.TimeoutMs = 0
			c.SendSize = []uint32{2, 3, 5, 8}[r.Intn(4)]
			if c.MaxSize != 0 && c.MaxSize < c.SendSize {
				c.MaxSize = c.SendSize
			}
		case 2:
			c.SendSize, c.MaxSize = 0, []uint32{0, 0, 3}[r.Intn(3)]
			if c.TimeoutMs == 0 {
				c.TimeoutMs = 10
			}
		}
		if c.TimeoutMs == 0 || c.SendSize == 0 {
			c.Early = r.Bool() // without a timer every request must leave at once: observable without blocking callers
		}
		failPct, cancelPct = 5, 0
	case "C10":
		c.MetaKeys = [][]string{{"tenant"}, {"Tenant", "region"}, {"a", "b", "c"}}[r.Intn(3)]
		c.MetaLimit = uint32(r.Intn(4)) // 0 = unlimited
		nCallers = 3 + r.Intn(5)
		cancelPct = 5
	case "C11":
		c.MaxConc = uint32([]int{0, 1, 1, 2, 3}[r.Intn(5)])
		nCallers = 2 + r.Intn(6)
		if r.Bool() {
			c.Shutdown = "buffered"
		}
		if r.Chance(45) {
			// waiting callers whose requests are merged and cut across several exports, a third of them cancelled on the way:
			// an export goroutine that cannot get rid of an answer keeps its slot and its WaitGroup count
			c.SendSize = uint32(2 + r.Intn(6))
			c.MaxSize = c.SendSize + uint32(r.Intn(3))
			if c.TimeoutMs == 0 {
				c.TimeoutMs = 8
			}
			c.Early = false
			c.Shutdown = "after"
			shareCtx = false
			cancelPct = 35
		}
	case "C18":
		c.SendSize = uint32(2 + r.Intn(6))
		c.MaxSize = c.SendSize + uint32(r.Intn(3))
		if r.Chance(30) {
			c.MaxSize = 0
		}
		if c.TimeoutMs == 0 {
			c.TimeoutMs = 8
		}
		c.Early = r.Chance(40) // contexts and parentage are decided the same way when callers do not wait
		nCallers = 2 + r.Intn(4)
		shareCtx = r.Chance(15)
		cancelPct = 35
		p.CtxSpans = r.Chance(60)
	case "C05":
		if r.Bool() {
			c.Shutdown = "buffered"
		}
		cancelPct = 10
	}
	if c.Shutdown == "buffered" {
		// keep items buffered until Shutdown: big batch size and a long timer
		if r.Bool() {
			c.SendSize = 1000
			if c.MaxSize != 0 {
				c.MaxSize = 1000 + uint32(r.Intn(3))
			}
			c.TimeoutMs = 5000
		}
	}
	if focus != "C10" && r.Chance(30) {
		c.MetaKeys = []string{"tenant"}
		c.MetaLimit = uint32(r.Intn(3))
	}
	if focus == "C09" && (forceTrickle || r.Chance(3)) {
		// steady trickle: requests keep arriving less than `timeout` apart while the buffer stays below send_batch_size
		p.Trickle = true
		*c = sysCfg{Signal: r.Intn(3), SendSize: 100000, MaxSize: 0, TimeoutMs: 20, MaxConc: 0, Early: true, Shutdown: "after"}
		idleFirst := r.Bool()
		for q := 0; q < 100; q++ {
			rp := &reqPlan{ID: q, Caller: 0, DelayUs: 7000, CtxLabel: q + 1, CancelUs: -1}
			if q == 0 && idleFirst {
				// the shard sits idle for three timeouts first: its timer fires on an empty buffer before any traffic
				rp.DelayUs = 3 * c.TimeoutMs * 1000
			}
			p.Reqs = append(p.Reqs, rp)
		}
		for i := 0; i < 400; i++ {
			p.Fail = append(p.Fail, false)
			p.LatUs = append(p.LatUs, 0)
		}
		return p
	}
	id := 0
	for cl := 0; cl < nCallers; cl++ {
		nreq := 1 + r.Intn(4)
		for q := 0; q < nreq; q++ {
			rp := &reqPlan{ID: id, Caller: cl, DelayUs: r.Intn(1500), CtxLabel: id + 1, CancelUs: -1}
			if c.TimeoutMs > 0 && c.TimeoutMs <= 30 && r.Chance(6) {
				// an idle gap longer than the flush timeout: the shard's timer fires (possibly on an empty buffer) before the next request
				rp.DelayUs = c.TimeoutMs * 2500
			}
			if shareCtx {
				rp.CtxLabel = 1000
			} else if r.Chance(20) {
				rp.CtxLabel = 1000 + cl // one context per caller, reused across its calls
			}
			if r.Chance(cancelPct) && !shareCtx {
				rp.CancelUs = r.Intn(4000)
			}
			if len(c.MetaKeys) > 0 {
				rp.Meta = map[string][]string{}
				for _, k := range c.MetaKeys {
					switch r.Intn(5) {
					case 0: // absent
					case 1:
						rp.Meta[k] = []string{}
					case 2:
						// multi-valued: ordered lists over a small pool — lists that share their first or last
						// value, permutations of each other, repeated values
						pool := []string{"t0", "t1", "x"}
						nv := 2 + r.Intn(2)
						var vs []string
						for j := 0; j < nv; j++ {
							vs = append(vs, pool[r.Intn(len(pool))])
						}
						rp.Meta[k] = vs
					default:
						rp.Meta[k] = []string{fmt.Sprintf("t%d", r.Intn(3))}
					}
				}
			}
			p.Reqs = append(p.Reqs, rp)
			id++
		}
	}
	// backlog mode: early_return, one export at a time, slow exports, callers whose contexts end while their
	// (already acknowledged) requests are still queued in front of the shard
	backlog := (focus == "C05" || focus == "C06" || focus == "C11") && !p.Trickle && r.Chance(35)
	if backlog {
		c.Early = true
		c.MaxConc = 1
		if c.SendSize == 0 || c.SendSize > 3 {
			c.SendSize = 2
			if c.MaxSize != 0 && c.MaxSize < c.SendSize {
				c.MaxSize = c.SendSize
			}
		}
		for _, rp := range p.Reqs {
			rp.DelayUs = r.Intn(300)
			if r.Bool() && !shareCtx {
				rp.CancelUs = 200 + r.Intn(4000)
			}
		}
		if r.Bool() {
			// many acknowledged requests queued or parked in front of a stalled shard when Shutdown arrives
			// (the shard's channel holds NumCPU items)
			p.Reqs = nil
			id := 0
			nCallers = 6 + r.Intn(4)
			for cl := 0; cl < nCallers; cl++ {
				for q := 0; q < 6+r.Intn(5); q++ {
					p.Reqs = append(p.Reqs, &reqPlan{ID: id, Caller: cl, DelayUs: r.Intn(100), CtxLabel: id + 1, CancelUs: -1})
					id++
				}
			}
			c.Shutdown = "midstream"
			c.MetaKeys = nil
			p.ShutdownAfterUs = 8000 + r.Intn(8000)
		}
	}
	// merge-and-cancel mode (C06): several callers' small requests merged into one slow export, some of the callers'
	// contexts ending while that export is in flight; the others must still get the outcome of their own items
	mergeCancel := focus == "C06" && !backlog && !p.Trickle && r.Chance(35)
	if mergeCancel {
		c.Early = false
		c.SendSize = uint32(6 + r.Intn(4))
		c.MaxSize = 0
		c.TimeoutMs = 5
		c.MaxConc = uint32(r.Intn(2))
		c.Shutdown = "after"
		c.MetaKeys = nil
		failPct = 10
		p.Reqs = nil
		id := 0
		for cl := 0; cl < 4+r.Intn(3); cl++ {
			for q := 0; q < 1+r.Intn(2); q++ {
				rp := &reqPlan{ID: id, Caller: cl, DelayUs: r.Intn(200), CtxLabel: id + 1, CancelUs: -1}
				if r.Bool() {
					rp.CancelUs = 1500 + r.Intn(5000)
				}
				p.Reqs = append(p.Reqs, rp)
				id++
			}
		}
	}
	nExp := 4 * len(p.Reqs) * 8
	for i := 0; i < nExp; i++ {
		p.Fail = append(p.Fail, r.Chance(failPct))
		lat := 0
		if r.Chance(60) {
			lat = r.Intn(3000)
		}
		if backlog {
			lat = 2000 + r.Intn(4000)
		}
		if mergeCancel {
			lat = 3000 + r.Intn(4000)
		}
		p.LatUs = append(p.LatUs, lat)
	}
	return p
}

type runResult struct {
	plan      *runPlan
	log       []cbp.VerifEvent
	sink      *sink
	hang      string
	shutStart int64
	shutEnd   int64
	gorBefore int
	gorAfter  int
	in        *Interner
	reqOf     map[any]int
	resetAt   time.Time
	startT    time.Duration // just before proc.Start, on the event log's clock
	jitter    time.Duration // largest overshoot of a 1 ms sleep measured while the run was executing (scheduler load)
	shutWall  time.Time     // when Shutdown was called
	spans     []sdktrace.ReadOnlySpan
}

// spanIDOfLabel: the span a caller context with this label carries (three labels out of four)
func spanIDOfLabel(l int) (trace.SpanID, bool) {
	if l%4 == 0 {
		return trace.SpanID{}, false
	}
	return trace.SpanID{0xC1, 0, 0, 1, byte(l >> 24), byte(l >> 16), byte(l >> 8), byte(l)}, true
}

func comboKey(keys []string, meta map[string][]string) string {
	ks := make([]string, len(keys))
	for i, k := range keys {
		ks[i] = strings.ToLower(k)
	}
	sort.Strings(ks)
	var sb strings.Builder
	for _, k := range ks {
		var vs []string
		for mk, mv := range meta {
			if strings.ToLower(mk) == k {
				vs = mv
			}
		}
		fmt.Fprintf(&sb, "%s=%d%q;", k, len(vs), vs)
	}
	return sb.String()
}

func execPlan(p *runPlan) *runResult {
	res := &runResult{plan: p, in: NewInterner(), reqOf: map[any]int{}}
	var seq int64
	cbp.VerifReset()
	res.resetAt = time.Now()
	var regMu sync.Mutex
	cbp.VerifDataID = func(d any) string {
		regMu.Lock()
		defer regMu.Unlock()
		if id, ok := res.reqOf[d]; ok {
			return fmt.Sprint(id)
		}
		return "?"
	}
	sk := &sink{seq: &seq, in: res.in, cfg: p.Cfg, failPlan: p.Fail, latUs: p.LatUs, injected: map[int]error{}, startTime: time.Now()}
	res.sink = sk
	f := cbp.NewFactory()
	cfg := f.CreateDefaultConfig().(*cbp.Config)
	cfg.SendBatchSize = p.Cfg.SendSize
	cfg.SendBatchMaxSize = p.Cfg.MaxSize
	cfg.Timeout = time.Duration(p.Cfg.TimeoutMs) * time.Millisecond
	cfg.MaxConcurrency = p.Cfg.MaxConc
	cfg.EarlyReturn = p.Cfg.Early
	cfg.MetadataKeys = p.Cfg.MetaKeys
	cfg.MetadataCardinalityLimit = p.Cfg.MetaLimit
	if err := cfg.Validate(); err != nil {
		res.hang = "invalid config generated: " + err.Error()
		return res
	}
	set := processortest.NewNopSettings(f.Type())
	var recorder *tracetest.SpanRecorder
	if p.CtxSpans {
		recorder = tracetest.NewSpanRecorder()
		set.TelemetrySettings.TracerProvider = sdktrace.NewTracerProvider(sdktrace.WithSpanProcessor(recorder))
	}
	var proc component.Component
	var consume func(ctx context.Context, rp *reqPlan, g *Gen) error
	sh := Shape{MaxRes: 2, MaxScopes: 2, MaxItems: 3, MaxMetrics: 2, MinItems: 1}
	register := func(d any, rp *reqPlan, forest []*Node) {
		regMu.Lock()
		res.reqOf[d] = rp.ID
		regMu.Unlock()
		rp.forest = forest
		rp.flat = Flatten(forest)
		rp.Items = len(rp.flat)
	}
	res.gorBefore = runtime.NumGoroutine()
	switch p.Cfg.Signal {
	case 0:
		tp, err := f.CreateTraces(context.Background(), set, cfg, sk)
		if err != nil {
			res.hang = err.Error()
			return res
		}
		proc = tp
		consume = func(ctx context.Context, rp *reqPlan, g *Gen) error {
			td := g.Traces(sh)
			sk.mu.Lock()
			fo := TracesForest(res.in, td)
			sk.mu.Unlock()
			register(td, rp, fo)
			rp.start = atomic.AddInt64(&seq, 1)
			rp.startWall = time.Now()
			return tp.ConsumeTraces(ctx, td)
		}
	case 1:
		lp, err := f.CreateLogs(context.Background(), set, cfg, sk)
		if err != nil {
			res.hang = err.Error()
			return res
		}
		proc = lp
		consume = func(ctx context.Context, rp *reqPlan, g *Gen) error {
			ld := g.Logs(sh)
			sk.mu.Lock()
			fo := LogsForest(res.in, ld)
			sk.mu.Unlock()
			register(ld, rp, fo)
			rp.start = atomic.AddInt64(&seq, 1)
			rp.startWall = time.Now()
			return lp.ConsumeLogs(ctx, ld)
		}
	default:
		mp, err := f.CreateMetrics(context.Background(), set, cfg, sk)
		if err != nil {
			res.hang = err.Error()
			return res
		}
		proc = mp
		consume = func(ctx context.Context, rp *reqPlan, g *Gen) error {
			md := g.Metrics(sh)
			sk.mu.Lock()
			fo := MetricsForest(res.in, md)
			sk.mu.Unlock()
			register(md, rp, fo)
			rp.start = atomic.AddInt64(&seq, 1)
			rp.startWall = time.Now()
			return mp.ConsumeMetrics(ctx, md)
		}
	}
	_ = processor.Settings{}
	res.startT = time.Since(res.resetAt)
	// scheduling jitter probe: how late does this process wake up from a 1 ms sleep while the run executes?
	jitterStop := make(chan struct{})
	var jitterMax int64
	go func() {
		for {
			select {
			case <-jitterStop:
				return
			default:
			}
			t0 := time.Now()
			time.Sleep(time.Millisecond)
			if over := int64(time.Since(t0) - time.Millisecond); over > atomic.LoadInt64(&jitterMax) {
				atomic.StoreInt64(&jitterMax, over)
			}
		}
	}()
	defer func() {
		close(jitterStop)
		res.jitter = time.Duration(atomic.LoadInt64(&jitterMax))
	}()
	if err := proc.Start(context.Background(), componenttest.NewNopHost()); err != nil {
		res.hang = err.Error()
		return res
	}
	// one context object per label
	type lctx struct {
		ctx       context.Context
		cancel    context.CancelFunc
		cancelSeq int64
	}
	ctxs := map[int]*lctx{}
	var ctxMu sync.Mutex
	getCtx := func(rp *reqPlan) *lctx {
		ctxMu.Lock()
		defer ctxMu.Unlock()
		// contexts with different metadata must be different objects
		key := rp.CtxLabel
		if l, ok := ctxs[key]; ok && rp.Meta == nil {
			return l
		}
		base := context.Background()
		if p.SharedSpan {
			base = sharedSpanCtx
		}
		if rp.Meta != nil {
			rp.CtxLabel = rp.ID + 1 // a metadata-carrying context is never shared
		}
		if sid, ok := spanIDOfLabel(rp.CtxLabel); ok && p.CtxSpans && !p.SharedSpan {
			// the caller's own span, as a receiver would leave it in the context: a valid span context that is not recording here
			// (a remote parent; every other one not sampled)
			flags := trace.FlagsSampled
			if rp.CtxLabel%2 == 0 {
				flags = 0
			}
			base = trace.ContextWithSpanContext(base, trace.NewSpanContext(trace.SpanContextConfig{
				TraceID: trace.TraceID{5, 5, 5, 5, 5, 5, 5, 5, sid[0], sid[1], sid[2], sid[3], sid[4], sid[5], sid[6], sid[7]}, SpanID: sid, TraceFlags: flags, Remote: rp.CtxLabel%3 == 0}))
		}
		if rp.Meta != nil {
			base = client.NewContext(base, client.Info{Metadata: client.NewMetadata(rp.Meta)})
			rp.CtxLabel = rp.ID + 1 // a metadata-carrying context is never shared
		}
		c, cancel := context.WithCancel(context.WithValue(base, cbp.VerifCtxKey{}, rp.CtxLabel))
		l := &lctx{ctx: c, cancel: cancel}
		ctxs[rp.CtxLabel] = l
		return l
	}
	byCaller := map[int][]*reqPlan{}
	for _, rp := range p.Reqs {
		byCaller[rp.Caller] = append(byCaller[rp.Caller], rp)
	}
	var wg sync.WaitGroup
	var shutFlag int64
	var uid uint64
	var uidMu sync.Mutex
	for cl, reqs := range byCaller {
		wg.Add(1)
		go func(cl int, reqs []*reqPlan) {
			defer wg.Done()
			for _, rp := range reqs {
				time.Sleep(time.Duration(rp.DelayUs) * time.Microsecond)
				if atomic.LoadInt64(&shutFlag) != 0 {
					rp.skipped = true
					rp.returned = true
					continue
				}
				l := getCtx(rp)
				rp.lc = l
				if rp.CancelUs >= 0 {
					go func(rp *reqPlan, l *lctx) {
						time.Sleep(time.Duration(rp.CancelUs) * time.Microsecond)
						atomic.CompareAndSwapInt64(&l.cancelSeq, 0, atomic.AddInt64(&seq, 1))
						l.cancel()
					}(rp, l)
				}
				// unique item ids across the run
				uidMu.Lock()
				g := &Gen{r: NewRng(p.Seed + uint64(rp.ID)*7919), uid: uid}
				uid += 1000
				uidMu.Unlock()
				err := consume(l.ctx, rp, g)
				rp.err = err
				rp.end = atomic.AddInt64(&seq, 1)
				rp.returned = true
			}
		}(cl, reqs)
	}
	done := make(chan struct{})
	go func() { wg.Wait(); close(done) }()
	hung := func(what string) {
		buf := make([]byte, 1<<16)
		n := runtime.Stack(buf, true)
		res.hang = what + "\n" + string(buf[:n])
	}
	if p.Cfg.Shutdown == "midstream" {
		// Shutdown arrives while callers are still busy (some parked on the shard's full channel): no waiting for them
		time.Sleep(time.Duration(p.ShutdownAfterUs) * time.Microsecond)
	} else if p.Cfg.Shutdown == "after" {
		select {
		case <-done:
		case <-time.After(20 * time.Second):
			hung("callers did not return within 20 s")
			return res
		}
	} else {
		// wait until every call has either been received by a shard or has returned
		deadline := time.Now().Add(10 * time.Second)
		for {
			// every caller is finished, or blocked in a call whose request a shard has received
			recvd := map[string]bool{}
			for _, e := range cbp.VerifLog() {
				if e.Kind == "recv" {
					recvd[e.DataID] = true
				}
			}
			settled := 0
			for _, reqs := range byCaller {
				ok := true
				for _, rp := range reqs {
					if rp.returned {
						continue
					}
					if !(rp.start != 0 && recvd[fmt.Sprint(rp.ID)]) {
						ok = false
					}
					break
				}
				if ok {
					settled++
				}
			}
			if settled == len(byCaller) || time.Now().After(deadline) {
				break
			}
			time.Sleep(500 * time.Microsecond)
		}
	}
	atomic.StoreInt64(&shutFlag, 1)
	res.shutWall = time.Now()
	res.shutStart = atomic.AddInt64(&seq, 1)
	sd := make(chan struct{})
	go func() { _ = proc.Shutdown(context.Background()); close(sd) }()
	select {
	case <-sd:
	case <-time.After(20 * time.Second):
		hung("Shutdown did not return within 20 s")
		return res
	}
	res.shutEnd = atomic.AddInt64(&seq, 1)
	select {
	case <-done:
	case <-time.After(300 * time.Millisecond):
		// calls issued after Shutdown had started are outside every property: release them
		ctxMu.Lock()
		for _, rp := range p.Reqs {
			if rp.start > res.shutStart && !rp.returned {
				if l, ok := rp.lc.(*lctx); ok {
					atomic.CompareAndSwapInt64(&l.cancelSeq, 0, atomic.AddInt64(&seq, 1))
					l.cancel()
				}
			}
		}
		ctxMu.Unlock()
		select {
		case <-done:
		case <-time.After(20 * time.Second):
			hung("callers did not return within 20 s after Shutdown")
			return res
		}
	}
	for _, rp := range p.Reqs {
		if l, ok := rp.lc.(*lctx); ok {
			rp.cancelSeq = atomic.LoadInt64(&l.cancelSeq)
		}
	}
	for _, l := range ctxs {
		l.cancel()
	}
	time.Sleep(2 * time.Millisecond)
	res.gorAfter = runtime.NumGoroutine()
	res.log = cbp.VerifLog()
	if recorder != nil {
		res.spans = recorder.Ended()
	}
	return res
}

// ---------------------------------------------------------------- validation

type checker struct {
	res   *runResult
	out   *Output
	run   int
	viols int
}

func (c *checker) fail(prop, sig, msg string) {
	c.viols++
	c.out.Violation(prop, sig, msg, map[string]any{"run": c.run, "plan": c.res.plan})
}

func labelN(l any) int {
	if l == nil {
		return 0
	}
	if v, ok := l.(int); ok {
		return v
	}
	return -1
}

func validate(res *runResult, out *Output, run int, stats map[string]int) {
	c := &checker{res: res, out: out, run: run}
	p := res.plan
	// ---- C10 "once the limit is reached, requests introducing a further combination are refused": a combination refused
	// for the limit stays refused — a later request with the same combination (issued after the refusal had returned) must
	// be refused too, not queued on a shard nobody serves, acknowledged, or left hanging
	if len(p.Cfg.MetaKeys) > 0 && p.Cfg.MetaLimit > 0 {
		refusedAt := map[string]int64{}
		tooMany := func(rp *reqPlan) bool {
			return rp.returned && rp.err != nil && strings.Contains(rp.err.Error(), "too many batcher")
		}
		for _, rp := range p.Reqs {
			if !tooMany(rp) {
				continue
			}
			k := comboKey(p.Cfg.MetaKeys, rp.Meta)
			// the limit check comes before the map lookup: a request racing with the admission of its own combination by a
			// sibling can be refused although the combination is (being) admitted — only a refusal with no such sibling
			// (no request of the same combination issued before the refusal returned that was not itself refused) shows
			// that the combination is outside the admitted set
			sibling := false
			for _, q := range p.Reqs {
				if q != rp && !q.skipped && q.start != 0 && q.start < rp.end && !tooMany(q) && comboKey(p.Cfg.MetaKeys, q.Meta) == k {
					sibling = true
				}
			}
			if sibling {
				continue
			}
			if e, ok := refusedAt[k]; !ok || rp.end < e {
				refusedAt[k] = rp.end
			}
		}
		for _, rp := range p.Reqs {
			if rp.skipped || rp.start == 0 {
				continue
			}
			e, ok := refusedAt[comboKey(p.Cfg.MetaKeys, rp.Meta)]
			if !ok || rp.start <= e {
				continue
			}
			if !rp.returned {
				c.fail("C10", "refused-combination-later-accepted", fmt.Sprintf("request %d carries a metadata combination that had been refused for the cardinality limit (%d) before it was issued; it was not refused but never returned", rp.ID, p.Cfg.MetaLimit))
			} else if rp.err == nil || !strings.Contains(rp.err.Error(), "too many batcher") {
				c.fail("C10", "refused-combination-later-accepted", fmt.Sprintf("request %d carries a metadata combination that had been refused for the cardinality limit (%d) before it was issued; it was not refused (result: %v)", rp.ID, p.Cfg.MetaLimit, rp.err))
			}
		}
	}
	if res.hang != "" {
		c.fail("C11", "hang", "processor hung (deadlock or lost wake-up): "+strings.SplitN(res.hang, "\n", 2)[0])
		if p.Cfg.MaxConc == 0 && strings.Contains(res.hang, "callers did not return") {
			// callers that wait for their items were still waiting after 20 s although no concurrency limit holds exports back:
			// their items stayed buffered far beyond any flush deadline (and beyond "immediately" when there is no timer)
			c.fail("C09", "deadline-missed", fmt.Sprintf("accepted items were still not exported after 20 s (send_batch_size %d, timeout %d ms, no concurrency limit): %s",
				p.Cfg.SendSize, p.Cfg.TimeoutMs, strings.SplitN(res.hang, "\n", 2)[0]))
			c.fail("C06", "call-never-returned", "a Consume call with early_return off had not returned after 20 s although its context was alive and no export was outstanding")
		}
		// C18: callers whose own context is alive never returned in a run in which another caller's context had been
		// cancelled — the cancelled caller (who stopped listening) decided the fate of theirs
		cancelled, stuckAlive := 0, 0
		for _, rp := range p.Reqs {
			if rp.CancelUs >= 0 {
				cancelled++
			} else if !rp.returned && !rp.skipped && rp.start != 0 {
				stuckAlive++
			}
		}
		if cancelled > 0 && stuckAlive > 0 && !p.Cfg.Early {
			c.fail("C18", "live-callers-stuck-after-foreign-cancel", fmt.Sprintf("%d Consume calls under live contexts never returned in a run where %d other requests had their contexts cancelled: %s", stuckAlive, cancelled, strings.SplitN(res.hang, "\n", 2)[0]))
		}
		return
	}
	sk := res.sink
	reqByID := map[int]*reqPlan{}
	for _, rp := range p.Reqs {
		reqByID[rp.ID] = rp
	}
	// accepted = received by a shard
	accepted := map[int]bool{}
	recvShard := map[int]int{}
	for _, e := range res.log {
		if e.Kind == "recv" {
			var id int
			if _, err := fmt.Sscan(e.DataID, &id); err == nil {
				accepted[id] = true
				recvShard[id] = e.Shard
			}
		}
	}
	// ---- C05: exactly once, identity intact
	type where struct {
		k    int
		path string
	}
	seen := map[uint64][]where{}
	for _, ex := range sk.exports {
		for _, it := range ex.Flat {
			seen[it.ID] = append(seen[it.ID], where{ex.K, it.Path})
		}
	}
	owner := map[uint64]int{}
	for _, rp := range p.Reqs {
		for _, it := range rp.flat {
			owner[it.ID] = rp.ID
		}
	}
	// a call that returned nil before Shutdown was called has been accepted, whether or not a shard has
	// taken the request off its channel yet (early_return acknowledges on queueing)
	margin := 5*time.Millisecond + 4*res.jitter
	for _, rp := range p.Reqs {
		// a call made well before Shutdown was called (it had all the time to reach the shard's channel: it was queued or parked
		// on it when Shutdown came) and acknowledged with nil belongs to what Shutdown must drain
		parkedBefore := !rp.startWall.IsZero() && !res.shutWall.IsZero() && rp.startWall.Add(margin).Before(res.shutWall)
		if rp.returned && !rp.skipped && rp.err == nil && rp.Items > 0 && rp.end != 0 && (rp.end < res.shutStart || parkedBefore) && !accepted[rp.ID] && res.hang == "" {
			c.fail("C05", "acknowledged-request-dropped", fmt.Sprintf("request %d (%d items) was acknowledged with nil before Shutdown was called but never reached a shard: its items are lost (early_return=%v, context cancelled=%v)", rp.ID, rp.Items, p.Cfg.Early, rp.CancelUs >= 0))
		}
	}
	exportsOf := map[int]map[int]bool{}
	for _, rp := range p.Reqs {
		exportsOf[rp.ID] = map[int]bool{}
		for _, it := range rp.flat {
			ws := seen[it.ID]
			if !accepted[rp.ID] {
				if len(ws) > 0 {
					c.fail("C05", "unaccepted-exported", fmt.Sprintf("item of request %d, which was never accepted, was exported", rp.ID))
				}
				continue
			}
			if len(ws) == 0 {
				c.fail("C05", "item-lost", fmt.Sprintf("item %d of accepted request %d was never exported (lost)", it.ID, rp.ID))
				// the drain clause of C11: Shutdown has returned, and an item a shard had received had not been exported
				c.fail("C11", "accepted-item-not-exported-at-shutdown", fmt.Sprintf("Shutdown returned although item %d of request %d, received by a shard, had not been exported", it.ID, rp.ID))
				continue
			}
			if len(ws) > 1 {
				c.fail("C05", "item-duplicated", fmt.Sprintf("item %d of request %d exported %d times (duplicated)", it.ID, rp.ID, len(ws)))
			}
			if ws[0].path != it.Path {
				c.fail("C05", "identity-changed", fmt.Sprintf("item %d of request %d arrived under %s but left under %s (container identity changed)", it.ID, rp.ID, it.Path, ws[0].path))
			}
			for _, w := range ws {
				exportsOf[rp.ID][w.k] = true
			}
		}
	}
	for id := range seen {
		if _, ok := owner[id]; !ok {
			c.fail("C05", "item-invented", fmt.Sprintf("exported item %d was never submitted (invented or altered content)", id))
		}
	}
	for _, ex := range sk.exports {
		if ex.End == 0 || ex.End > res.shutEnd {
			c.fail("C11", "shutdown-before-export-end", fmt.Sprintf("export %d had not returned when Shutdown returned", ex.K))
		}
		// ---- C09 sizes
		if len(ex.Flat) == 0 {
			c.fail("C09", "empty-export", fmt.Sprintf("export %d is empty", ex.K))
		}
		if p.Cfg.MaxSize > 0 && len(ex.Flat) > int(p.Cfg.MaxSize) {
			c.fail("C09", "over-max-size", fmt.Sprintf("export %d holds %d items > send_batch_max_size %d", ex.K, len(ex.Flat), p.Cfg.MaxSize))
		}
	}
	// ---- C11 concurrency bound
	if p.Cfg.MaxConc > 0 && sk.maxIn > int32(p.Cfg.MaxConc) {
		c.fail("C11", "over-concurrency", fmt.Sprintf("%d exports in flight > max_concurrency %d", sk.maxIn, p.Cfg.MaxConc))
	}
	if atomic.LoadInt32(&sk.inflight) != 0 {
		c.fail("C11", "inflight-after-shutdown", "exports still in flight after Shutdown returned")
	}
	stats["goroutines_left"] += res.gorAfter - res.gorBefore
	// ---- C06 outcomes
	for _, rp := range p.Reqs {
		if rp.skipped || rp.start > res.shutStart {
			continue // issued after Shutdown had started: outside the properties' domain
		}
		if !rp.returned {
			c.fail("C06", "call-never-returned", fmt.Sprintf("call %d never returned", rp.ID))
			continue
		}
		cancelled := rp.cancelSeq != 0 && rp.cancelSeq < rp.end
		ctxErr := rp.err != nil && (errors.Is(rp.err, context.Canceled) || errors.Is(rp.err, context.DeadlineExceeded))
		if rp.Items == 0 {
			continue
		}
		if errors.Is(rp.err, errTooMany) || (rp.err != nil && strings.Contains(rp.err.Error(), "too many batcher")) {
			continue // C10's business
		}
		if cancelled && ctxErr {
			stats["calls_cancelled"]++
			continue
		}
		if ctxErr && !cancelled {
			// the caller's own context is alive: a context error can only stem from another caller's context
			c.fail("C18", "foreign-context-error", fmt.Sprintf("call %d, whose own context is alive, returned %v: the fate of its items depended on another caller's context", rp.ID, rp.err))
			c.fail("C06", "error-without-failure", fmt.Sprintf("call %d returned %v although its own context is alive and no export carrying its items failed on its own", rp.ID, rp.err))
			continue
		}
		if p.Cfg.Early {
			if rp.err != nil {
				c.fail("C06", "early-return-error", fmt.Sprintf("early_return: call %d returned %v", rp.ID, rp.err))
			}
			continue
		}
		if !accepted[rp.ID] {
			c.fail("C06", "returned-unaccepted", fmt.Sprintf("call %d returned %v without its request having been accepted or its context ended", rp.ID, rp.err))
			continue
		}
		var failing []int
		for k := range exportsOf[rp.ID] {
			ex := sk.exports[k]
			if ex.End == 0 || ex.End > rp.end {
				if !cancelled {
					c.fail("C06", "returned-before-export-end", fmt.Sprintf("call %d returned before export %d carrying its items had ended", rp.ID, k))
				}
			}
			if ex.Err != nil {
				failing = append(failing, k)
			}
		}
		if len(failing) == 0 && rp.err != nil && !cancelled {
			c.fail("C06", "error-without-failure", fmt.Sprintf("call %d returned %q although every export carrying its items succeeded", rp.ID, rp.err))
		}
		if len(failing) > 0 {
			stats["calls_with_failed_export"]++
			if rp.err == nil {
				c.fail("C06", "nil-despite-failure", fmt.Sprintf("call %d returned nil although export(s) %v carrying its items failed", rp.ID, failing))
			} else {
				for _, k := range failing {
					if !errors.Is(rp.err, sk.exports[k].Err) && !cancelled {
						c.fail("C06", "error-not-wrapping", fmt.Sprintf("call %d: returned error %q does not wrap the failure of export %d (%v)", rp.ID, rp.err, k, sk.exports[k].Err))
					}
				}
			}
		} else if rp.err == nil {
			stats["calls_ok"]++
		}
	}
	// ---- C10 tenants
	if len(p.Cfg.MetaKeys) > 0 {
		admitted := map[string]bool{}
		for _, rp := range p.Reqs {
			if accepted[rp.ID] {
				admitted[comboKey(p.Cfg.MetaKeys, rp.Meta)] = true
			}
		}
		if p.Cfg.MetaLimit > 0 && len(admitted) > int(p.Cfg.MetaLimit) {
			c.fail("C10", "over-cardinality-limit", fmt.Sprintf("%d metadata combinations admitted > limit %d", len(admitted), p.Cfg.MetaLimit))
		}
		for _, ex := range sk.exports {
			combos := map[string]bool{}
			for _, it := range ex.Flat {
				if o, ok := owner[it.ID]; ok {
					combos[comboKey(p.Cfg.MetaKeys, reqByID[o].Meta)] = true
				}
			}
			if len(combos) > 1 {
				c.fail("C10", "tenants-mixed", fmt.Sprintf("export %d mixes items of %d metadata combinations", ex.K, len(combos)))
			}
			for cb := range combos {
				if got := comboKey(p.Cfg.MetaKeys, ex.Meta); got != cb {
					c.fail("C10", "export-metadata-differs", fmt.Sprintf("export %d: client metadata visible to the export %s differs from its items' combination %s", ex.K, got, cb))
				}
			}
		}
		for _, rp := range p.Reqs {
			if rp.err != nil && strings.Contains(rp.err.Error(), "too many batcher") {
				stats["refused_by_limit"]++
				if !consumererror.IsPermanent(rp.err) {
					c.fail("C10", "limit-error-not-permanent", fmt.Sprintf("call %d refused by the cardinality limit with a non-permanent error", rp.ID))
				}
				if accepted[rp.ID] {
					c.fail("C10", "refused-but-accepted", fmt.Sprintf("call %d was refused but its request was accepted", rp.ID))
				}
				if p.Cfg.MetaLimit == 0 {
					c.fail("C10", "refused-without-limit", fmt.Sprintf("call %d refused by the cardinality limit although the limit is 0 (unlimited)", rp.ID))
				} else if len(admitted) < int(p.Cfg.MetaLimit) {
					// the property bounds admissions and requires refusals beyond the limit; it does not forbid a refusal while
					// slots are free (a sibling racing with the admission of its own combination): observation only
					stats["refused_below_limit"]++
				}
			}
		}
		stats["meta_runs"]++
		stats["meta_combos"] += len(admitted)
	}
	// ---- C18 contexts; map hook exports (vid) to sink exports via the request value
	sends := map[int]cbp.VerifEvent{}
	for _, e := range res.log {
		if e.Kind == "send" {
			sends[e.Export] = e
		}
	}
	for _, e := range res.log {
		if e.Kind != "export_start" {
			continue
		}
		s := sends[e.Export]
		labels := map[int]bool{}
		for _, t := range s.Tuples {
			labels[labelN(t.Ctx)] = true
		}
		lab := labelN(e.Ctx)
		if len(labels) > 1 {
			stats["multi_ctx_exports"]++
			if lab != 0 {
				c.fail("C18", "multi-ctx-under-caller", fmt.Sprintf("export with contributors from %d contexts runs under caller context %d instead of the processor's own", len(labels), lab))
			}
		} else if len(labels) == 1 {
			stats["single_ctx_exports"]++
			if !labels[lab] {
				c.fail("C18", "single-ctx-wrong-parent", fmt.Sprintf("single-context export runs under context %d, contributors %v", lab, labels))
			}
		}
	}
	// ---- C18 links: the export span of a batch with contributors from several contexts links to the span of every
	// contributing request (the spans the caller contexts carry are valid but not recording: remote parents, unsampled spans)
	if res.spans != nil && !p.SharedSpan {
		linksOf := map[string]map[string]bool{}
		for _, sp := range res.spans {
			if sp.Name() != "batch_processor/export" {
				continue
			}
			m := map[string]bool{}
			for _, l := range sp.Links() {
				m[l.SpanContext.SpanID().String()] = true
			}
			linksOf[sp.SpanContext().SpanID().String()] = m
		}
		for _, ex := range sk.exports {
			ctxLabels := map[int]bool{}
			for _, it := range ex.Flat {
				if o, ok := owner[it.ID]; ok {
					ctxLabels[reqByID[o].CtxLabel] = true
				}
			}
			if len(ctxLabels) < 2 {
				continue
			}
			got, ok := linksOf[ex.SpanID]
			if !ok {
				stats["export_span_not_recorded"]++
				continue
			}
			stats["multi_ctx_export_spans_inspected"]++
			for l := range ctxLabels {
				if sid, has := spanIDOfLabel(l); has && !got[sid.String()] {
					c.fail("C18", "contributor-span-not-linked", fmt.Sprintf("export %d carries items of %d request contexts; its export span has no link to the span of context %d (%s; links: %d)", ex.K, len(ctxLabels), l, sid, len(got)))
				}
			}
		}
	}
	for _, ex := range sk.exports {
		if ex.CtxErrOut != nil || ex.CtxErrIn != nil {
			stats["exports_under_cancelled_ctx"]++
			// every contributor must have submitted under the cancelled context
			lab := labelN(ex.Label)
			for _, it := range ex.Flat {
				if o, ok := owner[it.ID]; ok && reqByID[o].CtxLabel != lab {
					c.fail("C18", "cancel-crosses-callers", fmt.Sprintf("export %d was cancelled through caller context %d but carries items of request %d (context %d)", ex.K, lab, o, reqByID[o].CtxLabel))
					break
				}
			}
		}
	}
	// ---- C09 "immediately when timeout or send_batch_size is zero": without a flush timer nothing may stay buffered from one
	// loop iteration to the next — on the event log, when a shard receives a request (or ends) everything it received before
	// has been handed to an export
	if p.Cfg.TimeoutMs == 0 || p.Cfg.SendSize == 0 {
		buffered := map[int]int{}
		for _, e := range res.log {
			switch e.Kind {
			case "recv":
				if buffered[e.Shard] > 0 {
					c.fail("C09", "buffered-without-timer", fmt.Sprintf("no flush timer (send_batch_size %d, timeout %d ms) but %d items were still buffered in shard %d when it received its next request", p.Cfg.SendSize, p.Cfg.TimeoutMs, buffered[e.Shard], e.Shard))
				}
				buffered[e.Shard] += e.Num
			case "send":
				buffered[e.Shard] -= e.Num
			}
		}
	}
	// ---- C09 "as soon as the buffer reaches send_batch_size": with a timer, the loop sends while the buffer holds at least
	// send_batch_size items before it takes its next event — on the event log, when a shard receives a request or handles a
	// timer expiry, what it still holds from before is below send_batch_size
	if p.Cfg.TimeoutMs > 0 && p.Cfg.SendSize > 0 {
		buffered := map[int]int{}
		for _, e := range res.log {
			switch e.Kind {
			case "recv", "timer":
				if buffered[e.Shard] >= int(p.Cfg.SendSize) {
					c.fail("C09", "full-buffer-not-flushed", fmt.Sprintf("send_batch_size %d (max %d) but shard %d still held %d items when it took its next event (%s)", p.Cfg.SendSize, p.Cfg.MaxSize, e.Shard, buffered[e.Shard], e.Kind))
				}
				if e.Kind == "recv" {
					buffered[e.Shard] += e.Num
				}
			case "send":
				buffered[e.Shard] -= e.Num
			}
		}
	}
	// ---- C09 deadline (wall clock: generous, evidence first)
	if p.Cfg.MaxConc == 0 {
		recvT := map[int]time.Duration{}
		for _, e := range res.log {
			if e.Kind == "recv" {
				var id int
				if _, err := fmt.Sscan(e.DataID, &id); err == nil {
					recvT[id] = e.T
				}
			}
		}
		sendT := map[int]time.Duration{} // sink export index -> time of the send decision
		for _, e := range res.log {
			if e.Kind == "send" {
				for _, ex := range sk.exports {
					if ex.Data == e.Req {
						sendT[ex.K] = e.T
					}
				}
			}
		}
		limit := time.Duration(p.Cfg.TimeoutMs)*time.Millisecond*5 + 2*time.Second
		if p.Trickle {
			limit = time.Duration(p.Cfg.TimeoutMs)*time.Millisecond*5 + 200*time.Millisecond
		}
		if p.Cfg.TimeoutMs == 0 || p.Cfg.SendSize == 0 {
			limit = 50 * time.Millisecond // no flush timer: a request leaves in the loop iteration that received it
		}
		limit += 4 * res.jitter
		for id, ks := range exportsOf {
			for k := range ks {
				if st, ok := sendT[k]; ok {
					if lat := st - recvT[id]; lat > limit && p.Cfg.Shutdown == "after" {
						c.fail("C09", "deadline-missed", fmt.Sprintf("item of request %d waited %v before export (timeout %d ms)", id, lat, p.Cfg.TimeoutMs))
					} else if int(lat/time.Millisecond) > stats["max_wait_ms"] {
						stats["max_wait_ms"] = int(lat / time.Millisecond)
					}
				}
			}
		}
	}
	if j := int(res.jitter / time.Millisecond); j > stats["max_sched_jitter_ms"] {
		stats["max_sched_jitter_ms"] = j
	}
	stats["exports"] += len(sk.exports)
	stats["requests"] += len(p.Reqs)
	for _, e := range res.log {
		stats["ev_"+e.Kind]++
		if e.Kind == "respond" && !e.Done {
			stats["respond_skipped"]++
		}
	}
}

var errTooMany = errors.New("placeholder")

// ---------------------------------------------------------------- Coq cases

func coqCases(res *runResult, run int, sb *strings.Builder, n *int) (shards int) {
	p := res.plan
	depth := 1
	if p.Cfg.Signal == 2 {
		depth = 2
	}
	byShard := map[int][]cbp.VerifEvent{}
	var order []int
	for _, e := range res.log {
		switch e.Kind {
		case "recv", "timer", "shutdown", "send":
			if _, ok := byShard[e.Shard]; !ok {
				order = append(order, e.Shard)
			}
			byShard[e.Shard] = append(byShard[e.Shard], e)
		}
	}
	starts := map[int]cbp.VerifEvent{}
	for _, e := range res.log {
		if e.Kind == "export_start" {
			starts[e.Export] = e
		}
	}
	reqByID := map[int]*reqPlan{}
	for _, rp := range p.Reqs {
		reqByID[rp.ID] = rp
	}
	sort.Ints(order)
	for _, sh := range order {
		evs := byShard[sh]
		var es, ss, xs []string
		shut := false
		for _, e := range evs {
			switch e.Kind {
			case "recv":
				var id int
				fmt.Sscan(e.DataID, &id)
				es = append(es, fmt.Sprintf("R%d %s %d %d", depth, ForestString(reqByID[id].forest), labelN(e.Ctx), e.Waiter))
			case "timer":
				es = append(es, fmt.Sprintf("@Timer %d", depth))
			case "shutdown":
				shut = true
			case "send":
				var ts []string
				for _, t := range e.Tuples {
					ts = append(ts, fmt.Sprintf("{| tp_waiter := %d; tp_count := %d; tp_ctx := %d |}", t.Waiter, t.Count, labelN(t.Ctx)))
				}
				var fo []*Node
				for _, ex := range res.sink.exports {
					if ex.Data == e.Req {
						fo = ex.Forest
					}
				}
				ss = append(ss, fmt.Sprintf("S%d %d %d %s [%s]", depth, e.Trigger, e.Num, ForestString(fo), strings.Join(ts, ";")))
				st := starts[e.Export]
				xs = append(xs, fmt.Sprintf("(%v, %d)", st.Single, labelN(st.Ctx)))
			}
		}
		if shut {
			es = append(es, fmt.Sprintf("@Final %d", depth))
		}
		timer := p.Cfg.TimeoutMs != 0 && p.Cfg.SendSize != 0
		if *n > 0 {
			sb.WriteString(";\n")
		}
		fmt.Fprintf(sb, " case%d {| send_size := %d; max_size := %d; timer := %v |} [%s] [%s] [%s]", depth,
			p.Cfg.SendSize, p.Cfg.MaxSize, timer, strings.Join(es, "; "), strings.Join(ss, "; "), strings.Join(xs, "; "))
		*n++
		shards++
	}
	return
}

// waitCases: one Coq case per completed, uncancelled call with early_return off — the responses
// that were delivered to its channel (log order) and what the call returned.
func waitCases(res *runResult, sb *strings.Builder, n *int) {
	p := res.plan
	if p.Cfg.Early || res.hang != "" {
		return
	}
	sk := res.sink
	vidToK := map[int]int{}
	for _, e := range res.log {
		if e.Kind == "send" {
			for _, ex := range sk.exports {
				if ex.Data == e.Req {
					vidToK[e.Export] = ex.K
				}
			}
		}
	}
	waiterOf := map[int]int{}
	for _, e := range res.log {
		if e.Kind == "recv" {
			var id int
			if _, err := fmt.Sscan(e.DataID, &id); err == nil {
				waiterOf[id] = e.Waiter
			}
		}
	}
	for _, rp := range p.Reqs {
		w, ok := waiterOf[rp.ID]
		if !ok || !rp.returned || rp.skipped || rp.start > res.shutStart || w == 0 {
			continue
		}
		if rp.cancelSeq != 0 && rp.cancelSeq < rp.end {
			continue
		}
		var rs []string
		wraps := true
		for _, e := range res.log {
			if e.Kind == "respond" && e.Waiter == w && e.Done {
				k, ok := vidToK[e.Export]
				errs := "None"
				if ok && sk.exports[k].Err != nil {
					errs = fmt.Sprintf("(Some %d%%N)", k+1)
					if rp.err == nil || !errors.Is(rp.err, sk.exports[k].Err) {
						wraps = false
					}
				}
				rs = append(rs, fmt.Sprintf("{| r_err := %s; r_count := %d |}", errs, e.Num))
			}
		}
		if *n > 0 {
			sb.WriteString(";\n")
		}
		fmt.Fprintf(sb, " (%d%%Z, [%s], %v, %v)", rp.Items, strings.Join(rs, "; "), rp.err == nil, wraps)
		*n++
	}
}

// tenantCases: per run with metadata keys — which requests shared a shard, what metadata the
// exports saw, which combinations were admitted / refused.
func tenantCases(res *runResult, kb, ab *strings.Builder, nk, na *int) {
	p := res.plan
	if len(p.Cfg.MetaKeys) == 0 || res.hang != "" {
		return
	}
	in := res.in
	res.sink.mu.Lock()
	defer res.sink.mu.Unlock()
	keys := make([]string, len(p.Cfg.MetaKeys))
	for i, k := range p.Cfg.MetaKeys {
		keys[i] = strings.ToLower(k)
	}
	sort.Strings(keys)
	kid := func(k string) uint64 { return in.ID("key:" + k) }
	mdCoq := func(md map[string][]string) string {
		var parts []string
		var ks []string
		for k := range md {
			ks = append(ks, k)
		}
		sort.Strings(ks)
		for _, k := range ks {
			var vs []string
			for _, v := range md[k] {
				vs = append(vs, fmt.Sprint(in.ID("val:"+v)+1))
			}
			parts = append(parts, fmt.Sprintf("(%d, [%s])", kid(strings.ToLower(k)), strings.Join(vs, ";")))
		}
		return "[" + strings.Join(parts, "; ") + "]"
	}
	var kids []string
	for _, k := range keys {
		kids = append(kids, fmt.Sprint(kid(k)))
	}
	shardOf := map[int]int{}
	for _, e := range res.log {
		if e.Kind == "recv" {
			var id int
			if _, err := fmt.Sscan(e.DataID, &id); err == nil {
				shardOf[id] = e.Shard
			}
		}
	}
	var reqs []string
	refused := false
	var admitted []string
	for _, rp := range p.Reqs {
		tooMany := rp.err != nil && strings.Contains(rp.err.Error(), "too many batcher")
		sh, recvd := shardOf[rp.ID]
		if recvd {
			reqs = append(reqs, fmt.Sprintf("(%s, %d)", mdCoq(rp.Meta), sh))
		}
		// admitted = passed the admission step: received by a shard, or returned with anything but the limit error (a request
		// whose context ended between its admission and the hand-over to the shard holds a slot without ever being received)
		if recvd || (rp.returned && !rp.skipped && rp.start != 0 && !tooMany) {
			admitted = append(admitted, fmt.Sprint(in.ID("combo:"+comboKey(p.Cfg.MetaKeys, rp.Meta))))
		}
		if tooMany {
			refused = true
		}
	}
	// exports: (shard of the send, metadata seen by the downstream consumer)
	var exps []string
	for _, e := range res.log {
		if e.Kind == "send" {
			for _, ex := range res.sink.exports {
				if ex.Data == e.Req {
					exps = append(exps, fmt.Sprintf("(%d, %s)", e.Shard, mdCoq(ex.Meta)))
				}
			}
		}
	}
	if *nk > 0 {
		kb.WriteString(";\n")
	}
	fmt.Fprintf(kb, " ([%s], [%s], [%s])", strings.Join(kids, ";"), strings.Join(reqs, "; "), strings.Join(exps, "; "))
	*nk++
	if *na > 0 {
		ab.WriteString(";\n")
	}
	fmt.Fprintf(ab, " (%d, [%s], %v)", p.Cfg.MetaLimit, strings.Join(admitted, ";"), refused)
	*na++
}

// ltsCases: the run's event log as a trace of the protocol LTS (Batch/Lts.v).
func ltsCases(res *runResult, sb *strings.Builder, n *int) {
	p := res.plan
	if res.hang != "" {
		return
	}
	var evs []string
	known := map[int]bool{}
	decided := map[int]int{} // shard -> vid waiting for its Acquire
	idx := map[int]int{}     // vid -> export index in the model
	need := map[int]int{}    // vid -> responses still expected before Finish
	shut := map[int]bool{}
	called := false
	nexp := 0
	acquire := func(sh int) {
		if vid, ok := decided[sh]; ok {
			evs = append(evs, fmt.Sprintf("Acquire %d", sh-1))
			idx[vid] = nexp
			nexp++
			delete(decided, sh)
		}
	}
	shardOfVid := map[int]int{}
	for _, e := range res.log {
		switch e.Kind {
		case "recv", "timer", "shutdown", "send":
			if !known[e.Shard] {
				known[e.Shard] = true
				evs = append(evs, "NewShard")
			}
			acquire(e.Shard)
			if e.Kind == "shutdown" {
				if !called {
					called = true
					evs = append(evs, "CallShutdown")
				}
				shut[e.Shard] = true
			}
			if e.Kind == "send" {
				evs = append(evs, fmt.Sprintf("Decide %d", e.Shard-1))
				decided[e.Shard] = e.Export
				shardOfVid[e.Export] = e.Shard
				if p.Cfg.Early {
					need[e.Export] = 0
				} else {
					need[e.Export] = len(e.Tuples)
				}
			}
		case "export_start":
			if decided[shardOfVid[e.Export]] == e.Export {
				acquire(shardOfVid[e.Export])
			}
		case "export_end":
			if decided[shardOfVid[e.Export]] == e.Export {
				acquire(shardOfVid[e.Export])
			}
			evs = append(evs, fmt.Sprintf("ExportEnd %d", idx[e.Export]))
			if need[e.Export] == 0 {
				evs = append(evs, fmt.Sprintf("Finish %d", idx[e.Export]))
			}
		case "respond":
			need[e.Export]--
			if need[e.Export] == 0 {
				evs = append(evs, fmt.Sprintf("Finish %d", idx[e.Export]))
			}
		}
	}
	var shards []int
	for sh := range known {
		shards = append(shards, sh)
	}
	sort.Ints(shards)
	if !called {
		evs = append(evs, "CallShutdown")
	}
	for _, sh := range shards {
		acquire(sh)
		evs = append(evs, fmt.Sprintf("LoopExit %d", sh-1))
	}
	evs = append(evs, "ShutdownReturn")
	if *n > 0 {
		sb.WriteString(";\n")
	}
	fmt.Fprintf(sb, " (%d, [%s])", p.Cfg.MaxConc, strings.Join(evs, "; "))
	*n++
}

// timeCases: per shard of a run without a concurrency limit, the timed event trace (microseconds
// on the event log's clock) for Batch/Time.v, and per (request, export) the accept and send times.
// Forests are replaced by a single container holding the same number of items: the timed model
// only depends on counts.
func timeCases(res *runResult, tb, pb *strings.Builder, nt, np *int) {
	p := res.plan
	if p.Cfg.MaxConc != 0 || res.hang != "" {
		return
	}
	us := func(d time.Duration) int64 { return int64(d / time.Microsecond) }
	timeout := int64(p.Cfg.TimeoutMs) * 1000
	delta := timeout*5 + 2000000
	if p.Trickle {
		delta = timeout*5 + 200000
	}
	timer := p.Cfg.TimeoutMs != 0 && p.Cfg.SendSize != 0
	if !timer {
		delta = 50000 // no flush timer: a request leaves in the loop iteration that received it
	}
	// the lateness the runtime is allowed grows with the scheduling jitter measured during this very run
	delta += 4 * us(res.jitter)
	byShard := map[int][]cbp.VerifEvent{}
	var order []int
	for _, e := range res.log {
		switch e.Kind {
		case "recv", "timer", "shutdown":
			if _, ok := byShard[e.Shard]; !ok {
				order = append(order, e.Shard)
			}
			byShard[e.Shard] = append(byShard[e.Shard], e)
		}
	}
	sort.Ints(order)
	for _, sh := range order {
		evs := byShard[sh]
		t0 := us(res.startT)
		if len(p.Cfg.MetaKeys) > 0 {
			// the shard is created by the first Consume call for its combination, just before its first event
			t0 = us(evs[0].T)
		}
		var es []string
		for _, e := range evs {
			switch e.Kind {
			case "recv":
				if e.Num == 0 {
					es = append(es, fmt.Sprintf("(%d, TR0)", us(e.T)))
				} else {
					es = append(es, fmt.Sprintf("(%d, TR %d)", us(e.T), e.Num))
				}
			case "timer":
				es = append(es, fmt.Sprintf("(%d, @Timer 1)", us(e.T)))
			}
		}
		if *nt > 0 {
			tb.WriteString(";\n")
		}
		fmt.Fprintf(tb, " ({| send_size := %d; max_size := %d; timer := %v |}, %d, %d, %d, [%s])",
			p.Cfg.SendSize, p.Cfg.MaxSize, timer, timeout, delta, t0, strings.Join(es, "; "))
		*nt++
	}
	if p.Cfg.Shutdown != "after" {
		return
	}
	recvT := map[int]time.Duration{}
	for _, e := range res.log {
		if e.Kind == "recv" {
			var id int
			if _, err := fmt.Sscan(e.DataID, &id); err == nil {
				recvT[id] = e.T
			}
		}
	}
	sk := res.sink
	sk.mu.Lock()
	defer sk.mu.Unlock()
	owner := map[uint64]int{}
	for _, rp := range p.Reqs {
		for _, it := range rp.flat {
			owner[it.ID] = rp.ID
		}
	}
	var pairs []string
	for _, e := range res.log {
		if e.Kind != "send" {
			continue
		}
		for _, ex := range sk.exports {
			if ex.Data != e.Req {
				continue
			}
			seen := map[int]bool{}
			for _, it := range ex.Flat {
				id, ok0 := owner[it.ID]
				if ta, ok := recvT[id]; ok0 && ok && !seen[id] {
					seen[id] = true
					pairs = append(pairs, fmt.Sprintf("(%d, %d)", us(ta), us(e.T)))
				}
			}
		}
	}
	if len(pairs) == 0 {
		return
	}
	if *np > 0 {
		pb.WriteString(";\n")
	}
	eff := timeout
	if !timer {
		eff = 0
	}
	fmt.Fprintf(pb, " (%d, %d, [%s])", eff, delta, strings.Join(pairs, "; "))
	*np++
}

// e2eCases: per shard of a run with early_return off that ended with the final flush — the event
// sequence, the outcome of every export of the shard (in send order), and per waiter whose responses
// were all delivered the responses it really received.  Coq recomputes the model's sends, derives
// the responses of Batch/EndToEnd.v and compares them (as multisets) with the real ones.
func e2eCases(res *runResult, sb *strings.Builder, n *int) {
	p := res.plan
	if p.Cfg.Early || res.hang != "" {
		return
	}
	depth := 1
	if p.Cfg.Signal == 2 {
		depth = 2
	}
	sk := res.sink
	sk.mu.Lock()
	defer sk.mu.Unlock()
	reqByID := map[int]*reqPlan{}
	for _, rp := range p.Reqs {
		reqByID[rp.ID] = rp
	}
	byShard := map[int][]cbp.VerifEvent{}
	var order []int
	for _, e := range res.log {
		switch e.Kind {
		case "recv", "timer", "shutdown", "send":
			if _, ok := byShard[e.Shard]; !ok {
				order = append(order, e.Shard)
			}
			byShard[e.Shard] = append(byShard[e.Shard], e)
		}
	}
	sort.Ints(order)
	for _, sh := range order {
		var es, errs []string
		shut := false
		vids := map[int]int{}     // export vid -> send index within the shard
		tuplesOf := map[int]int{} // waiter -> number of tuples addressed to it
		errOfVid := map[int]string{}
		for _, e := range byShard[sh] {
			switch e.Kind {
			case "recv":
				var id int
				fmt.Sscan(e.DataID, &id)
				es = append(es, fmt.Sprintf("R%d %s %d %d", depth, ForestString(reqByID[id].forest), labelN(e.Ctx), e.Waiter))
			case "timer":
				es = append(es, fmt.Sprintf("@Timer %d", depth))
			case "shutdown":
				shut = true
			case "send":
				vids[e.Export] = len(errs)
				er := "None"
				for _, ex := range sk.exports {
					if ex.Data == e.Req && ex.Err != nil {
						er = fmt.Sprintf("Some %d", ex.K+1)
					}
				}
				errOfVid[e.Export] = er
				errs = append(errs, er)
				for _, t := range e.Tuples {
					tuplesOf[t.Waiter]++
				}
			}
		}
		if !shut {
			continue
		}
		got := map[int][]string{}
		delivered := map[int]int{}
		for _, e := range res.log {
			if e.Kind != "respond" {
				continue
			}
			if _, mine := vids[e.Export]; !mine {
				continue
			}
			if e.Done {
				delivered[e.Waiter]++
				er := errOfVid[e.Export]
				if er != "None" {
					er = "(" + er + ")"
				}
				got[e.Waiter] = append(got[e.Waiter], fmt.Sprintf("{| r_err := %s; r_count := %d |}", er, e.Num))
			}
		}
		var ws []int
		for w, k := range tuplesOf {
			if w != 0 && delivered[w] == k {
				ws = append(ws, w)
			}
		}
		sort.Ints(ws)
		if len(ws) == 0 {
			continue
		}
		var wr []string
		for _, w := range ws {
			wr = append(wr, fmt.Sprintf("(%d, [%s])", w, strings.Join(got[w], "; ")))
		}
		timer := p.Cfg.TimeoutMs != 0 && p.Cfg.SendSize != 0
		if *n > 0 {
			sb.WriteString(";\n")
		}
		fmt.Fprintf(sb, " e2e%d {| send_size := %d; max_size := %d; timer := %v |} [%s] [%s] [%s]", depth,
			p.Cfg.SendSize, p.Cfg.MaxSize, timer, strings.Join(es, "; "), strings.Join(errs, "; "), strings.Join(wr, "; "))
		*n++
	}
}

// respCases: the response protocol of one run as a trace of Batch/Resp.v — NewCaller (a request entered a
// shard), Spawn (a batch was cut: its tuples), Deliver / Skip (the export goroutine answered / gave up on a tuple).
// The callers' own steps (receive, context end) are not logged; the model fills them in.
func respCases(res *runResult, sb *strings.Builder, n *int) {
	p := res.plan
	if p.Cfg.Early || res.hang != "" {
		return
	}
	caller := map[int]int{} // waiter id -> caller index
	export := map[int]int{} // export vid -> queue index
	var evs []string
	for _, e := range res.log {
		switch e.Kind {
		case "recv":
			if e.Waiter == 0 {
				return
			}
			if _, ok := caller[e.Waiter]; !ok {
				caller[e.Waiter] = len(caller)
				evs = append(evs, fmt.Sprintf("NewCaller %d%%Z", e.Num))
			}
		case "send":
			export[e.Export] = len(export)
			var ts []string
			for _, t := range e.Tuples {
				ts = append(ts, fmt.Sprintf("(%d%%nat, %d%%Z)", caller[t.Waiter], t.Count))
			}
			evs = append(evs, fmt.Sprintf("Spawn [%s]", strings.Join(ts, "; ")))
		case "respond":
			if e.Done {
				evs = append(evs, fmt.Sprintf("Deliver %d", export[e.Export]))
			} else {
				evs = append(evs, fmt.Sprintf("Skip %d", export[e.Export]))
			}
		}
	}
	if *n > 0 {
		sb.WriteString(";\n")
	}
	fmt.Fprintf(sb, " [%s]", strings.Join(evs, "; "))
	*n++
}

func runSys(r *Rng, n int, focus, replay string, out *Output) {
	var sb strings.Builder
	sb.WriteString(`Definition case_t := {d : nat & (cfg * list (ev d) * list (send d) * list (bool * N))%type}.
Definition R1 (f : list (T 2)) (c w : N) : ev 1 := Recv f c w.
Definition R2 (f : list (T 3)) (c w : N) : ev 2 := Recv f c w.
Definition S1 (tr sent : N) (req : list (T 2)) (ts : list tuple) : send 1 := {| s_trigger := tr; s_sent := sent; s_req := req; s_tuples := ts |}.
Definition S2 (tr sent : N) (req : list (T 3)) (ts : list tuple) : send 2 := {| s_trigger := tr; s_sent := sent; s_req := req; s_tuples := ts |}.
Definition case1 (cf : cfg) (evs : list (ev 1)) (obs : list (send 1)) (ctxs : list (bool * N)) : case_t := existT _ 1%nat (cf, evs, obs, ctxs).
Definition case2 (cf : cfg) (evs : list (ev 2)) (obs : list (send 2)) (ctxs : list (bool * N)) : case_t := existT _ 2%nat (cf, evs, obs, ctxs).
Definition sys_cases : list case_t := [
`)
	ncase := 0
	var wb strings.Builder
	wb.WriteString("Definition wait_cases : list (Z * list resp * bool * bool) := [\n")
	nwait := 0
	var kb, ab strings.Builder
	kb.WriteString("Definition key_cases : list (list N * list (metadata * N) * list (N * metadata)) := [\n")
	ab.WriteString("Definition adm_cases : list (N * list N * bool) := [\n")
	nkey, nadm := 0, 0
	var lb strings.Builder
	lb.WriteString("Definition lts_cases : list (N * list lev) := [\n")
	nlts := 0
	var tb, pb strings.Builder
	tb.WriteString("Definition TR (n : N) : ev 1 := @Recv 1 ([((1, 0), [((2, 0), List.map N.of_nat (List.seq 0 (N.to_nat n)))])] : list (T 2)) 0 0.\nDefinition TR0 : ev 1 := @Recv 1 [] 0 0.\n")
	tb.WriteString("Definition time_cases : list (cfg * N * N * N * list (N * ev 1)) := [\n")
	pb.WriteString("Definition pair_cases : list (N * N * list (N * N)) := [\n")
	ntime, npair := 0, 0
	var eb strings.Builder
	eb.WriteString(`Definition e2e_t := {d : nat & (cfg * list (ev d) * list (option N) * list (N * list resp))%type}.
Definition e2e1 (cf : cfg) (evs : list (ev 1)) (errs : list (option N)) (ws : list (N * list resp)) : e2e_t := existT _ 1%nat (cf, evs, errs, ws).
Definition e2e2 (cf : cfg) (evs : list (ev 2)) (errs : list (option N)) (ws : list (N * list resp)) : e2e_t := existT _ 2%nat (cf, evs, errs, ws).
Definition e2e_cases : list e2e_t := [
`)
	ne2e := 0
	var rb strings.Builder
	rb.WriteString("Definition resp_cases : list (list rev) := [\n")
	nresp := 0
	stats := map[string]int{}
	for i := 0; i < n; i++ {
		forceTrickle = focus == "C09" && i%20 == 7
		forceNoTimer = 0
		if focus == "C09" && i%10 == 3 {
			forceNoTimer = 1
		} else if focus == "C09" && i%10 == 8 {
			forceNoTimer = 2
		}
		p := genPlan(r.Fork(), focus)
		if curFile != "" {
			// a crash of the code under test takes the process down: leave the plan behind for the report
			if b, err := json.Marshal(map[string]any{"run": i, "focus": focus, "plan": p}); err == nil {
				_ = os.WriteFile(curFile, b, 0o644)
			}
		}
		res := execPlan(p)
		before := len(out.Violations)
		validate(res, out, i, stats)
		shards := 0
		if res.hang == "" {
			shards = coqCases(res, i, &sb, &ncase)
			waitCases(res, &wb, &nwait)
			tenantCases(res, &kb, &ab, &nkey, &nadm)
			ltsCases(res, &lb, &nlts)
			if focus == "C09" {
				timeCases(res, &tb, &pb, &ntime, &npair)
			}
			if focus == "C06" {
				e2eCases(res, &eb, &ne2e)
			}
			if focus == "C06" || focus == "C11" {
				respCases(res, &rb, &nresp)
			}
		}
		kind := fmt.Sprintf("signal=%d early=%v meta=%v shutdown=%s trickle=%v", p.Cfg.Signal, p.Cfg.Early, len(p.Cfg.MetaKeys) > 0, p.Cfg.Shutdown, p.Trickle)
		obs := map[string]any{"run": i, "cfg": p.Cfg, "requests": len(p.Reqs), "exports": len(res.sink.exports), "shards": shards,
			"violations": len(out.Violations) - before}
		for s := 0; s < shards || s == 0; s++ {
			out.AddCase(obs, len(res.sink.exports) > 0, kind)
			if shards == 0 {
				break
			}
		}
	}
	sb.WriteString("\n].\n")
	wb.WriteString("\n].\n")
	kb.WriteString("\n].\n")
	ab.WriteString("\n].\n")
	lb.WriteString("\n].\n")
	out.Coq.WriteString(lb.String())
	out.Coq.WriteString(`(* every recorded run is a trace of the protocol LTS: each logged step was enabled in the model *)
Definition lts_mismatch := Eval vm_compute in failing (fun c : N * list lev => accepts (fst c) (snd c)) lts_cases.
Print lts_mismatch.
`)
	out.Coq.WriteString(kb.String())
	out.Coq.WriteString(ab.String())
	stats["tenant_cases"] = nkey
	out.Coq.WriteString(`Definition attr_eqb (a b : attr) : bool :=
  match a, b with
  | AString k v, AString k' v' => N.eqb k k' && N.eqb v v'
  | ASlice k vs, ASlice k' vs' => N.eqb k k' && list_eqb N.eqb vs vs'
  | _, _ => false
  end.
Definition first_of (sh : N) (reqs : list (metadata * N)) : option metadata :=
  match filter (fun r => N.eqb (snd r) sh) reqs with r :: _ => Some (fst r) | [] => None end.
(* same shard <-> same attribute set, for every pair of accepted requests; and every export saw the
   metadata the model derives from the request that created its shard *)
Definition key_check (c : list N * list (metadata * N) * list (N * metadata)) : bool :=
  let '(keys, reqs, exps) := c in
  forallb (fun r1 => forallb (fun r2 =>
     Bool.eqb (list_eqb attr_eqb (aset keys (fst r1)) (aset keys (fst r2))) (N.eqb (snd r1) (snd r2))) reqs) reqs &&
  forallb (fun e => match first_of (fst e) reqs with
                    | Some md => forallb (fun k => list_eqb N.eqb (get (shard_md keys md) k) (get (snd e) k)) keys
                    | None => false end) exps.
(* the property on the real observations: every export's visible metadata agrees with every request of its shard *)
Definition key_prop (c : list N * list (metadata * N) * list (N * metadata)) : bool :=
  let '(keys, reqs, exps) := c in
  forallb (fun e => forallb (fun r => negb (N.eqb (snd r) (fst e)) ||
                       forallb (fun k => list_eqb N.eqb (get (fst r) k) (get (snd e) k)) keys) reqs) exps.
Definition adm_prop (c : N * list N * bool) : bool := let '(limit, adm, refused) := c in admission_okb limit adm refused.
Definition key_mismatch := Eval vm_compute in failing key_check key_cases.
Definition key_propfail := Eval vm_compute in failing key_prop key_cases.
Definition adm_propfail := Eval vm_compute in failing adm_prop adm_cases.
Print key_mismatch.
Print key_propfail.
Print adm_propfail.
`)
	out.Coq.WriteString(sb.String())
	out.Coq.WriteString(wb.String())
	stats["wait_cases"] = nwait
	out.Coq.WriteString(`Definition wait_check (c : Z * list resp * bool * bool) : bool :=
  let '(n, rs, obs_nil, wraps) := c in
  match wait_run n (map GotResp rs) with
  | Returned errs false => Bool.eqb (match errs with [] => true | _ => false end) obs_nil && wraps
  | _ => false
  end.
Definition wait_mismatch := Eval vm_compute in failing wait_check wait_cases.
Print wait_mismatch.
`)
	out.Coq.WriteString(`Definition tuple_eqb (a b : tuple) : bool :=
  N.eqb (tp_waiter a) (tp_waiter b) && N.eqb (tp_count a) (tp_count b) && N.eqb (tp_ctx a) (tp_ctx b).
Definition send_eqb (d : nat) (a b : send d) : bool :=
  N.eqb (s_trigger d a) (s_trigger d b) && N.eqb (s_sent d a) (s_sent d b) &&
  forest_eqb (S d) (s_req d a) (s_req d b) && list_eqb tuple_eqb (s_tuples d a) (s_tuples d b).
Definition ctx_agrees (d : nat) (e : send d) (o : bool * N) : bool :=
  match export_plan (map tp_ctx (s_tuples d e)) with
  | Some {| p_ctx := FromCaller c |} => fst o && N.eqb (snd o) c
  | Some {| p_ctx := FromShard |} => negb (fst o) && N.eqb (snd o) 0
  | None => false
  end.
Fixpoint zipb {A B} (f : A -> B -> bool) (l1 : list A) (l2 : list B) : bool :=
  match l1, l2 with [], [] => true | a :: t1, b :: t2 => f a b && zipb f t1 t2 | _, _ => false end.
Definition model_sends (c : case_t) : {d : nat & (cfg * list (send d) * list (send d) * list (ev d) * list (bool * N))%type} :=
  let '(existT _ d (cf, evs, obs, ctxs)) := c in existT _ d (cf, snd (run d cf (init d) evs), obs, evs, ctxs).
(* projections of the correspondence, one per property *)
Definition sysctx_check (c : case_t) : bool :=
  let '(existT _ d (cf, evs, obs, ctxs)) := c in zipb (ctx_agrees d) obs ctxs.
Definition sysctx_prop (c : case_t) : bool :=
  let '(existT _ d (cf, evs, obs, ctxs)) := c in
  zipb (fun e (o : bool * N) => if fst o then forallb (N.eqb (snd o)) (map tp_ctx (s_tuples d e)) else true) obs ctxs.
Definition syscontent_check (c : case_t) : bool :=
  let '(existT _ d (cf, m, obs, evs, ctxs)) := model_sends c in
  list_eqb (forest_eqb (S d)) (map (s_req d) m) (map (s_req d) obs).
Definition flat_eqb := list_eqb (fun (a b : list ident * N) => list_eqb ident_eqb (fst a) (fst b) && N.eqb (snd a) (snd b)).
Definition syscontent_prop (c : case_t) : bool :=
  let '(existT _ d (cf, evs, obs, ctxs)) := c in
  let sent := flat_map (fun e => flat_list (S d) (s_req d e)) obs in
  let got := flat_map (ev_flat d) evs in
  flat_eqb sent (firstn (length sent) got) &&
  (if existsb (fun e => match e with Final => true | _ => false end) evs then Nat.eqb (length sent) (length got) else true).
Definition syssize_check (c : case_t) : bool :=
  let '(existT _ d (cf, m, obs, evs, ctxs)) := model_sends c in
  list_eqb (fun a b => N.eqb (fst a) (fst b) && N.eqb (snd a) (snd b))
    (map (fun e => (s_trigger d e, s_sent d e)) m) (map (fun e => (s_trigger d e, s_sent d e)) obs).
Definition syssize_prop (c : case_t) : bool :=
  let '(existT _ d (cf, evs, obs, ctxs)) := c in
  forallb (fun e => (1 <=? s_sent d e) && ((max_size cf =? 0) || (s_sent d e <=? max_size cf)) &&
                    (s_sent d e =? count_list (S d) (s_req d e))) obs.
Definition systuple_check (c : case_t) : bool :=
  let '(existT _ d (cf, m, obs, evs, ctxs)) := model_sends c in
  list_eqb (list_eqb tuple_eqb) (map (s_tuples d) m) (map (s_tuples d) obs).
(* per waiter: the counts handed out over all sends never exceed, and after the final flush equal, what it submitted *)
Definition waiter_total (d : nat) (w : N) (obs : list (send d)) : N :=
  sumN (map (fun e => sumN (map tp_count (filter (fun t => N.eqb (tp_waiter t) w) (s_tuples d e)))) obs).
Definition systuple_prop (c : case_t) : bool :=
  let '(existT _ d (cf, evs, obs, ctxs)) := c in
  forallb (fun e => sumN (map tp_count (s_tuples d e)) =? s_sent d e) obs &&
  forallb (fun e => match e with
                    | Recv data _ w => (w =? 0) ||
                        (let n := count_list (S d) data in let t := waiter_total d w obs in
                         (t <=? n) && (if existsb (fun e => match e with Final => true | _ => false end) evs then t =? n else true))
                    | _ => true end) evs.
Definition sys_check (c : case_t) : bool :=
  let '(existT _ d (cf, evs, obs, ctxs)) := c in
  list_eqb (send_eqb d) (snd (run d cf (init d) evs)) obs && zipb (ctx_agrees d) obs ctxs.
Definition sys_mismatch := Eval vm_compute in failing sys_check sys_cases.
Definition sysctx_mismatch := Eval vm_compute in failing sysctx_check sys_cases.
Definition sysctx_propfail := Eval vm_compute in failing sysctx_prop sys_cases.
Definition syscontent_mismatch := Eval vm_compute in failing syscontent_check sys_cases.
Definition syscontent_propfail := Eval vm_compute in failing syscontent_prop sys_cases.
Definition syssize_mismatch := Eval vm_compute in failing syssize_check sys_cases.
Definition syssize_propfail := Eval vm_compute in failing syssize_prop sys_cases.
Definition systuple_mismatch := Eval vm_compute in failing systuple_check sys_cases.
Definition systuple_propfail := Eval vm_compute in failing systuple_prop sys_cases.
Print sys_mismatch.
Print sysctx_mismatch.
Print sysctx_propfail.
Print syscontent_mismatch.
Print syscontent_propfail.
Print syssize_mismatch.
Print syssize_propfail.
Print systuple_mismatch.
Print systuple_propfail.
`)
	if focus == "C06" || focus == "C11" {
		rb.WriteString("\n].\n")
		out.Coq.WriteString(rb.String())
		out.Coq.WriteString(`(* the logged response protocol of every run is a trace of Batch/Resp.v (callers' steps filled in) *)
Definition resp_mismatch := Eval vm_compute in failing raccepts resp_cases.
Print resp_mismatch.
`)
		out.Lists = append(out.Lists, "resp_mismatch")
		stats["resp_cases"] = nresp
	}
	switch focus {
	case "C18":
		out.Lists = append(out.Lists, "sysctx_mismatch", "sysctx_propfail")
	case "C05":
		out.Lists = append(out.Lists, "syscontent_mismatch", "syscontent_propfail")
	case "C09":
		out.Lists = append(out.Lists, "syssize_mismatch", "syssize_propfail", "time_mismatch", "time_propfail")
		tb.WriteString("\n].\n")
		pb.WriteString("\n].\n")
		out.Coq.WriteString(tb.String())
		out.Coq.WriteString(pb.String())
		out.Coq.WriteString(`(* the real timer discipline is the model's: every logged (time, event) trace of a shard is accepted by
   Batch/Time.v (timer fires no earlier than 5 ms before the model's expiry, no event later than expiry + delta) *)
Definition time_check (c : cfg * N * N * N * list (N * ev 1)) : bool :=
  let '(cf, timeout, delta, t0, tr) := c in taccepts 1 timeout delta cf 5000 (tinit 1 timeout t0) tr.
(* the property on the real run: every item was sent no later than timeout (+ lateness) after it was accepted *)
Definition pair_prop (c : N * N * list (N * N)) : bool :=
  let '(timeout, delta, ps) := c in forallb (fun p : N * N => snd p <=? fst p + timeout + delta) ps.
Definition time_mismatch := Eval vm_compute in failing time_check time_cases.
Definition time_propfail := Eval vm_compute in failing pair_prop pair_cases.
Print time_mismatch.
Print time_propfail.
`)
		stats["time_cases"] = ntime
		stats["pair_cases"] = npair
	case "C06":
		out.Lists = append(out.Lists, "systuple_mismatch", "systuple_propfail", "wait_mismatch", "e2e_mismatch", "e2e_propfail")
		eb.WriteString("\n].\n")
		out.Coq.WriteString(eb.String())
		out.Coq.WriteString(`(* the composition of Batch/EndToEnd.v on real runs: the responses each caller really received are, as a multiset,
   the responses the model derives from the shard's history and the real export outcomes (e2e_mismatch); and the
   property itself on the real responses: they cover exactly the caller's items and replaying them through the
   caller's loop returns an error iff one of them failed (e2e_propfail) *)
Definition resp_eqb (a b : resp) : bool :=
  Z.eqb (r_count a) (r_count b) && match r_err a, r_err b with Some x, Some y => N.eqb x y | None, None => true | _, _ => false end.
Definition e2e_check (c : e2e_t) : bool :=
  let '(existT _ d (cf, evs, errs, ws)) := c in
  let es := snd (run d cf (init d) (evs ++ [Final])) in
  forallb (fun wr : N * list resp => perm_eqb resp_eqb (responses d (fun k => nth k errs None) (fst wr) es) (snd wr)) ws.
Definition e2e_prop (c : e2e_t) : bool :=
  let '(existT _ d (cf, evs, errs, ws)) := c in
  forallb (fun wr : N * list resp =>
    Z.eqb (total (snd wr)) (Z.of_N (recv_for d (fst wr) evs)) &&
    match wait_run (Z.of_N (recv_for d (fst wr) evs)) (map GotResp (snd wr)) with
    | Returned errs false => list_eqb N.eqb errs (failures (snd wr))
    | _ => false
    end) ws.
Definition e2e_mismatch := Eval vm_compute in failing e2e_check e2e_cases.
Definition e2e_propfail := Eval vm_compute in failing e2e_prop e2e_cases.
Print e2e_mismatch.
Print e2e_propfail.
`)
		stats["e2e_cases"] = ne2e
	case "C10":
		out.Lists = append(out.Lists, "key_mismatch", "key_propfail", "adm_propfail")
	case "C11":
		out.Lists = append(out.Lists, "lts_mismatch")
	default:
		out.Lists = append(out.Lists, "sys_mismatch")
	}
	out.Extra["stats"] = stats
	out.Extra["focus"] = focus
}
