package main

// Forest rendering of pdata: the shape the Coq model (Batch/Split.v) works on.
// A container identity is interned into (core, extra): core = what the processor's
// split code copies through Resource()/Scope() CopyTo or SetName/..., extra = schema URL
// (resource, scope) or metadata (metric).

import (
	"fmt"
	"sort"
	"strings"

	"go.opentelemetry.io/collector/pdata/pcommon"
	"go.opentelemetry.io/collector/pdata/plog"
	"go.opentelemetry.io/collector/pdata/pmetric"
	"go.opentelemetry.io/collector/pdata/ptrace"
)

type Node struct {
	Core, Extra uint64
	Kids        []*Node // nil for leaves
	Leaf        bool
	ID          uint64 // leaf id
}

type Interner struct {
	m    map[string]uint64
	back []string
}

func NewInterner() *Interner { return &Interner{m: map[string]uint64{}, back: []string{""}} }

// id 0 is reserved for "empty / default".
func (in *Interner) ID(s string) uint64 {
	if s == "" {
		return 0
	}
	if v, ok := in.m[s]; ok {
		return v
	}
	v := uint64(len(in.back))
	in.m[s] = v
	in.back = append(in.back, s)
	return v
}

func attrsString(m pcommon.Map) string {
	raw := m.AsRaw()
	keys := make([]string, 0, len(raw))
	for k := range raw {
		keys = append(keys, k)
	}
	sort.Strings(keys)
	var sb strings.Builder
	for _, k := range keys {
		fmt.Fprintf(&sb, "%q=%T:%v;", k, raw[k], raw[k])
	}
	return sb.String()
}

func resourceCore(r pcommon.Resource) string {
	return fmt.Sprintf("R{%s|%d}", attrsString(r.Attributes()), r.DroppedAttributesCount())
}
func scopeCore(s pcommon.InstrumentationScope) string {
	return fmt.Sprintf("S{%q|%q|%s|%d}", s.Name(), s.Version(), attrsString(s.Attributes()), s.DroppedAttributesCount())
}

func spanString(s ptrace.Span) string {
	var sb strings.Builder
	fmt.Fprintf(&sb, "span{%q|%s|%s|%s|%q|%d|%d|%d|%s|%d|%d|%d|%d|%q|", s.Name(), s.TraceID(), s.SpanID(), s.ParentSpanID(),
		s.TraceState().AsRaw(), s.Kind(), s.StartTimestamp(), s.EndTimestamp(), attrsString(s.Attributes()),
		s.DroppedAttributesCount(), s.DroppedEventsCount(), s.DroppedLinksCount(), s.Status().Code(), s.Status().Message())
	for i := 0; i < s.Events().Len(); i++ {
		e := s.Events().At(i)
		fmt.Fprintf(&sb, "ev{%q|%d|%s}", e.Name(), e.Timestamp(), attrsString(e.Attributes()))
	}
	for i := 0; i < s.Links().Len(); i++ {
		l := s.Links().At(i)
		fmt.Fprintf(&sb, "ln{%s|%s|%s}", l.TraceID(), l.SpanID(), attrsString(l.Attributes()))
	}
	sb.WriteString("}")
	return sb.String()
}

func logString(l plog.LogRecord) string {
	return fmt.Sprintf("log{%d|%d|%d|%q|%v|%s|%d|%d|%s|%s}", l.Timestamp(), l.ObservedTimestamp(), l.SeverityNumber(), l.SeverityText(),
		l.Body().AsRaw(), attrsString(l.Attributes()), l.DroppedAttributesCount(), l.Flags(), l.TraceID(), l.SpanID())
}

func TracesForest(in *Interner, td ptrace.Traces) []*Node {
	var out []*Node
	for i := 0; i < td.ResourceSpans().Len(); i++ {
		rs := td.ResourceSpans().At(i)
		rn := &Node{Core: in.ID(resourceCore(rs.Resource())), Extra: in.ID(rs.SchemaUrl()), Kids: []*Node{}}
		for j := 0; j < rs.ScopeSpans().Len(); j++ {
			ss := rs.ScopeSpans().At(j)
			sn := &Node{Core: in.ID(scopeCore(ss.Scope())), Extra: in.ID(ss.SchemaUrl()), Kids: []*Node{}}
			for k := 0; k < ss.Spans().Len(); k++ {
				sn.Kids = append(sn.Kids, &Node{Leaf: true, ID: in.ID(spanString(ss.Spans().At(k)))})
			}
			rn.Kids = append(rn.Kids, sn)
		}
		out = append(out, rn)
	}
	return out
}

func LogsForest(in *Interner, ld plog.Logs) []*Node {
	var out []*Node
	for i := 0; i < ld.ResourceLogs().Len(); i++ {
		rs := ld.ResourceLogs().At(i)
		rn := &Node{Core: in.ID(resourceCore(rs.Resource())), Extra: in.ID(rs.SchemaUrl()), Kids: []*Node{}}
		for j := 0; j < rs.ScopeLogs().Len(); j++ {
			ss := rs.ScopeLogs().At(j)
			sn := &Node{Core: in.ID(scopeCore(ss.Scope())), Extra: in.ID(ss.SchemaUrl()), Kids: []*Node{}}
			for k := 0; k < ss.LogRecords().Len(); k++ {
				sn.Kids = append(sn.Kids, &Node{Leaf: true, ID: in.ID(logString(ss.LogRecords().At(k)))})
			}
			rn.Kids = append(rn.Kids, sn)
		}
		out = append(out, rn)
	}
	return out
}

func metricCore(m pmetric.Metric) string {
	s := fmt.Sprintf("M{%q|%q|%q|%d", m.Name(), m.Description(), m.Unit(), m.Type())
	switch m.Type() {
	case pmetric.MetricTypeSum:
		s += fmt.Sprintf("|%d|%v", m.Sum().AggregationTemporality(), m.Sum().IsMonotonic())
	case pmetric.MetricTypeHistogram:
		s += fmt.Sprintf("|%d", m.Histogram().AggregationTemporality())
	case pmetric.MetricTypeExponentialHistogram:
		s += fmt.Sprintf("|%d", m.ExponentialHistogram().AggregationTemporality())
	}
	return s + "}"
}

func exemplarsString(es pmetric.ExemplarSlice) string {
	var sb strings.Builder
	for i := 0; i < es.Len(); i++ {
		e := es.At(i)
		fmt.Fprintf(&sb, "ex{%d|%d|%v|%v|%s}", e.Timestamp(), e.ValueType(), e.IntValue(), e.DoubleValue(), attrsString(e.FilteredAttributes()))
	}
	return sb.String()
}

func MetricsForest(in *Interner, md pmetric.Metrics) []*Node {
	var out []*Node
	for i := 0; i < md.ResourceMetrics().Len(); i++ {
		rs := md.ResourceMetrics().At(i)
		rn := &Node{Core: in.ID(resourceCore(rs.Resource())), Extra: in.ID(rs.SchemaUrl()), Kids: []*Node{}}
		for j := 0; j < rs.ScopeMetrics().Len(); j++ {
			ss := rs.ScopeMetrics().At(j)
			sn := &Node{Core: in.ID(scopeCore(ss.Scope())), Extra: in.ID(ss.SchemaUrl()), Kids: []*Node{}}
			for k := 0; k < ss.Metrics().Len(); k++ {
				m := ss.Metrics().At(k)
				mn := &Node{Core: in.ID(metricCore(m)), Extra: in.ID(attrsString(m.Metadata())), Kids: []*Node{}}
				leaf := func(s string) { mn.Kids = append(mn.Kids, &Node{Leaf: true, ID: in.ID(s)}) }
				switch m.Type() {
				case pmetric.MetricTypeGauge, pmetric.MetricTypeSum:
					var dps pmetric.NumberDataPointSlice
					if m.Type() == pmetric.MetricTypeGauge {
						dps = m.Gauge().DataPoints()
					} else {
						dps = m.Sum().DataPoints()
					}
					for q := 0; q < dps.Len(); q++ {
						p := dps.At(q)
						leaf(fmt.Sprintf("ndp{%s|%d|%d|%d|%v|%v|%d|%s}", attrsString(p.Attributes()), p.StartTimestamp(), p.Timestamp(), p.ValueType(), p.IntValue(), p.DoubleValue(), p.Flags(), exemplarsString(p.Exemplars())))
					}
				case pmetric.MetricTypeHistogram:
					dps := m.Histogram().DataPoints()
					for q := 0; q < dps.Len(); q++ {
						p := dps.At(q)
						leaf(fmt.Sprintf("hdp{%s|%d|%d|%d|%v%v|%v%v|%v%v|%v|%v|%d|%s}", attrsString(p.Attributes()), p.StartTimestamp(), p.Timestamp(), p.Count(), p.HasSum(), p.Sum(), p.HasMin(), p.Min(), p.HasMax(), p.Max(), p.BucketCounts().AsRaw(), p.ExplicitBounds().AsRaw(), p.Flags(), exemplarsString(p.Exemplars())))
					}
				case pmetric.MetricTypeExponentialHistogram:
					dps := m.ExponentialHistogram().DataPoints()
					for q := 0; q < dps.Len(); q++ {
						p := dps.At(q)
						leaf(fmt.Sprintf("ehdp{%s|%d|%d|%d|%v%v|%v%v|%v%v|%d|%d|%d%v|%d%v|%d|%s}", attrsString(p.Attributes()), p.StartTimestamp(), p.Timestamp(), p.Count(), p.HasSum(), p.Sum(), p.HasMin(), p.Min(), p.HasMax(), p.Max(), p.Scale(), p.ZeroCount(), p.Positive().Offset(), p.Positive().BucketCounts().AsRaw(), p.Negative().Offset(), p.Negative().BucketCounts().AsRaw(), p.Flags(), exemplarsString(p.Exemplars())))
					}
				case pmetric.MetricTypeSummary:
					dps := m.Summary().DataPoints()
					for q := 0; q < dps.Len(); q++ {
						p := dps.At(q)
						qs := ""
						for z := 0; z < p.QuantileValues().Len(); z++ {
							qs += fmt.Sprintf("%v:%v,", p.QuantileValues().At(z).Quantile(), p.QuantileValues().At(z).Value())
						}
						leaf(fmt.Sprintf("sdp{%s|%d|%d|%d|%v|%s|%d}", attrsString(p.Attributes()), p.StartTimestamp(), p.Timestamp(), p.Count(), p.Sum(), qs, p.Flags()))
					}
				}
				sn.Kids = append(sn.Kids, mn)
			}
			rn.Kids = append(rn.Kids, sn)
		}
		out = append(out, rn)
	}
	return out
}

// Coq syntax: leaf = N numeral; node = ((core, extra), [kids])
func (n *Node) Coq(sb *strings.Builder) {
	if n.Leaf {
		fmt.Fprintf(sb, "%d", n.ID)
		return
	}
	fmt.Fprintf(sb, "((%d,%d),", n.Core, n.Extra)
	ForestCoq(sb, n.Kids)
	sb.WriteString(")")
}

func ForestCoq(sb *strings.Builder, f []*Node) {
	sb.WriteString("[")
	for i, k := range f {
		if i > 0 {
			sb.WriteString(";")
		}
		k.Coq(sb)
	}
	sb.WriteString("]")
}

func ForestString(f []*Node) string {
	var sb strings.Builder
	ForestCoq(&sb, f)
	return sb.String()
}

type FlatItem struct {
	Path string
	ID   uint64
}

func Flatten(f []*Node) []FlatItem {
	var out []FlatItem
	var rec func(n *Node, path string)
	rec = func(n *Node, path string) {
		if n.Leaf {
			out = append(out, FlatItem{path, n.ID})
			return
		}
		p := fmt.Sprintf("%s/(%d,%d)", path, n.Core, n.Extra)
		for _, k := range n.Kids {
			rec(k, p)
		}
	}
	for _, n := range f {
		rec(n, "")
	}
	return out
}

func CountItems(f []*Node) int { return len(Flatten(f)) }
