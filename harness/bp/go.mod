module verif/harness/bp

go 1.23.0

toolchain go1.23.6

require (
	github.com/stretchr/testify v1.10.0
	go.opentelemetry.io/collector/client v1.28.0
	go.opentelemetry.io/collector/component v1.29.0
	go.opentelemetry.io/collector/component/componenttest v0.123.0
	go.opentelemetry.io/collector/confmap v1.29.0
	go.opentelemetry.io/collector/consumer v1.29.0
	go.opentelemetry.io/collector/consumer/consumererror v0.123.0
	go.opentelemetry.io/collector/consumer/consumertest v0.123.0
	go.opentelemetry.io/collector/exporter v0.123.0
	go.opentelemetry.io/collector/pdata v1.29.0
	go.opentelemetry.io/collector/pdata/testdata v0.123.0
	go.opentelemetry.io/collector/pipeline v0.123.0
	go.opentelemetry.io/collector/processor v1.29.0
	go.opentelemetry.io/collector/processor/processortest v0.123.0
	go.opentelemetry.io/otel v1.35.0
	go.opentelemetry.io/otel/metric v1.35.0
	go.opentelemetry.io/otel/sdk v1.35.0
	go.opentelemetry.io/otel/sdk/metric v1.35.0
	go.opentelemetry.io/otel/trace v1.35.0
	go.uber.org/goleak v1.3.0
	go.uber.org/zap v1.27.0
	golang.org/x/sync v0.12.0
)

require (
	github.com/cenkalti/backoff/v5 v5.0.2 // indirect
	github.com/davecgh/go-spew v1.1.1 // indirect
	github.com/go-logr/logr v1.4.2 // indirect
	github.com/go-logr/stdr v1.2.2 // indirect
	github.com/go-viper/mapstructure/v2 v2.2.1 // indirect
	github.com/gogo/protobuf v1.3.2 // indirect
	github.com/google/uuid v1.6.0 // indirect
	github.com/hashicorp/go-version v1.7.0 // indirect
	github.com/json-iterator/go v1.1.12 // indirect
	github.com/knadh/koanf/maps v0.1.1 // indirect
	github.com/knadh/koanf/providers/confmap v0.1.0 // indirect
	github.com/knadh/koanf/v2 v2.1.2 // indirect
	github.com/mitchellh/copystructure v1.2.0 // indirect
	github.com/mitchellh/reflectwalk v1.0.2 // indirect
	github.com/modern-go/concurrent v0.0.0-20180306012644-bacd9c7ef1dd // indirect
	github.com/modern-go/reflect2 v1.0.2 // indirect
	github.com/pmezard/go-difflib v1.0.0 // indirect
	go.opentelemetry.io/auto/sdk v1.1.0 // indirect
	go.opentelemetry.io/collector/component/componentstatus v0.123.0 // indirect
	go.opentelemetry.io/collector/config/configretry v1.29.0 // indirect
	go.opentelemetry.io/collector/consumer/xconsumer v0.123.0 // indirect
	go.opentelemetry.io/collector/extension v1.29.0 // indirect
	go.opentelemetry.io/collector/extension/xextension v0.123.0 // indirect
	go.opentelemetry.io/collector/featuregate v1.29.0 // indirect
	go.opentelemetry.io/collector/internal/telemetry v0.123.0 // indirect
	go.opentelemetry.io/collector/pdata/pprofile v0.123.0 // indirect
	go.opentelemetry.io/collector/processor/xprocessor v0.123.0 // indirect
	go.opentelemetry.io/contrib/bridges/otelzap v0.10.0 // indirect
	go.opentelemetry.io/otel/log v0.11.0 // indirect
	go.uber.org/multierr v1.11.0 // indirect
	golang.org/x/net v0.37.0 // indirect
	golang.org/x/sys v0.31.0 // indirect
	golang.org/x/text v0.23.0 // indirect
	google.golang.org/genproto/googleapis/rpc v0.0.0-20250115164207-1a7da9e5054f // indirect
	google.golang.org/grpc v1.71.0 // indirect
	google.golang.org/protobuf v1.36.6 // indirect
	gopkg.in/yaml.v3 v3.0.1 // indirect
)


require github.com/open-telemetry/otel-arrow/collector/processor/concurrentbatchprocessor v0.0.0

replace github.com/open-telemetry/otel-arrow/collector/processor/concurrentbatchprocessor => /repo/collector/processor/concurrentbatchprocessor
