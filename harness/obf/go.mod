module verif/harness/obf

go 1.23.0

toolchain go1.23.6

require (
	github.com/cyrildever/feistel v1.5.5
	github.com/stretchr/testify v1.10.0
	go.opentelemetry.io/collector/component v1.29.0
	go.opentelemetry.io/collector/consumer v1.29.0
	go.opentelemetry.io/collector/pdata v1.29.0
	go.opentelemetry.io/collector/processor v1.29.0
	go.opentelemetry.io/collector/processor/processorhelper v0.123.0
	go.uber.org/zap v1.27.0
)

require (
	github.com/btcsuite/btcd/btcec/v2 v2.3.2 // indirect
	github.com/davecgh/go-spew v1.1.1 // indirect
	github.com/decred/dcrd/dcrec/secp256k1/v4 v4.0.1 // indirect
	github.com/ethereum/go-ethereum v1.13.1 // indirect
	github.com/fatih/color v1.15.0 // indirect
	github.com/go-logr/logr v1.4.2 // indirect
	github.com/go-logr/stdr v1.2.2 // indirect
	github.com/go-stack/stack v1.8.1 // indirect
	github.com/gofrs/uuid v4.4.0+incompatible // indirect
	github.com/gogo/protobuf v1.3.2 // indirect
	github.com/google/uuid v1.6.0 // indirect
	github.com/hashicorp/go-version v1.7.0 // indirect
	github.com/holiman/uint256 v1.2.3 // indirect
	github.com/json-iterator/go v1.1.12 // indirect
	github.com/mattn/go-colorable v0.1.13 // indirect
	github.com/mattn/go-isatty v0.0.19 // indirect
	github.com/modern-go/concurrent v0.0.0-20180306012644-bacd9c7ef1dd // indirect
	github.com/modern-go/reflect2 v1.0.2 // indirect
	github.com/pmezard/go-difflib v1.0.0 // indirect
	github.com/vmihailenco/msgpack/v5 v5.3.5 // indirect
	github.com/vmihailenco/tagparser/v2 v2.0.0 // indirect
	go.mongodb.org/mongo-driver v1.12.1 // indirect
	go.opentelemetry.io/auto/sdk v1.1.0 // indirect
	go.opentelemetry.io/collector/component/componentstatus v0.123.0 // indirect
	go.opentelemetry.io/collector/component/componenttest v0.123.0 // indirect
	go.opentelemetry.io/collector/consumer/consumertest v0.123.0 // indirect
	go.opentelemetry.io/collector/consumer/xconsumer v0.123.0 // indirect
	go.opentelemetry.io/collector/featuregate v1.29.0 // indirect
	go.opentelemetry.io/collector/internal/telemetry v0.123.0 // indirect
	go.opentelemetry.io/collector/pdata/pprofile v0.123.0 // indirect
	go.opentelemetry.io/collector/pdata/testdata v0.123.0 // indirect
	go.opentelemetry.io/collector/pipeline v0.123.0 // indirect
	go.opentelemetry.io/collector/processor/xprocessor v0.123.0 // indirect
	go.opentelemetry.io/contrib/bridges/otelzap v0.10.0 // indirect
	go.opentelemetry.io/otel v1.35.0 // indirect
	go.opentelemetry.io/otel/log v0.11.0 // indirect
	go.opentelemetry.io/otel/metric v1.35.0 // indirect
	go.opentelemetry.io/otel/sdk v1.35.0 // indirect
	go.opentelemetry.io/otel/sdk/metric v1.35.0 // indirect
	go.opentelemetry.io/otel/trace v1.35.0 // indirect
	go.uber.org/multierr v1.11.0 // indirect
	golang.org/x/crypto v0.36.0 // indirect
	golang.org/x/net v0.37.0 // indirect
	golang.org/x/sys v0.31.0 // indirect
	golang.org/x/text v0.23.0 // indirect
	google.golang.org/genproto/googleapis/rpc v0.0.0-20250115164207-1a7da9e5054f // indirect
	google.golang.org/grpc v1.71.0 // indirect
	google.golang.org/protobuf v1.36.6 // indirect
	gopkg.in/yaml.v3 v3.0.1 // indirect
)

require (
	github.com/cyrildever/go-utls v1.9.7
	github.com/open-telemetry/otel-arrow/collector/processor/obfuscationprocessor v0.0.0
	go.opentelemetry.io/collector/processor/processortest v0.123.0
)

replace github.com/open-telemetry/otel-arrow/collector/processor/obfuscationprocessor => /repo/collector/processor/obfuscationprocessor
