package main

import "math"

func mathFloat64bits(f float64) uint64 { return math.Float64bits(f) }
