package main

// splitmix64: every random choice of a run derives from one state.
type Rng struct{ s uint64 }

func NewRng(seed uint64) *Rng { return &Rng{s: seed*0x9E3779B97F4A7C15 + 0x1234567} }
func (r *Rng) U64() uint64 {
	r.s += 0x9E3779B97F4A7C15
	z := r.s
	z = (z ^ (z >> 30)) * 0xBF58476D1CE4E5B9
	z = (z ^ (z >> 27)) * 0x94D049BB133111EB
	return z ^ (z >> 31)
}
func (r *Rng) Intn(n int) int {
	if n <= 0 {
		return 0
	}
	return int(r.U64() % uint64(n))
}
func (r *Rng) Bool() bool        { return r.U64()&1 == 1 }
func (r *Rng) Chance(p int) bool { return r.Intn(100) < p } // p percent
func (r *Rng) Fork() *Rng        { return NewRng(r.U64()) }
