package main

// C17: the real obfuscation processor (both modes, three signals) and the real Feistel FPE cipher.

import (
	"context"
	"fmt"
	"sort"
	"strings"
	"sync"

	"github.com/cyrildever/feistel"
	futils "github.com/cyrildever/feistel/common/utils"
	"github.com/cyrildever/feistel/common/utils/hash"
	utls "github.com/cyrildever/go-utls/common/utils"
	obf "github.com/open-telemetry/otel-arrow/collector/processor/obfuscationprocessor"
	"go.opentelemetry.io/collector/consumer"
	"go.opentelemetry.io/collector/pdata/pcommon"
	"go.opentelemetry.io/collector/pdata/plog"
	"go.opentelemetry.io/collector/pdata/pmetric"
	"go.opentelemetry.io/collector/pdata/ptrace"
	"go.opentelemetry.io/collector/processor/processortest"
)

func init() {
	subcommands["obf"] = runObf
	subcommands["feistel"] = runFeistel
}

func coqBytes(s string) string {
	if len(s) == 0 {
		return "[]"
	}
	parts := make([]string, len(s))
	for i := 0; i < len(s); i++ {
		parts[i] = fmt.Sprint(s[i])
	}
	return "[" + strings.Join(parts, ";") + "]"
}

func coqValue(sb *strings.Builder, v pcommon.Value) {
	switch v.Type() {
	case pcommon.ValueTypeEmpty:
		sb.WriteString("VEmpty")
	case pcommon.ValueTypeStr:
		sb.WriteString("VStr " + coqBytes(v.Str()))
	case pcommon.ValueTypeInt:
		fmt.Fprintf(sb, "VInt (%d)%%Z", v.Int())
	case pcommon.ValueTypeDouble:
		fmt.Fprintf(sb, "VDouble %d", mathFloat64bits(v.Double()))
	case pcommon.ValueTypeBool:
		fmt.Fprintf(sb, "VBool %v", v.Bool())
	case pcommon.ValueTypeBytes:
		sb.WriteString("VBytes " + coqBytes(string(v.Bytes().AsRaw())))
	case pcommon.ValueTypeSlice:
		sb.WriteString("VList [")
		for i := 0; i < v.Slice().Len(); i++ {
			if i > 0 {
				sb.WriteString("; ")
			}
			sb.WriteString("(")
			coqValue(sb, v.Slice().At(i))
			sb.WriteString(")")
		}
		sb.WriteString("]")
	case pcommon.ValueTypeMap:
		sb.WriteString("VMap ")
		coqMap(sb, v.Map())
	}
}

func coqMap(sb *strings.Builder, m pcommon.Map) {
	sb.WriteString("[")
	first := true
	m.Range(func(k string, v pcommon.Value) bool {
		if !first {
			sb.WriteString("; ")
		}
		first = false
		sb.WriteString("(" + coqBytes(k) + ", ")
		coqValue(sb, v)
		sb.WriteString(")")
		return true
	})
	sb.WriteString("]")
}

type items struct {
	sb    strings.Builder
	n     int
	attrs int
	maps  []pcommon.Map // copies of the attribute maps, in traversal order
}

func (it *items) attrsItem(m pcommon.Map) {
	cp := pcommon.NewMap()
	m.CopyTo(cp)
	it.maps = append(it.maps, cp)
	if it.n > 0 {
		it.sb.WriteString("; ")
	}
	it.n++
	it.attrs += m.Len()
	it.sb.WriteString("IAttrs ")
	coqMap(&it.sb, m)
}
func (it *items) str(kind int, s string) {
	if it.n > 0 {
		it.sb.WriteString("; ")
	}
	it.n++
	fmt.Fprintf(&it.sb, "IStr %d %s", kind, coqBytes(s))
}
func (it *items) String() string { return "[" + it.sb.String() + "]" }

// kinds: 1 scope name, 2 scope version, 3 span name, 4 status message, 5 event name, 6 trace state,
// 7 log body (string form), 8 metric name, 9 metric description, 10 metric unit, 11 severity text,
// 12 schema url, 13 structural marker (counts)
func flattenTraces(td ptrace.Traces) *items {
	it := &items{}
	for i := 0; i < td.ResourceSpans().Len(); i++ {
		rs := td.ResourceSpans().At(i)
		it.str(13, "R")
		it.attrsItem(rs.Resource().Attributes())
		it.str(12, rs.SchemaUrl())
		for j := 0; j < rs.ScopeSpans().Len(); j++ {
			ss := rs.ScopeSpans().At(j)
			it.str(13, "S")
			it.attrsItem(ss.Scope().Attributes())
			it.str(1, ss.Scope().Name())
			it.str(2, ss.Scope().Version())
			for k := 0; k < ss.Spans().Len(); k++ {
				sp := ss.Spans().At(k)
				it.str(13, fmt.Sprintf("P%s%s%d%d%d|%s|%d|%d|%d|%d|%d", sp.TraceID(), sp.SpanID(), sp.Kind(), sp.StartTimestamp(), sp.EndTimestamp(),
					sp.ParentSpanID(), sp.Flags(), sp.Status().Code(), sp.DroppedAttributesCount(), sp.DroppedEventsCount(), sp.DroppedLinksCount()))
				it.str(3, sp.Name())
				it.str(4, sp.Status().Message())
				it.str(6, sp.TraceState().AsRaw())
				it.attrsItem(sp.Attributes())
				for e := 0; e < sp.Events().Len(); e++ {
					it.str(13, fmt.Sprintf("E%d|%d", sp.Events().At(e).Timestamp(), sp.Events().At(e).DroppedAttributesCount()))
					it.str(5, sp.Events().At(e).Name())
					it.attrsItem(sp.Events().At(e).Attributes())
				}
				for l := 0; l < sp.Links().Len(); l++ {
					it.str(13, fmt.Sprintf("L%s|%s|%q|%d|%d", sp.Links().At(l).SpanID(), sp.Links().At(l).TraceID(), sp.Links().At(l).TraceState().AsRaw(), sp.Links().At(l).Flags(), sp.Links().At(l).DroppedAttributesCount()))
					it.attrsItem(sp.Links().At(l).Attributes())
				}
			}
		}
	}
	return it
}

func flattenLogs(ld plog.Logs) *items {
	it := &items{}
	for i := 0; i < ld.ResourceLogs().Len(); i++ {
		rl := ld.ResourceLogs().At(i)
		it.str(13, "R")
		it.attrsItem(rl.Resource().Attributes())
		for j := 0; j < rl.ScopeLogs().Len(); j++ {
			sl := rl.ScopeLogs().At(j)
			it.str(13, "S")
			it.attrsItem(sl.Scope().Attributes())
			it.str(1, sl.Scope().Name())
			it.str(2, sl.Scope().Version())
			for k := 0; k < sl.LogRecords().Len(); k++ {
				lr := sl.LogRecords().At(k)
				it.str(13, fmt.Sprintf("G%d%d|%d|%d|%d|%q|%s|%s|%d", lr.Timestamp(), lr.SeverityNumber(), lr.ObservedTimestamp(), lr.Flags(), lr.DroppedAttributesCount(), lr.EventName(), lr.TraceID(), lr.SpanID(), lr.Body().Type()))
				it.str(7, lr.Body().AsString())
				it.str(11, lr.SeverityText())
				it.attrsItem(lr.Attributes())
			}
		}
	}
	return it
}

func flattenMetrics(md pmetric.Metrics) *items {
	it := &items{}
	for i := 0; i < md.ResourceMetrics().Len(); i++ {
		rm := md.ResourceMetrics().At(i)
		it.str(13, "R")
		it.attrsItem(rm.Resource().Attributes())
		for j := 0; j < rm.ScopeMetrics().Len(); j++ {
			sm := rm.ScopeMetrics().At(j)
			it.str(13, "S")
			it.attrsItem(sm.Scope().Attributes())
			it.str(1, sm.Scope().Name())
			for k := 0; k < sm.Metrics().Len(); k++ {
				m := sm.Metrics().At(k)
				it.str(13, fmt.Sprintf("M%d|%v", m.Type(), m.Metadata().AsRaw()))
				it.str(8, m.Name())
				it.str(9, m.Description())
				it.str(10, m.Unit())
				switch m.Type() {
				case pmetric.MetricTypeGauge:
					for q := 0; q < m.Gauge().DataPoints().Len(); q++ {
						p := m.Gauge().DataPoints().At(q)
						it.str(13, fmt.Sprintf("D%d%v%v|%d|%d|%s", p.Timestamp(), p.IntValue(), p.DoubleValue(), p.Flags(), p.StartTimestamp(), exemplarsKey(p.Exemplars())))
						it.attrsItem(p.Attributes())
					}
				case pmetric.MetricTypeSum:
					for q := 0; q < m.Sum().DataPoints().Len(); q++ {
						p := m.Sum().DataPoints().At(q)
						it.str(13, fmt.Sprintf("D%d%v%v|%d|%d|%s", p.Timestamp(), p.IntValue(), p.DoubleValue(), p.Flags(), p.StartTimestamp(), exemplarsKey(p.Exemplars())))
						it.attrsItem(p.Attributes())
					}
				case pmetric.MetricTypeHistogram:
					for q := 0; q < m.Histogram().DataPoints().Len(); q++ {
						p := m.Histogram().DataPoints().At(q)
						it.str(13, fmt.Sprintf("D%d%d|%d|%v|%v|%s", p.Timestamp(), p.Count(), p.Flags(), p.BucketCounts().AsRaw(), p.ExplicitBounds().AsRaw(), exemplarsKey(p.Exemplars())))
						it.attrsItem(p.Attributes())
					}
				case pmetric.MetricTypeExponentialHistogram:
					for q := 0; q < m.ExponentialHistogram().DataPoints().Len(); q++ {
						p := m.ExponentialHistogram().DataPoints().At(q)
						it.str(13, fmt.Sprintf("D%d%d|%d|%d|%v|%s", p.Timestamp(), p.Count(), p.Flags(), p.Scale(), p.Positive().BucketCounts().AsRaw(), exemplarsKey(p.Exemplars())))
						it.attrsItem(p.Attributes())
					}
				case pmetric.MetricTypeSummary:
					for q := 0; q < m.Summary().DataPoints().Len(); q++ {
						p := m.Summary().DataPoints().At(q)
						qs := ""
						for x := 0; x < p.QuantileValues().Len(); x++ {
							qs += fmt.Sprintf("%v=%v;", p.QuantileValues().At(x).Quantile(), p.QuantileValues().At(x).Value())
						}
						it.str(13, fmt.Sprintf("D%d%d|%d|%s", p.Timestamp(), p.Count(), p.Flags(), qs))
						it.attrsItem(p.Attributes())
					}
				}
			}
		}
	}
	return it
}

// exemplars are not attribute maps of the telemetry items the processor is configured for: they must come out as they went in
func exemplarsKey(es pmetric.ExemplarSlice) string {
	out := ""
	for i := 0; i < es.Len(); i++ {
		e := es.At(i)
		keys := make([]string, 0)
		raw := e.FilteredAttributes().AsRaw()
		for k := range raw {
			keys = append(keys, k)
		}
		sort.Strings(keys)
		out += fmt.Sprintf("x%d/%d/%v:", e.Timestamp(), e.IntValue(), e.DoubleValue())
		for _, k := range keys {
			out += fmt.Sprintf("%q=%v,", k, raw[k])
		}
	}
	return out
}

// flipCtx is a context whose Err() turns to Canceled at its n-th look (and whose Done channel closes then): a request that is
// cancelled, or whose deadline passes, while the processor is half-way through the batch
type flipCtx struct {
	context.Context
	mu    sync.Mutex
	left  int
	done  chan struct{}
	ended bool
}

// callCtx: a third of the calls run under a context that ends at some point while the batch is being processed; whatever
// is forwarded must be obfuscated all the same
func callCtx(r *Rng) (context.Context, bool) {
	if r.Chance(33) {
		return newFlipCtx(r.Intn(14)), true
	}
	return context.Background(), false
}

func newFlipCtx(n int) *flipCtx {
	return &flipCtx{Context: context.Background(), left: n, done: make(chan struct{})}
}

func (c *flipCtx) Err() error {
	c.mu.Lock()
	defer c.mu.Unlock()
	if c.left > 0 {
		c.left--
		return nil
	}
	if !c.ended {
		c.ended = true
		close(c.done)
	}
	return context.Canceled
}

func (c *flipCtx) Done() <-chan struct{} { return c.done }

type gen struct {
	r     *Rng
	fresh int
}

var keyPool = []string{"user.id", "email", "k", "http.url", "secret", "a", "ü-key", ""}

func (g *gen) str() string {
	switch g.r.Intn(8) {
	case 0:
		return ""
	case 1:
		return "x"
	case 2:
		return "héllo wörld ∑"
	case 3:
		g.fresh++
		return fmt.Sprintf("fresh-%d", g.fresh)
	default:
		return []string{"alice", "bob", "GET /index", "10.0.0.1", "ab"}[g.r.Intn(5)]
	}
}

func (g *gen) value(v pcommon.Value, depth int) {
	k := g.r.Intn(10)
	if depth <= 0 && k >= 8 {
		k = g.r.Intn(8)
	}
	switch k {
	case 0:
	case 1, 2, 3:
		v.SetStr(g.str())
	case 4:
		v.SetInt(int64(g.r.Intn(100)) - 50)
	case 5:
		v.SetDouble(float64(g.r.Intn(100)) / 4)
	case 6:
		v.SetBool(g.r.Bool())
	case 7:
		v.SetEmptyBytes().FromRaw([]byte(g.str()))
	case 8:
		s := v.SetEmptySlice()
		for i, n := 0, g.r.Intn(4); i < n; i++ {
			g.value(s.AppendEmpty(), depth-1)
		}
	default:
		m := v.SetEmptyMap()
		for i, n := 0, g.r.Intn(4); i < n; i++ {
			g.value(m.PutEmpty(keyPool[g.r.Intn(len(keyPool))]), depth-1)
		}
	}
}

func (g *gen) attrs(m pcommon.Map) {
	for i, n := 0, g.r.Intn(6); i < n; i++ {
		g.value(m.PutEmpty(keyPool[g.r.Intn(len(keyPool))]), 2)
	}
}

func (g *gen) exemplars(es pmetric.ExemplarSlice) {
	for i, n := 0, g.r.Intn(3); i < n; i++ {
		e := es.AppendEmpty()
		e.SetIntValue(int64(i))
		e.SetTimestamp(pcommon.Timestamp(i))
		g.attrs(e.FilteredAttributes())
	}
}

func (g *gen) traces() ptrace.Traces {
	td := ptrace.NewTraces()
	for i, nr := 0, 1+g.r.Intn(2); i < nr; i++ {
		rs := td.ResourceSpans().AppendEmpty()
		g.attrs(rs.Resource().Attributes())
		rs.SetSchemaUrl(g.str())
		for j, ns := 0, g.r.Intn(3); j < ns; j++ {
			ss := rs.ScopeSpans().AppendEmpty()
			ss.Scope().SetName(g.str())
			ss.Scope().SetVersion(g.str())
			g.attrs(ss.Scope().Attributes())
			for k, n := 0, g.r.Intn(4); k < n; k++ {
				sp := ss.Spans().AppendEmpty()
				sp.SetName(g.str())
				sp.SetSpanID(pcommon.SpanID{byte(k + 1), 1})
				sp.SetKind(ptrace.SpanKind(g.r.Intn(5)))
				sp.SetStartTimestamp(pcommon.Timestamp(100 + k))
				sp.Status().SetMessage(g.str())
				sp.Status().SetCode(ptrace.StatusCode(g.r.Intn(3)))
				sp.TraceState().FromRaw(g.str())
				sp.SetFlags(uint32(g.r.Intn(4)) << 8)
				sp.SetDroppedAttributesCount(uint32(g.r.Intn(3)))
				sp.SetDroppedEventsCount(uint32(g.r.Intn(3)))
				sp.SetEndTimestamp(pcommon.Timestamp(100 + k + g.r.Intn(3)))
				if g.r.Bool() {
					sp.SetTraceID(pcommon.TraceID{byte(k + 1), 7})
					sp.SetParentSpanID(pcommon.SpanID{byte(k), 2})
				}
				g.attrs(sp.Attributes())
				for e, ne := 0, g.r.Intn(3); e < ne; e++ {
					ev := sp.Events().AppendEmpty()
					ev.SetName(g.str())
					ev.SetTimestamp(pcommon.Timestamp(e))
					g.attrs(ev.Attributes())
				}
				for l, nl := 0, g.r.Intn(2); l < nl; l++ {
					lk := sp.Links().AppendEmpty()
					lk.SetSpanID(pcommon.SpanID{9, byte(l)})
					lk.TraceState().FromRaw(g.str())
					lk.SetFlags(uint32(g.r.Intn(3)))
					lk.SetDroppedAttributesCount(uint32(g.r.Intn(2)))
					g.attrs(lk.Attributes())
				}
			}
		}
	}
	return td
}

func (g *gen) logs() plog.Logs {
	ld := plog.NewLogs()
	for i, nr := 0, 1+g.r.Intn(2); i < nr; i++ {
		rl := ld.ResourceLogs().AppendEmpty()
		g.attrs(rl.Resource().Attributes())
		for j, ns := 0, g.r.Intn(3); j < ns; j++ {
			sl := rl.ScopeLogs().AppendEmpty()
			sl.Scope().SetName(g.str())
			g.attrs(sl.Scope().Attributes())
			for k, n := 0, g.r.Intn(4); k < n; k++ {
				lr := sl.LogRecords().AppendEmpty()
				lr.SetTimestamp(pcommon.Timestamp(k))
				lr.Body().SetStr(g.str())
				lr.SetSeverityText(g.str())
				lr.SetSeverityNumber(plog.SeverityNumber(g.r.Intn(25)))
				lr.SetFlags(plog.LogRecordFlags(g.r.Intn(3)))
				lr.SetObservedTimestamp(pcommon.Timestamp(k + g.r.Intn(3)))
				lr.SetDroppedAttributesCount(uint32(g.r.Intn(3)))
				lr.SetEventName(g.str())
				if g.r.Bool() {
					lr.SetTraceID(pcommon.TraceID{byte(k + 1), 7})
					lr.SetSpanID(pcommon.SpanID{byte(k + 1), 3})
				}
				if g.r.Chance(30) {
					g.value(lr.Body(), 2)
				}
				g.attrs(lr.Attributes())
			}
		}
	}
	return ld
}

func (g *gen) metrics() pmetric.Metrics {
	md := pmetric.NewMetrics()
	for i, nr := 0, 1+g.r.Intn(2); i < nr; i++ {
		rm := md.ResourceMetrics().AppendEmpty()
		g.attrs(rm.Resource().Attributes())
		for j, ns := 0, g.r.Intn(3); j < ns; j++ {
			sm := rm.ScopeMetrics().AppendEmpty()
			sm.Scope().SetName(g.str())
			g.attrs(sm.Scope().Attributes())
			for k, n := 0, g.r.Intn(4); k < n; k++ {
				m := sm.Metrics().AppendEmpty()
				m.SetName(g.str())
				m.SetDescription(g.str())
				m.SetUnit("ms")
				if g.r.Chance(30) {
					g.attrs(m.Metadata())
				}
				np := g.r.Intn(3)
				switch g.r.Intn(6) {
				case 0:
					for q := 0; q < np; q++ {
						p := m.SetEmptyGauge().DataPoints().AppendEmpty()
						p.SetIntValue(int64(q))
						p.SetFlags(pmetric.DataPointFlags(g.r.Intn(2)))
						p.SetTimestamp(pcommon.Timestamp(g.r.Intn(5)))
						g.exemplars(p.Exemplars())
						g.attrs(p.Attributes())
					}
				case 1:
					s := m.SetEmptySum()
					for q := 0; q < np; q++ {
						p := s.DataPoints().AppendEmpty()
						p.SetDoubleValue(float64(q))
						p.SetFlags(pmetric.DataPointFlags(g.r.Intn(2)))
						p.SetStartTimestamp(pcommon.Timestamp(g.r.Intn(5)))
						g.exemplars(p.Exemplars())
						g.attrs(p.Attributes())
					}
				case 2:
					h := m.SetEmptyHistogram()
					h.SetAggregationTemporality(pmetric.AggregationTemporality(g.r.Intn(3)))
					for q := 0; q < np; q++ {
						p := h.DataPoints().AppendEmpty()
						p.SetCount(uint64(q))
						p.SetFlags(pmetric.DataPointFlags(g.r.Intn(2)))
						p.BucketCounts().FromRaw([]uint64{uint64(q), 1})
						p.ExplicitBounds().FromRaw([]float64{1.5})
						g.exemplars(p.Exemplars())
						g.attrs(p.Attributes())
					}
				case 3:
					h := m.SetEmptyExponentialHistogram()
					for q := 0; q < np; q++ {
						p := h.DataPoints().AppendEmpty()
						p.SetCount(uint64(q))
						p.SetFlags(pmetric.DataPointFlags(g.r.Intn(2)))
						p.SetScale(int32(g.r.Intn(3)))
						p.Positive().BucketCounts().FromRaw([]uint64{1, uint64(q)})
						g.exemplars(p.Exemplars())
						g.attrs(p.Attributes())
					}
				case 4:
					s := m.SetEmptySummary()
					for q := 0; q < np; q++ {
						p := s.DataPoints().AppendEmpty()
						p.SetCount(uint64(q))
						p.SetFlags(pmetric.DataPointFlags(g.r.Intn(2)))
						qv := p.QuantileValues().AppendEmpty()
						qv.SetQuantile(0.5)
						qv.SetValue(float64(q))
						g.attrs(p.Attributes())
					}
				}
			}
		}
	}
	return md
}

// collisionPossible: some attribute map (at any nesting level) holds a listed key and another key of the
// same byte length — the only way the list-mode renaming enc(k1) can hit an existing key k2.
func collisionPossibleValue(v pcommon.Value, listed map[string]bool) bool {
	switch v.Type() {
	case pcommon.ValueTypeMap:
		return collisionPossible(v.Map(), listed)
	case pcommon.ValueTypeSlice:
		for i := 0; i < v.Slice().Len(); i++ {
			if collisionPossibleValue(v.Slice().At(i), listed) {
				return true
			}
		}
	}
	return false
}

func collisionPossible(m pcommon.Map, listed map[string]bool) bool {
	found := false
	var keys []string
	m.Range(func(k string, v pcommon.Value) bool {
		keys = append(keys, k)
		if collisionPossibleValue(v, listed) {
			found = true
		}
		return true
	})
	for _, k1 := range keys {
		if !listed[k1] {
			continue
		}
		for _, k2 := range keys {
			if k2 != k1 && len(k2) == len(k1) {
				found = true
			}
		}
	}
	return found
}

type capture struct {
	t []ptrace.Traces
	l []plog.Logs
	m []pmetric.Metrics
}

func (c *capture) Capabilities() consumer.Capabilities { return consumer.Capabilities{} }
func (c *capture) ConsumeTraces(_ context.Context, td ptrace.Traces) error {
	c.t = append(c.t, td)
	return nil
}
func (c *capture) ConsumeLogs(_ context.Context, ld plog.Logs) error {
	c.l = append(c.l, ld)
	return nil
}
func (c *capture) ConsumeMetrics(_ context.Context, md pmetric.Metrics) error {
	c.m = append(c.m, md)
	return nil
}

func runObf(o opts, out *Output) {
	out.Imports = "From Verif Require Import Base.ListX Obf.Obfuscate."
	r := NewRng(o.seed)
	var sb strings.Builder
	sb.WriteString("Definition obf_cases : list (N * bool * list bytes * list (list item * list item)) := [\n")
	f := obf.NewFactory()
	emitted := 0
	for c := 0; c < o.n; c++ {
		g := &gen{r: r.Fork()}
		signal := r.Intn(3)
		cfg := f.CreateDefaultConfig().(*obf.Config)
		cfg.Rounds = 2 + r.Intn(10)
		cfg.KeyLength = []int{1, 16, 128}[r.Intn(3)]
		all := r.Chance(50)
		var listed []string
		if !all {
			cfg.EncryptAll = false
			for _, k := range keyPool {
				if k != "" && r.Chance(40) {
					listed = append(listed, k)
				}
			}
			cfg.EncryptAttributes = listed
			if len(listed) > 0 && r.Bool() {
				// the usual way to configure list mode: encrypt_attributes given, encrypt_all left at its default (true);
				// a non-empty list takes precedence
				cfg.EncryptAll = true
			}
			if len(listed) == 0 && r.Bool() {
				// EncryptAll=false with an empty list: list mode with nothing listed
			} else if len(listed) == 0 {
				listed = []string{"email"}
				cfg.EncryptAttributes = listed
			}
		}
		cp := &capture{}
		set := processortest.NewNopSettings(f.Type())
		ndocs := 1 + r.Intn(3)
		var pairs []string
		var inMaps [][]pcommon.Map
		var sample []map[string]any
		nattrs := 0
		ctx := context.Background()
		switch signal {
		case 0:
			p, err := f.CreateTraces(ctx, set, cfg, cp)
			if err != nil {
				panic(err)
			}
			for d := 0; d < ndocs; d++ {
				td := g.traces()
				in := flattenTraces(td)
				inMaps = append(inMaps, in.maps)
				before := len(cp.t)
				cctx, flips := callCtx(r)
				if err := p.ConsumeTraces(cctx, td); err != nil && !flips {
					out.Violation("C17", "processor-error", err.Error(), nil)
				}
				if len(cp.t) == before {
					inMaps = inMaps[:len(inMaps)-1]
					continue // refused with an error, nothing forwarded (only possible under an ending context)
				}
				res := flattenTraces(cp.t[len(cp.t)-1])
				pairs = append(pairs, fmt.Sprintf("(%s,\n   %s)", in, res))
				nattrs += in.attrs
				sample = append(sample, map[string]any{"items_in": in.n, "items_out": res.n, "attributes_in": in.attrs, "attributes_out": res.attrs})
			}
		case 1:
			p, err := f.CreateLogs(ctx, set, cfg, cp)
			if err != nil {
				panic(err)
			}
			for d := 0; d < ndocs; d++ {
				ld := g.logs()
				in := flattenLogs(ld)
				inMaps = append(inMaps, in.maps)
				before := len(cp.l)
				cctx, _ := callCtx(r)
				_ = p.ConsumeLogs(cctx, ld)
				if len(cp.l) == before {
					inMaps = inMaps[:len(inMaps)-1]
					continue
				}
				res := flattenLogs(cp.l[len(cp.l)-1])
				pairs = append(pairs, fmt.Sprintf("(%s,\n   %s)", in, res))
				nattrs += in.attrs
				sample = append(sample, map[string]any{"items_in": in.n, "items_out": res.n, "attributes_in": in.attrs, "attributes_out": res.attrs})
			}
		default:
			p, err := f.CreateMetrics(ctx, set, cfg, cp)
			if err != nil {
				panic(err)
			}
			for d := 0; d < ndocs; d++ {
				md := g.metrics()
				in := flattenMetrics(md)
				inMaps = append(inMaps, in.maps)
				before := len(cp.m)
				cctx, _ := callCtx(r)
				_ = p.ConsumeMetrics(cctx, md)
				if len(cp.m) == before {
					inMaps = inMaps[:len(inMaps)-1]
					continue
				}
				res := flattenMetrics(cp.m[len(cp.m)-1])
				pairs = append(pairs, fmt.Sprintf("(%s,\n   %s)", in, res))
				nattrs += in.attrs
				sample = append(sample, map[string]any{"items_in": in.n, "items_out": res.n, "attributes_in": in.attrs, "attributes_out": res.attrs})
			}
		}
		collided := false
		for di, s := range sample {
			if s["attributes_in"] != s["attributes_out"] {
				replay := map[string]any{"seed": o.seed, "case": c, "signal": signal, "encrypt_all": all, "encrypt_attributes": listed}
				lm := map[string]bool{}
				for _, k := range listed {
					lm[k] = true
				}
				explained := false
				if !all {
					for _, m := range inMaps[di] {
						if collisionPossible(m, lm) {
							explained = true
						}
					}
				}
				if explained {
					collided = true
					out.Violation("C17", "list-mode-renamed-key-collision", fmt.Sprintf("encrypt_attributes mode: a listed key was renamed to a substitute equal to another key of the same attribute map, which was overwritten (attributes %v -> %v, listed=%v)", s["attributes_in"], s["attributes_out"], listed), replay)
				} else {
					out.Violation("C17", "attribute-count-changed", fmt.Sprintf("the processor changed the number of attributes of a document from %v to %v (mode all=%v, listed=%v)", s["attributes_in"], s["attributes_out"], all, listed), replay)
				}
				break
			}
		}
		if collided {
			// the recorded finding: not part of the model comparison (the model's list-mode theorem carries exactly this hypothesis)
			out.AddCase(map[string]any{"signal": signal, "encrypt_all": all, "encrypt_attributes": listed, "collision": true}, true, "list-mode key collision")
			continue
		}
		var ls []string
		for _, k := range listed {
			ls = append(ls, coqBytes(k))
		}
		if emitted > 0 {
			sb.WriteString(";\n")
		}
		emitted++
		fmt.Fprintf(&sb, " (%d, %v, [%s], [%s])", signal, all, strings.Join(ls, "; "), strings.Join(pairs, ";\n  "))
		out.AddCase(map[string]any{"signal": []string{"traces", "logs", "metrics"}[signal], "encrypt_all": all, "encrypt_attributes": listed, "rounds": cfg.Rounds, "key_length": cfg.KeyLength, "docs": sample},
			nattrs > 0, fmt.Sprintf("signal=%d all=%v listed=%d", signal, all, len(listed)))
	}
	// ---- the recorded finding, exhibited directly: list mode, a listed 1-byte key next to many unlisted 1-byte keys.
	// Each processor instance draws a random cipher key; the substitute of "a" is one byte and hits one of the 200
	// other keys with probability 200/256 per instance.
	for inst := 0; inst < 40; inst++ {
		cfg := f.CreateDefaultConfig().(*obf.Config)
		cfg.EncryptAll = false
		cfg.EncryptAttributes = []string{"a"}
		cp := &capture{}
		p, err := f.CreateLogs(context.Background(), processortest.NewNopSettings(f.Type()), cfg, cp)
		if err != nil {
			break
		}
		ld := plog.NewLogs()
		lr := ld.ResourceLogs().AppendEmpty().ScopeLogs().AppendEmpty().LogRecords().AppendEmpty()
		lr.Attributes().PutStr("a", "secret")
		for b := 33; b < 233; b++ {
			if byte(b) != 'a' {
				lr.Attributes().PutInt(string([]byte{byte(b)}), int64(b))
			}
		}
		before := lr.Attributes().Len()
		_ = p.ConsumeLogs(context.Background(), ld)
		after := cp.l[0].ResourceLogs().At(0).ScopeLogs().At(0).LogRecords().At(0).Attributes().Len()
		out.AddCase(map[string]any{"collision_hunt_instance": inst, "attributes_in": before, "attributes_out": after}, true, "collision hunt")
		if after < before {
			out.Violation("C17", "list-mode-renamed-key-collision", fmt.Sprintf("encrypt_attributes=[a]: log record with attribute 'a' and 199 other one-byte keys: %d attributes in, %d out (processor instance %d of this run): the substitute of the listed key equals another key of the map, which was overwritten", before, after, inst),
				map[string]any{"encrypt_attributes": []string{"a"}, "instance": inst, "attributes_in": before, "attributes_out": after})
			break
		}
	}
	sb.WriteString("\n].\n")
	out.Coq.WriteString(sb.String())
	out.Coq.WriteString(`Definition is_listed (ks : list bytes) (k : bytes) : bool := existsb (bytes_eqb k) ks.
(* one processor instance: all its documents must be explained by ONE substitution table *)
Definition instance_table (c : N * bool * list bytes * list (list item * list item)) : option (list (bytes * bytes)) :=
  let '(signal, all, ks, docs) := c in
  fold_right (fun d acc => match collect_doc all (is_listed ks) signal (fst d) (snd d), acc with
                           | Some p, Some q => Some (p ++ q) | _, _ => None end) (Some []) docs.
(* property on the real I/O: structure preserved, non-targeted values untouched, substitution is a
   length-preserving injective function for the lifetime of the instance *)
Definition obf_prop (c : N * bool * list bytes * list (list item * list item)) : bool :=
  match instance_table c with Some t => table_okb t && replaced_okb t | None => false end.
(* model = implementation: the model run with the observed substitution reproduces the output exactly *)
Definition obf_check (c : N * bool * list bytes * list (list item * list item)) : bool :=
  let '(signal, all, ks, docs) := c in
  match instance_table c with
  | Some t => forallb (fun d => list_eqb item_eqb (obf_doc (enc_of t) all (is_listed ks) false signal (fst d)) (snd d)) docs
  | None => false
  end.
Definition obf_mismatch := Eval vm_compute in failing obf_check obf_cases.
Definition obf_propfail := Eval vm_compute in failing obf_prop obf_cases.
Print obf_mismatch.
Print obf_propfail.
`)
	out.Lists = append(out.Lists, "obf_mismatch", "obf_propfail")
}

// ---------------------------------------------------------------- Feistel

func roundF(key string, item string, index int) string {
	addition, err := futils.Add(item, futils.Extract(key, index, len(item)))
	if err != nil {
		panic(err)
	}
	hashed, err := hash.H([]byte(addition), hash.SHA_256)
	if err != nil {
		panic(err)
	}
	return futils.Extract(utls.ToHex(hashed), index, len(item))
}

func runFeistel(o opts, out *Output) {
	out.Imports = "From Verif Require Import Base.ListX Obf.Feistel."
	r := NewRng(o.seed)
	var sb strings.Builder
	sb.WriteString("Definition feistel_cases : list (nat * list (list N * nat * list N) * list N * list N) := [\n")
	nFeistel := 0
	for c := 0; c < o.n; c++ {
		key := fmt.Sprintf("key-%d-%d", o.seed, r.Intn(1000))
		rounds := 2 + r.Intn(9)
		n := r.Intn(14)
		if c < 40 {
			n = c % 8 // all the small lengths, several times
		}
		b := make([]byte, n)
		for i := range b {
			b[i] = byte(r.Intn(256))
		}
		src := string(b)
		cipher := feistel.NewFPECipher(hash.SHA_256, key, rounds)
		res, err := cipher.Encrypt(src)
		if err != nil {
			out.Violation("C17", "cipher-error", err.Error(), nil)
			continue
		}
		got := string(res.Bytes())
		// tabulate the round function on the inputs the Feistel structure feeds it (library helpers only)
		var table []string
		if n > 0 {
			l, rr := src[:n/2], src[n/2:]
			for i := 0; i < rounds; i++ {
				padded := rr
				if len(rr) < len(l) {
					padded += "\x00"
				}
				rnd := roundF(key, padded, i)
				table = append(table, fmt.Sprintf("(%s, %d%%nat, %s)", coqBytes(padded), i, coqBytes(rnd)))
				tmp := l
				crop := false
				if len(tmp)+1 == len(rnd) {
					tmp += "\x00"
					crop = true
				}
				x := make([]byte, len(tmp))
				for j := range x {
					x[j] = tmp[j] ^ rnd[j]
				}
				nr := string(x)
				if crop {
					nr = nr[:len(nr)-1]
				}
				l, rr = rr, nr
			}
		}
		if len(got) != n {
			out.Violation("C17", "cipher-length-changed", fmt.Sprintf("Encrypt changed the byte length %d -> %d", n, len(got)), map[string]any{"src": []byte(src), "rounds": rounds, "key": key})
		}
		dec, derr := cipher.Decrypt(res)
		_ = dec
		_ = derr
		if nFeistel > 0 {
			sb.WriteString(";\n")
		}
		nFeistel++
		fmt.Fprintf(&sb, " (%d%%nat, [%s], %s, %s)", rounds, strings.Join(table, "; "), coqBytes(src), coqBytes(got))
		out.AddCase(map[string]any{"rounds": rounds, "len": n, "src": []byte(src), "encrypted": []byte(got)}, n > 1, fmt.Sprintf("len=%d", n))
	}
	sb.WriteString("\n].\n")
	out.Coq.WriteString(sb.String())
	out.Coq.WriteString(`(* the library's round function, tabulated by the harness from the library's own helpers on the inputs
   used; the Feistel structure of the model must then reproduce FPECipher.Encrypt byte for byte *)
Definition tableF (t : list (list N * nat * list N)) (x : list N) (i : nat) : list N :=
  match find (fun e => list_eqb N.eqb (fst (fst e)) x && Nat.eqb (snd (fst e)) i) t with
  | Some e => snd e
  | None => map (fun _ => 0) x
  end.
Definition feistel_check (c : nat * list (list N * nat * list N) * list N * list N) : bool :=
  let '(rounds, t, src, got) := c in list_eqb N.eqb (encrypt (tableF t) rounds src) got.
Definition feistel_prop (c : nat * list (list N * nat * list N) * list N * list N) : bool :=
  let '(rounds, t, src, got) := c in Nat.eqb (length src) (length got).
Definition feistel_mismatch := Eval vm_compute in failing feistel_check feistel_cases.
Definition feistel_propfail := Eval vm_compute in failing feistel_prop feistel_cases.
Print feistel_mismatch.
Print feistel_propfail.
`)
	out.Lists = append(out.Lists, "feistel_mismatch", "feistel_propfail")
}
