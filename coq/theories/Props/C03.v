(* Props/C03.v — property C03: metrics survive the round trip.  Partial, as C01: data-point tables hang off metrics
   through delta-encoded 16-bit parent ids, attribute and exemplar tables off data points through 32-bit ids — the
   same machinery; what is specific to metrics is presence (sum/min/max, int vs double), proved here for the wrappers.
   All metric types, zero counts, all-zero bucket lists, zero offsets, present-but-zero sum/min/max, empty lists,
   exemplars are covered by the equivalence predicate evaluated in Coq on real input/output. *)
From Verif Require Import Base.ListX Obf.Obfuscate Otlp.Equiv Otap.Tables Otap.Attrs Otap.Wrappers Otap.WrapperGuardsBaseline.
From VerifGen Require Import WrapperGuards.

(* the premise of the two theorems below, for the code as it is now: every wrapper method of the current source requests an
   absent column under exactly the condition the model assumes (generated from builder/*.go on every run) *)
Theorem C03_wrapper_guards_as_modelled : forallb guard_known wrapper_guards = true.
Proof. vm_compute. reflexivity. Qed.
Print Assumptions C03_wrapper_guards_as_modelled.

(* an optional value is decoded present iff it was present, with the same value — zero included *)
Theorem C03_presence_preserved : forall (A : Type) (o : option A), dec_opt A (enc_opt A o) = o.
Proof. exact dec_enc_opt. Qed.
Print Assumptions C03_presence_preserved.

(* value-only fields may elide their zero *)
Theorem C03_zero_elision_harmless : forall (A : Type) (zero : A) (is_zero : A -> bool),
  (forall a, is_zero a = true -> a = zero) -> forall a, read A zero (append_non_zero A is_zero a) = a.
Proof. exact read_append_non_zero. Qed.
Print Assumptions C03_zero_elision_harmless.

(* Recorded finding: the code before the fix wrote present sum/min/max with the eliding method. *)
Theorem C03_legacy_refuted : forall (A : Type) (zero : A) (is_zero : A -> bool),
  is_zero zero = true -> dec_opt A (enc_opt_legacy A is_zero (Some zero)) <> Some zero.
Proof. exact legacy_loses_zero. Qed.
Print Assumptions C03_legacy_refuted.

(* data points -> metric (16-bit, plain delta), attributes/exemplars -> data point (32-bit) *)
Theorem C03_parent_ids_roundtrip : forall W, 0 < W -> forall (K : Type) (same : K -> K -> bool) rows st,
  Forall (fun r => snd r < W) rows -> st_ok W K st -> gd_dec W K same st (gd_enc W K same st rows) = rows.
Proof. exact gd_dec_enc. Qed.
Print Assumptions C03_parent_ids_roundtrip.

Example C03_example : dec_opt N (enc_opt N (Some 0)) = Some 0 /\ dec_opt N (enc_opt_legacy N (N.eqb 0) (Some 0)) = None.
Proof. split; reflexivity. Qed.

(* grouping by resource / scope identifier: see C01_identifiers_injective (Otlp/Ids.v); the same identifiers are used for
   this signal and are compared character for character with the real ones on every run (id_mismatch) *)
