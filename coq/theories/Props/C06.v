(* Props/C06.v — property C06: each caller gets the true outcome of its own items. *)
From Verif Require Import Base.ListX Batch.Split Batch.Shard Batch.Wait.

(* Apportioning is exact, for every shard history: what a waiter has been told about (over all
   sends) plus what is still pending for it equals what it submitted — so a response never
   reports more items than the request had, and nothing is reported to the wrong caller. *)
Theorem C06_apportion_exact : forall d w c evs s1 es,
  valid c -> run d c (init d) evs = (s1, es) ->
  (sent_for d w es + pend_for w (pending d s1) = recv_for d w evs)%N.
Proof. exact waiter_accounting. Qed.
Print Assumptions C06_apportion_exact.

(* ... and after the final flush every waiter has been told about all of its items. *)
Theorem C06_all_reported : forall d w c evs s1 es,
  valid c -> run d c (init d) (evs ++ [Final]) = (s1, es) -> sent_for d w es = recv_for d w evs.
Proof. exact waiter_accounting_final. Qed.
Print Assumptions C06_all_reported.

(* The caller (early_return off, context alive): given responses with positive counts adding up to
   its n items — in ANY order, from any number of exports — it returns exactly when the last one
   arrives, with an error wrapping precisely the failures of those exports: nil iff all succeeded. *)
Theorem C06_true_outcome : forall rs n,
  Forall (fun r => (0 < r_count r)%Z) rs -> total rs = n -> (0 < n)%Z ->
  wait_run n (map GotResp rs) = Returned (failures rs) false.
Proof. intros rs n H1 H2 H3. exact (wait_all rs n [] H1 H2 H3). Qed.
Print Assumptions C06_true_outcome.

(* It does not return early: while some of its items are unanswered it is still waiting. *)
Theorem C06_waits_for_all : forall rs n,
  Forall (fun r => (0 < r_count r)%Z) rs -> (total rs < n)%Z ->
  wait_run n (map GotResp rs) = Waiting (n - total rs) (failures rs).
Proof. intros rs n H1 H2. exact (wait_prefix_waits rs n [] H1 H2). Qed.
Print Assumptions C06_waits_for_all.

(* If the caller's context ends, the call returns at its next step with the context error
   (joined with any failure already seen). *)
Theorem C06_cancel : forall rs n ins,
  Forall (fun r => (0 < r_count r)%Z) rs -> (total rs < n)%Z ->
  fold_left wait_step (map GotResp rs ++ CtxDone :: ins) (Waiting n []) = Returned (failures rs) true.
Proof.
  intros rs n ins H1 H2. rewrite fold_left_app, (wait_prefix_waits rs n [] H1 H2). apply wait_cancel.
Qed.
Print Assumptions C06_cancel.

Example C06_example :
  wait_run 5 (map GotResp [{| r_err := None; r_count := 2 |}; {| r_err := Some 7%N; r_count := 3 |}]) = Returned [7%N] false.
Proof. vm_compute. reflexivity. Qed.
