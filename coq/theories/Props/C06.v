(* Props/C06.v — property C06: each caller gets the true outcome of its own items. *)
From Coq Require Import Permutation.
From Verif Require Import Base.ListX Batch.Split Batch.Shard Batch.Wait Batch.EndToEnd.

(* Apportioning is exact, for every shard history: what a waiter has been told about (over all
   sends) plus what is still pending for it equals what it submitted — so a response never
   reports more items than the request had, and nothing is reported to the wrong caller. *)
Theorem C06_apportion_exact : forall d w c evs s1 es,
  valid c -> run d c (init d) evs = (s1, es) ->
  (sent_for d w es + pend_for w (pending d s1) = recv_for d w evs)%N.
Proof. exact waiter_accounting. Qed.
Print Assumptions C06_apportion_exact.

(* ... and after the final flush every waiter has been told about all of its items. *)
Theorem C06_all_reported : forall d w c evs s1 es,
  valid c -> run d c (init d) (evs ++ [Final]) = (s1, es) -> sent_for d w es = recv_for d w evs.
Proof. exact waiter_accounting_final. Qed.
Print Assumptions C06_all_reported.

(* The caller (early_return off, context alive): given responses with positive counts adding up to
   its n items — in ANY order, from any number of exports — it returns exactly when the last one
   arrives, with an error wrapping precisely the failures of those exports: nil iff all succeeded. *)
Theorem C06_true_outcome : forall rs n,
  Forall (fun r => (0 < r_count r)%Z) rs -> total rs = n -> (0 < n)%Z ->
  wait_run n (map GotResp rs) = Returned (failures rs) false.
Proof. intros rs n H1 H2 H3. exact (wait_all rs n [] H1 H2 H3). Qed.
Print Assumptions C06_true_outcome.

(* It does not return early: while some of its items are unanswered it is still waiting. *)
Theorem C06_waits_for_all : forall rs n,
  Forall (fun r => (0 < r_count r)%Z) rs -> (total rs < n)%Z ->
  wait_run n (map GotResp rs) = Waiting (n - total rs) (failures rs).
Proof. intros rs n H1 H2. exact (wait_prefix_waits rs n [] H1 H2). Qed.
Print Assumptions C06_waits_for_all.

(* If the caller's context ends, the call returns at its next step with the context error
   (joined with any failure already seen). *)
Theorem C06_cancel : forall rs n ins,
  Forall (fun r => (0 < r_count r)%Z) rs -> (total rs < n)%Z ->
  fold_left wait_step (map GotResp rs ++ CtxDone :: ins) (Waiting n []) = Returned (failures rs) true.
Proof.
  intros rs n ins H1 H2. rewrite fold_left_app, (wait_prefix_waits rs n [] H1 H2). apply wait_cancel.
Qed.
Print Assumptions C06_cancel.

(* The composition (early_return off, caller context alive): for EVERY history of a shard ending with the
   final flush, EVERY assignment of success/failure to its exports and EVERY order in which the concurrent
   exports answer, a caller's Consume call returns when the last response for its items arrives — not while
   any of its items is unanswered — and the error it returns wraps exactly the failures of the exports that
   carried its items: nil iff all of those succeeded. *)
Theorem C06_end_to_end : forall d (err : nat -> option N) c w evs s1 es rs',
  valid c -> all_pos d evs -> run d c (init d) (evs ++ [Final]) = (s1, es) ->
  (0 < recv_for d w evs)%N ->
  Permutation (responses d err w es) rs' ->
  wait_run (Z.of_N (recv_for d w evs)) (map GotResp rs') = Returned (failures rs') false /\
  (failures rs' = [] <-> all_ok_from d err w 0 es) /\
  (forall part, Forall (fun r => (0 < r_count r)%Z) part -> (total part < Z.of_N (recv_for d w evs))%Z ->
     exists n errs, wait_run (Z.of_N (recv_for d w evs)) (map GotResp part) = Waiting n errs).
Proof. intros d err c w evs s1 es rs' Hv Hp H Hn Hperm. exact (end_to_end d err c w evs s1 es rs' Hv Hp H Hn Hperm). Qed.
Print Assumptions C06_end_to_end.

Local Open Scope N_scope.
(* non-vacuity: two callers merged and split over three exports (max size 2), the middle export fails *)
Example C06_end_to_end_example :
  let c := {| send_size := 2; max_size := 2; timer := true |} in
  let evs := [@Recv 1 [((1, 0), [((2, 0), [10; 11; 12])])] 1 1; @Recv 1 [((1, 0), [((2, 0), [20; 21])])] 2 2] in
  let es := snd (run 1 c (init 1) (evs ++ [Final])) in
  let err := fun k => if Nat.eqb k 1 then Some 7%N else None in
  map (s_sent 1) es = [2; 2; 1]%N /\
  responses 1 err 1 es = [{| r_err := None; r_count := 2%Z |}; {| r_err := Some 7%N; r_count := 1%Z |}] /\
  responses 1 err 2 es = [{| r_err := Some 7%N; r_count := 1%Z |}; {| r_err := None; r_count := 1%Z |}] /\
  wait_run 3%Z (map GotResp (rev (responses 1 err 1 es))) = Returned [7%N] false.
Proof. vm_compute. repeat split; reflexivity. Qed.

Example C06_example :
  wait_run 5%Z (map GotResp [{| r_err := None; r_count := 2%Z |}; {| r_err := Some 7%N; r_count := 3%Z |}]) = Returned [7%N] false.
Proof. vm_compute. reflexivity. Qed.
