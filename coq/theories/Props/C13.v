(* Props/C13.v — property C13: dictionaries sent on a stream never outgrow the configured limit. *)
From Verif Require Import Base.ListX Stream.DictMachine.

(* For every record with any number of dictionary columns (initial index widths 8 or 16 bits as the
   schemas declare), every dictionary limit `lim` (0 = dictionaries disabled), every reset threshold,
   EVERY stream history (batches of any sizes and contents, schema updates requested from outside at
   any point), every transmitted record: each dictionary holds at most as many entries as its index
   type addresses, that index type is at most the one of the limit, and with lim = 0 no column is
   dictionary-encoded.  (A history that exhausts the retry budget ends in the recorded panic — the
   termination question belongs to C04/C08; nothing is transmitted then.) *)
Theorem C13_bound : forall lim initials tn td h,
  Forall (outcome_fits lim) (run_hist (map (fun i => col_init (cfg_of_limit lim i tn td)) initials) h).
Proof.
  intros lim initials tn td h. destruct (cols_init_ok lim initials tn td) as [H1 H2].
  apply run_hist_fits; assumption.
Qed.
Print Assumptions C13_bound.

(* the public limit options are exactly the index-type maxima, so "index type of the limit" = the limit *)
Theorem C13_public_limits :
  forallb (fun lim => N.eqb (nth (find_index lim) all_max 0) lim) [255; 65535; 4294967295; 18446744073709551615] = true.
Proof. vm_compute. reflexivity. Qed.
Print Assumptions C13_public_limits.

(* the step the invariant rests on: no event from SetCardinality => the cardinality fits *)
Theorem C13_no_event_fits : forall cfg d c d2,
  set_card cfg d c = (d2, DNone) -> widths d2 <> [] -> (cur d < length (widths d))%nat ->
  widths d2 = widths d /\ cur d2 = cur d /\ c <= nth (cur d2) (widths d2) 0.
Proof. exact set_card_none. Qed.
Print Assumptions C13_no_event_fits.

(* non-vacuity: an upgrade 8->16 bits under the default limit; an overflow at an 8-bit limit with low
   reuse; a reset at an 8-bit limit with high reuse accumulated before *)
Example C13_example_upgrade :
  run_hist [col_init (cfg_of_limit 65535 255 3 10)] [(false, [(300, map N.of_nat (seq 0 300))])] = [Sent [Some (65535, 300)] 2].
Proof. vm_compute. reflexivity. Qed.
Example C13_example_overflow :
  run_hist [col_init (cfg_of_limit 255 255 3 10)] [(false, [(300, map N.of_nat (seq 0 300))])] = [Sent [None] 2].
Proof. vm_compute. reflexivity. Qed.
Example C13_example_reset :
  run_hist [col_init (cfg_of_limit 255 255 3 10)]
    [(false, [(2000, map N.of_nat (seq 0 200))]); (false, [(100, map N.of_nat (seq 200 100))])] =
  [Sent [Some (255, 200)] 1; Sent [Some (255, 100)] 2].
Proof. vm_compute. reflexivity. Qed.
