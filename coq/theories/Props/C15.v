(* Props/C15.v — property C15: the producer leaves its input untouched and releases all memory on Close.
   Partial.  Read-only: a generated fact — the encoder-side packages of the current source contain no call of a pdata
   mutator method at all (typed syntax scan), so encoding cannot modify the telemetry it is given.  Memory: the
   release discipline of the retry loop and of Produce is proved on a ledger model; that arrow-go's builders, records
   and IPC writers return what they allocated when released/closed is the library's contract.  Both halves are checked
   on every run against the real code: proto bytes of the input before/after encoding, and the balance of a
   memory.CheckedAllocator handed to the producer after Close, over histories with schema updates, dictionary
   overflow/reset, discarded-and-rebuilt records and encode errors. *)
From Coq Require Import String.
From Verif Require Import Base.ListX Mem.Ownership.
From VerifGen Require Import Mutators.

Theorem C15_readonly : pdata_mutator_calls = [].
Proof. reflexivity. Qed.
Print Assumptions C15_readonly.

(* however many times a record is discarded and rebuilt, exactly one live record leaves the retry loop *)
Theorem C15_rebuild_balanced : forall attempts, Forall (fun a => a <> Done) attempts -> loop_ledger (attempts ++ [Done]) = 1%Z.
Proof. exact loop_hands_on_one. Qed.
Print Assumptions C15_rebuild_balanced.

(* every record handed to Produce is released exactly once, whatever the IPC writer answers for each of them ("encode
   errors": a caller-supplied allocator may refuse an allocation during a write); the error path that did not visit the
   records behind the failing one is refuted *)
Theorem C15_produce_balanced : forall rms ok, fst (produce_released true rms ok) = rms.
Proof. exact produce_releases_all. Qed.
Print Assumptions C15_produce_balanced.

Example C15_error_path_leaked :
  fst (produce_released false [1; 2; 3] [true; false; true]) = [1; 2] /\ fst (produce_released true [1; 2; 3] [true; false; true]) = [1; 2; 3].
Proof. exact produce_error_leaked. Qed.
