(* Props/C09.v — property C09: size limits and flush deadlines of the batch processor.
   The size half and the "as soon as the buffer reaches send_batch_size" half are theorems over
   every event sequence of a shard.  The wall-clock half is stated in virtual time in Batch/Time.v. *)
From Verif Require Import Base.ListX Batch.Split Batch.Shard.

(* Every outgoing batch, in every run: not empty; at most send_batch_max_size items when that is
   set; its declared size is its real item count; its contributors' shares add up to it. *)
Theorem C09_sizes : forall d c evs s1 es,
  valid c -> run d c (init d) evs = (s1, es) -> Forall (send_ok d c) es.
Proof. intros d c evs s1 es Hv H. exact (proj1 (proj2 (exactly_once d c evs s1 es Hv H))). Qed.
Print Assumptions C09_sizes.

(* After every step of the shard: with a timer fewer than send_batch_size items are buffered
   (so reaching send_batch_size always flushes at once), without a timer (timeout = 0 or
   send_batch_size = 0) nothing is ever left buffered (items are sent immediately). *)
Theorem C09_flush_when_full : forall d c evs s1 es,
  valid c -> run d c (init d) evs = (s1, es) ->
  if timer c then cnt d s1 < send_size c else cnt d s1 = 0.
Proof. intros d c evs s1 es Hv H. exact (proj1 (proj2 (proj2 (exactly_once d c evs s1 es Hv H)))). Qed.
Print Assumptions C09_flush_when_full.

Example C09_example :
  let c := {| send_size := 2; max_size := 2; timer := true |} in
  map (s_sent 1) (snd (run 1 c (init 1) [@Recv 1 [((1, 0), [((2, 0), [10; 11; 12; 13; 14])])] 1 1; Timer])) = [2; 2; 1].
Proof. vm_compute. reflexivity. Qed.
