(* Props/C09.v — property C09: size limits and flush deadlines of the batch processor.
   The size half and the "as soon as the buffer reaches send_batch_size" half are theorems over
   every event sequence of a shard.  The deadline half is a theorem in virtual time (Batch/Time.v): the events of the shard loop carry the
   time at which the loop handled them; the one thing the runtime decides — how late after the timer's
   expiry the loop gets to run (scheduling, select's choice, a send blocked on the concurrency
   semaphore: the property's proviso) — is the parameter delta of `well_timed`.
   Partial in one respect: the clock is the event time of the shard loop; the (unbounded, runtime)
   delay between a caller's Consume call and the loop's receive is outside the model. *)
From Verif Require Import Base.ListX Batch.Split Batch.Shard Batch.Time.

(* Every outgoing batch, in every run: not empty; at most send_batch_max_size items when that is
   set; its declared size is its real item count; its contributors' shares add up to it. *)
Theorem C09_sizes : forall d c evs s1 es,
  valid c -> run d c (init d) evs = (s1, es) -> Forall (send_ok d c) es.
Proof. intros d c evs s1 es Hv H. exact (proj1 (proj2 (exactly_once d c evs s1 es Hv H))). Qed.
Print Assumptions C09_sizes.

(* After every step of the shard: with a timer fewer than send_batch_size items are buffered
   (so reaching send_batch_size always flushes at once), without a timer (timeout = 0 or
   send_batch_size = 0) nothing is ever left buffered (items are sent immediately). *)
Theorem C09_flush_when_full : forall d c evs s1 es,
  valid c -> run d c (init d) evs = (s1, es) ->
  if timer c then cnt d s1 < send_size c else cnt d s1 = 0.
Proof. intros d c evs s1 es Hv H. exact (proj1 (proj2 (proj2 (exactly_once d c evs s1 es Hv H)))). Qed.
Print Assumptions C09_flush_when_full.

Example C09_example :
  let c := {| send_size := 2; max_size := 2; timer := true |} in
  map (s_sent 1) (snd (run 1 c (init 1) [@Recv 1 [((1, 0), [((2, 0), [10; 11; 12; 13; 14])])] 1 1; Timer])) = [2; 2; 1].
Proof. vm_compute. reflexivity. Qed.

(* Deadline: on every well-timed trace from the creation of the shard (any t0, any timeout, any lateness
   delta, any arrival times), every outgoing batch carries only items that were accepted at most
   timeout + delta before it left; when there is no timer (timeout = 0 or send_batch_size = 0) every
   item leaves in the very step that accepted it. *)
Theorem C09_deadline : forall d timeout delta c t0 tes st1 os,
  valid c -> well_timed d timeout delta c (tinit d timeout t0) tes ->
  trun d timeout c (tinit d timeout t0) tes = (st1, os) ->
  Forall (fun o => Forall (fun ch : N * N =>
            fst ch <= ts_time o /\
            (if timer c then ts_time o <= fst ch + timeout + delta else ts_time o = fst ch)) (ts_carried o)) os.
Proof. intros d timeout delta c t0 tes st1 os Hv Hw H. exact (deadline d timeout delta c t0 tes st1 os Hv Hw H). Qed.
Print Assumptions C09_deadline.

(* What is still buffered is younger than the armed timer: accepted less than timeout before its expiry;
   nothing at all is buffered without a timer. *)
Theorem C09_buffered_young : forall d timeout delta c t0 tes st1 os,
  valid c -> well_timed d timeout delta c (tinit d timeout t0) tes ->
  trun d timeout c (tinit d timeout t0) tes = (st1, os) ->
  Forall (fun ch : N * N => dl d st1 <= fst ch + timeout) (ages d st1) /\ (timer c = false -> ages d st1 = []).
Proof. intros d timeout delta c t0 tes st1 os Hv Hw H. exact (buffered_young d timeout delta c t0 tes st1 os Hv Hw H). Qed.
Print Assumptions C09_buffered_young.

(* The timed run is the run of Shard.v with times attached (so C09_sizes etc. speak about the same sends),
   and the executable trace check used on the logged traces implies well-timedness. *)
Theorem C09_timed_refines : forall d timeout c tes st,
  map ts_send (snd (trun d timeout c st tes)) = snd (run d c (sh d st) (map snd tes)).
Proof. intros d timeout c tes st. exact (proj1 (trun_untimed d timeout c tes st)). Qed.
Print Assumptions C09_timed_refines.

Theorem C09_accepts_sound : forall d timeout delta c tes st,
  taccepts d timeout delta c 0 st tes = true -> well_timed d timeout delta c st tes.
Proof. intros d timeout delta c tes st H. exact (taccepts_well_timed d timeout delta c tes st H). Qed.
Print Assumptions C09_accepts_sound.

(* non-vacuity: a trickle trace that is well timed, with a size-triggered flush re-arming the timer *)
Example C09_deadline_example :
  taccepts 1 20 3 ex_cfg 0 (tinit 1 20 0) ex_trace = true /\
  map (fun o => (ts_time o, ts_carried o)) (snd (trun 1 20 ex_cfg (tinit 1 20 0) ex_trace))
  = [(21, [(5, 1); (12, 1)]); (30, [(25, 1); (28, 1); (30, 1)]); (52, [(44, 1)])].
Proof. split; vm_compute; reflexivity. Qed.
