(* Props/C12.v — property C12: every emitted BatchArrowRecords is a well-framed continuation of its stream.
   Partial: that the payloads of one schema id, taken in order, form a valid Arrow IPC stream which an
   independent reader decodes is the contract of the Arrow IPC writer/reader (each schema id is served by
   one writer that stays open while the id is live — this file — and the library does the rest); it is
   checked on every run by an independent ipc.Reader per schema id, not proved. *)
From Verif Require Import Base.ListX Stream.Producer.

(* Batch ids count up by one (from zero for a new producer), for every history. *)
Theorem C12_batch_ids : forall h st1 outs,
  prun pinit h = (st1, outs) -> map fst outs = map N.of_nat (seq 0 (length h)).
Proof.
  intros h st1 outs H. rewrite (prun_batch_ids h pinit st1 outs H). apply map_ext. intros i. cbn. lia.
Qed.
Print Assumptions C12_batch_ids.

(* Over any history of record messages (interleaved signals, schema changes, anything), provided a stream key
   belongs to one payload type (keys are schema signatures, prefixed per related payload type): a schema id
   denotes one payload type and one schema. *)
Theorem C12_schema_id_function : forall ps st1 os,
  consistent_inputs ps -> produce_payloads pinit ps = (st1, os) ->
  forall e1 e2, In e1 (map (fun x => triple (fst x) (snd x)) (combine os ps)) ->
                In e2 (map (fun x => triple (fst x) (snd x)) (combine os ps)) ->
                fst (fst e1) = fst (fst e2) -> e1 = e2.
Proof. exact sid_function. Qed.
Print Assumptions C12_schema_id_function.

(* Every emitted schema id is that of a live stream producer of the payload's type and key; stream
   producers get fresh ids, at most one per payload type is live, ids of closed ones stay below next_sid. *)
Theorem C12_live_stream : forall st p st1 o,
  PInv st -> produce_payload st p = (st1, o) ->
  PInv st1 /\ next_sid st <= next_sid st1 /\
  (exists s, In s (streams st1) /\ sp_sid s = fst o /\ sp_key s = snd p /\ snd o = fst p) /\
  (forall s, In s (streams st1) -> In s (streams st) \/ sp_sid s = next_sid st) /\
  batch_id st1 = batch_id st.
Proof. exact produce_payload_spec. Qed.
Print Assumptions C12_live_stream.

(* Reading (and resetting) the producer's statistics between batches is invisible: for every history of public calls the
   emitted batch ids, schema ids and types are those of the same history without the reads; ids allocated from the
   resettable statistic are refuted. *)
Theorem C12_stats_reads_invisible : forall h, snd (arun false ainit h) = snd (prun pinit (batches_of h)).
Proof. exact resets_invisible. Qed.
Print Assumptions C12_stats_reads_invisible.

Example C12_ids_from_statistic_refuted :
  snd (arun true ainit [Batch [(40, 1)]; ResetStats; Batch [(40, 3)]]) = [(0, [(0, 40)]); (1, [(0, 40)])] /\
  snd (arun false ainit [Batch [(40, 1)]; ResetStats; Batch [(40, 3)]]) = [(0, [(0, 40)]); (1, [(1, 40)])].
Proof. exact ids_from_statistic_refuted. Qed.

(* ... and over histories in which Produce calls fail half-way (the IPC write of a record returns an error: nothing is
   emitted, every sub-stream is restarted): the ids of the emitted batches still count up by one; a failed call that consumes
   an id is refuted. *)
Theorem C12_batch_ids_with_failures : forall h a1 outs,
  arun2 false ainit h = (a1, outs) -> map fst outs = map N.of_nat (seq 0 (length outs)).
Proof.
  intros h a1 outs H. rewrite (emitted_batch_ids_consecutive h ainit a1 outs H). apply map_ext. intros i. cbn. lia.
Qed.
Print Assumptions C12_batch_ids_with_failures.

Theorem C12_failed_call_restarts_streams : forall a ps a1 o,
  acall2 false a (Failed ps) = (a1, o) -> streams (core a1) = [] /\ next_sid (core a) <= next_sid (core a1) /\ o = None.
Proof. exact failed_restarts_streams. Qed.
Print Assumptions C12_failed_call_restarts_streams.

Example C12_failed_call_eats_id_refuted :
  map fst (snd (arun2 true ainit [Call (Batch [(40, 1)]); Failed [(40, 1); (41, 2)]; Call (Batch [(40, 1)])])) = [0; 2] /\
  snd (arun2 false ainit [Call (Batch [(40, 1)]); Failed [(40, 1); (41, 2)]; Call (Batch [(40, 1)])]) = [(0, [(0, 40)]); (1, [(2, 40)])].
Proof. exact failed_call_eats_id_refuted. Qed.

(* non-vacuity: spans (type 40) change schema in the third batch; the attrs stream (41) keeps its id *)
Example C12_example :
  snd (prun pinit [[(40, 1); (41, 2)]; [(40, 1); (41, 2)]; [(40, 3); (41, 2)]; [(30, 4)]]) =
  [(0, [(0, 40); (1, 41)]); (1, [(0, 40); (1, 41)]); (2, [(2, 40); (1, 41)]); (3, [(3, 30)])].
Proof. vm_compute. reflexivity. Qed.
