(* Props/C17.v — property C17: obfuscation preserves structure and is a deterministic injection on strings. *)
From Verif Require Import Base.ListX Obf.Feistel Obf.Obfuscate.

(* The cipher: for EVERY length-preserving round function (whatever the key, the hash), every number
   of rounds and every byte string (empty, one byte, odd and even lengths, non-ASCII bytes): the
   substitute has the same byte length … *)
Theorem C17_same_length : forall F, (forall x i, length (F x i) = length x) ->
  forall rounds s, length (encrypt F rounds s) = length s.
Proof. exact encrypt_length. Qed.
Print Assumptions C17_same_length.

(* … and different originals get different substitutes.  (Being a Coq function of the round function,
   the number of rounds and the original, the substitute depends on nothing else: equal inputs give
   equal outputs for the lifetime of the instance, whose key fixes F.) *)
Theorem C17_injective : forall F, (forall x i, length (F x i) = length x) ->
  forall rounds s1 s2, encrypt F rounds s1 = encrypt F rounds s2 -> s1 = s2.
Proof. exact encrypt_injective. Qed.
Print Assumptions C17_injective.

(* encrypt_all: an attribute map with distinct keys (pdata's invariant) is rebuilt entry for entry — same
   number, same order, keys renamed by the injection, values obfuscated recursively, numeric/boolean/empty
   values copied (see obf_val) — at every nesting level. *)
Theorem C17_structure_all : forall enc, (forall a b, enc a = enc b -> a = b) ->
  forall m listed dropu, NoDup (map fst m) ->
  obf_attrs enc true listed dropu m = map (fun kv => (enc (fst kv), obf_val enc true listed dropu (snd kv))) m.
Proof. exact obf_attrs_all. Qed.
Print Assumptions C17_structure_all.

(* encrypt_attributes (after the fix): unlisted attributes untouched and in place, listed ones renamed and
   obfuscated in place.  The hypothesis is the one thing the code cannot exclude: a renamed listed key
   coinciding with another key of the same map (it would be overwritten); exhibiting it needs the instance's
   random cipher key, so it stays a visible hypothesis and is not a recorded finding. *)
Theorem C17_structure_list : forall enc m listed,
  NoDup (map (renamed enc listed) m) ->
  obf_attrs enc false listed false m =
    map (fun kv => if listed (fst kv) then (enc (fst kv), obf_val enc false listed false (snd kv)) else kv) m.
Proof. intros enc m listed. exact (obf_attrs_list enc m listed). Qed.
Print Assumptions C17_structure_list.

(* Recorded finding: before the fix, list mode dropped unlisted attributes. *)
Theorem C17_legacy_refuted : forall enc,
  exists m listed, (length (obf_attrs enc false listed true m) < length m)%nat.
Proof. exact obf_attrs_list_v0_drops. Qed.
Print Assumptions C17_legacy_refuted.

Example C17_example :
  let enc := map (fun b => N.lxor b 1) in
  obf_attrs enc false (fun k => bytes_eqb k [1]) false [([1], VStr [10; 11]); ([2], VInt 5); ([3], VList [VStr [7]; VBool true])] =
  [([0], VStr [11; 10]); ([2], VInt 5); ([3], VList [VStr [7]; VBool true])].
Proof. vm_compute. reflexivity. Qed.
