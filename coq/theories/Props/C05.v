(* Props/C05.v — property C05: the batch processor delivers every accepted item exactly once,
   content intact, under a resource/scope/metric carrying the identity it arrived with. *)
From Verif Require Import Base.ListX Batch.Split Batch.Shard Batch.Chan.

(* splitTraces/splitLogs (d = 1) and splitMetrics (d = 2), for every forest and every size:
   the items of dest followed by the items left in src are the items of src — same items, same
   order, each under the same chain of container identities (resource, scope, metric; schema
   URLs and metadata included) — and dest holds exactly `size` items. *)
Theorem C05_split_conserves : forall size d src dst rst,
  split copy_ident size d src = (dst, rst) ->
  size < count_list (S d) src ->
  flat_list (S d) dst ++ flat_list (S d) rst = flat_list (S d) src /\
  count_list (S d) dst = size /\
  count_list (S d) rst = count_list (S d) src - size.
Proof. exact split_conserves. Qed.
Print Assumptions C05_split_conserves.

(* One shard, any valid configuration, ANY sequence of arrivals / timer fires (every schedule of
   callers and timers is such a sequence): exported-so-far ++ still-buffered = received. *)
Theorem C05_exactly_once : forall d c evs s1 es,
  valid c -> run d c (init d) evs = (s1, es) ->
  sends_flat d es ++ flat_list (S d) (buf d s1) = flat_map (ev_flat d) evs.
Proof. intros d c evs s1 es Hv H. exact (proj2 (proj2 (proj2 (exactly_once d c evs s1 es Hv H)))). Qed.
Print Assumptions C05_exactly_once.

(* Shutdown: after the final flush nothing is buffered and everything received was exported. *)
Theorem C05_shutdown_complete : forall d c evs s1 es,
  valid c -> run d c (init d) (evs ++ [Final]) = (s1, es) ->
  cnt d s1 = 0 /\ sends_flat d es = flat_map (ev_flat d) evs.
Proof. exact shutdown_complete. Qed.
Print Assumptions C05_shutdown_complete.

(* Recorded finding: the split code before the fix dropped schema URLs / metric metadata. *)
Theorem C05_legacy_refuted :
  exists size src dst rst,
    split copy_ident_v0 size 1 src = (dst, rst) /\ size < count_list 2 src /\
    flat_list 2 dst ++ flat_list 2 rst <> flat_list 2 src.
Proof. exact split_v0_refuted. Qed.
Print Assumptions C05_legacy_refuted.

(* non-vacuity: a split in the middle of a scope; a 3-event history with a size-triggered send,
   a split and a final flush *)
Example C05_example_split :
  split copy_ident 3 1 [((1, 5), [((2, 6), [10; 11]); ((3, 0), [12; 13])])] =
  ([((1, 5), [((2, 6), [10; 11]); ((3, 0), [12])])], [((1, 5), [((3, 0), [13])])]).
Proof. vm_compute. reflexivity. Qed.

Example C05_example_run :
  let c := {| send_size := 3; max_size := 4; timer := true |} in
  valid c /\
  map (s_sent 1) (snd (run 1 c (init 1)
     [@Recv 1 [((1, 0), [((2, 0), [10; 11])])] 1 1; @Recv 1 [((1, 0), [((2, 0), [12; 13; 14; 15])])] 2 2; Timer; Final])) = [4; 2].
Proof. split; [split; [right; cbn; lia|intros _; cbn; lia]|vm_compute; reflexivity]. Qed.

(* The shutdown drain of the shard loop (receive until the input channel is empty) processes every request that was
   queued in the channel or parked on it when the drain started — those are the Recv events that precede Final in the
   event sequences of the theorems above — and leaves nothing behind. *)
Theorem C05_shutdown_drain_complete : forall (item : Type) (c : chan item), wf item c ->
  drain item (length (queued item c) + length (parked item c)) c = (queued item c ++ parked item c, {| queued := []; parked := [] |}).
Proof. exact drain_complete. Qed.
Print Assumptions C05_shutdown_drain_complete.
