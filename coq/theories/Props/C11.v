(* Props/C11.v — property C11: bounded concurrency, drain on shutdown, no deadlock.
   Named _partial where the runtime carries part of the property: data-race freedom and goroutine
   leaks are properties of the Go runtime/memory model that an executable model cannot exhibit; the
   model's atomicity assumption (each event touches one channel / the semaphore / the WaitGroup /
   shard-confined state) is what a data race would falsify.  `go test -race` runs of the harness are
   supporting evidence in the thorough tier, never a substitute for these theorems. *)
From Verif Require Import Base.ListX Batch.Split Batch.Shard Batch.Lts Batch.Resp Batch.Prod.

(* Every interleaving of shard loops, export goroutines, Shutdown: never more than max_concurrency
   exports in flight (processor-wide, hence per metadata combination). *)
Theorem C11_sem : forall lim evs s1,
  lrun (linit lim) evs = Some s1 -> 0 < lim -> in_flight s1 <= lim.
Proof. exact sem_bound. Qed.
Print Assumptions C11_sem.

(* Shutdown returns only when every shard loop has returned (after its drain and final flush, by
   C05_shutdown_complete everything it received was exported) and every export call has returned. *)
Theorem C11_drain : forall lim evs s1,
  lrun (linit lim) evs = Some s1 -> shutdown_returned s1 = true -> alive s1 = 0 /\ in_flight s1 = 0.
Proof. exact drain. Qed.
Print Assumptions C11_drain.

(* No deadlock, given that export calls return: once Shutdown is called and until it returns an
   internal step is always enabled; and a shard blocked on the semaphore can always proceed or some
   in-flight export can move towards releasing a permit. *)
Theorem C11_progress_partial : forall lim evs s1,
  lrun (linit lim) evs = Some s1 -> shutdown_called s1 = true -> shutdown_returned s1 = false ->
  exists e, enabled s1 e /\ internal e.
Proof. exact progress. Qed.
Print Assumptions C11_progress_partial.

Theorem C11_blocked_can_proceed : forall lim evs s1 j,
  lrun (linit lim) evs = Some s1 -> nth_error (loops s1) j = Some LBlocked ->
  enabled s1 (Acquire j) \/ exists i, enabled s1 (ExportEnd i) \/ enabled s1 (Finish i).
Proof. exact blocked_can_proceed. Qed.
Print Assumptions C11_blocked_can_proceed.

(* The response protocol (Batch/Resp.v): export goroutines answering callers over one-slot channels, callers
   leaving when their count reaches zero or their context ends.  In every reachable state — every
   interleaving of requests entering shards, batches being cut, deliveries, skips, receives, cancellations —
   the accounting invariant holds ... *)
Theorem C11_resp_invariant : forall evs st1, rrun rinit evs = Some st1 -> RInv st1.
Proof. intros evs st1 H. exact (rrun_inv evs rinit st1 RInv_init H). Qed.
Print Assumptions C11_resp_invariant.

(* ... so an export goroutine that still has a tuple to answer is never blocked for ever on a departed
   waiter: it can deliver, or skip, or the caller is still there to empty its slot. *)
Theorem C11_export_not_stuck : forall evs st i w c tl,
  rrun rinit evs = Some st -> nth_error (queues st) i = Some ((w, c) :: tl) ->
  (exists s1, rstep st (Deliver i) = Some s1) \/
  (exists s1, rstep st (Skip i) = Some s1) \/
  (exists s1, rstep st (Receive w) = Some s1).
Proof. intros evs st i w c tl H Hn. exact (export_not_stuck st i w c tl (rrun_inv evs rinit st RInv_init H) Hn). Qed.
Print Assumptions C11_export_not_stuck.

(* From every reachable state the response phase can be completed (every export goroutine finishes, so the
   WaitGroup reaches zero and Shutdown returns), and no scheduler can make it run for ever. *)
Theorem C11_responses_complete : forall evs st,
  rrun rinit evs = Some st ->
  exists more st1, forallb resp_event more = true /\ rrun st more = Some st1 /\ all_answered st1.
Proof.
  intros evs st H. destruct (responses_complete (measure st) st (rrun_inv evs rinit st RInv_init H) (le_n _)) as (m & s1 & H1 & H2 & H3 & _).
  exists m, s1. repeat split; assumption.
Qed.
Print Assumptions C11_responses_complete.

Theorem C11_response_phase_bounded : forall evs st more st1,
  rrun rinit evs = Some st -> forallb resp_event more = true -> rrun st more = Some st1 ->
  (length more <= measure st)%nat.
Proof.
  intros evs st more st1 H Hm Hr. pose proof (response_phase_bounded more st st1 (rrun_inv evs rinit st RInv_init H) Hm Hr). lia.
Qed.
Print Assumptions C11_response_phase_bounded.

(* The precondition of Resp.v's Spawn event (a batch never addresses more items to a caller than the shard
   still holds for it) is what Shard.v proves about sendItems: the tuples cut for a waiter come out of its
   pending entries. *)
Theorem C11_spawn_precondition : forall d w c trig s s1 e,
  Inv d s -> (0 < cnt d s)%N -> send_items d c trig s = (s1, e) ->
  (tuples_for w (s_tuples d e) + pend_for w (pending d s1) = pend_for w (pending d s))%N.
Proof. intros d w c trig s s1 e HI Hp H. exact (send_items_for d w c trig s s1 e HI Hp H). Qed.
Print Assumptions C11_spawn_precondition.

(* The product of the two models (Batch/Prod.v): an export goroutine finishes (deferred Done / Release) only when it has
   answered or skipped every tuple of its batch, and delivers only while it is in its responding phase.  No deadlock in
   the product — once Shutdown has been called, some step of the processor itself is enabled until Shutdown returns,
   with no help from the environment (no new request, no cancellation) — and Shutdown returns only when every loop has
   exited, no export is in flight and every export has answered all its callers. *)
Theorem C11_product_progress : forall lim evs s,
  prun (pinit lim) evs = Some s -> shutdown_called (pl s) = true -> shutdown_returned (pl s) = false ->
  exists e, pstep s e <> None /\ pinternal e.
Proof. exact prod_progress. Qed.
Print Assumptions C11_product_progress.

Theorem C11_product_drain : forall lim evs s,
  prun (pinit lim) evs = Some s -> shutdown_returned (pl s) = true ->
  alive (pl s) = 0%N /\ in_flight (pl s) = 0%N /\ Forall (fun q => q = []) (queues (pr s)).
Proof. exact prod_drain. Qed.
Print Assumptions C11_product_drain.

(* the trace check used on the logged runs only accepts traces of the model *)
Theorem C11_resp_check_sound : forall evs, raccepts evs = true -> exists full st, rrun rinit full = Some st.
Proof.
  intros evs H. unfold raccepts in H. destruct (run_filled rinit evs) as [s1|] eqn:E; [|discriminate].
  destruct (run_filled_sound evs rinit s1 E) as [full Hf]. exists full, s1. exact Hf.
Qed.
Print Assumptions C11_resp_check_sound.

Example C11_resp_example :
  raccepts [NewCaller 3%Z; NewCaller 2%Z; Spawn [(0%nat, 2%Z)]; Spawn [(0%nat, 1%Z); (1%nat, 1%Z)]; Spawn [(1%nat, 1%Z)];
            Deliver 0; Deliver 1; Deliver 1; Deliver 2] = true /\
  raccepts [NewCaller 3%Z; Spawn [(0%nat, 2%Z)]; Spawn [(0%nat, 2%Z)]] = false.
Proof. split; vm_compute; reflexivity. Qed.

Example C11_example :
  accepts 1 [NewShard; Decide 0; Acquire 0; Decide 0; ExportEnd 0; Finish 0; Acquire 0; CallShutdown;
             ExportEnd 1; LoopExit 0; Finish 1; ShutdownReturn] = true /\
  accepts 1 [NewShard; Decide 0; Acquire 0; Decide 0; Acquire 0] = false.
Proof. split; vm_compute; reflexivity. Qed.
