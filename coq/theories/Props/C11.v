(* Props/C11.v — property C11: bounded concurrency, drain on shutdown, no deadlock.
   Named _partial where the runtime carries part of the property: data-race freedom and goroutine
   leaks are properties of the Go runtime/memory model that an executable model cannot exhibit; the
   model's atomicity assumption (each event touches one channel / the semaphore / the WaitGroup /
   shard-confined state) is what a data race would falsify.  `go test -race` runs of the harness are
   supporting evidence in the thorough tier, never a substitute for these theorems. *)
From Verif Require Import Base.ListX Batch.Lts.

(* Every interleaving of shard loops, export goroutines, Shutdown: never more than max_concurrency
   exports in flight (processor-wide, hence per metadata combination). *)
Theorem C11_sem : forall lim evs s1,
  lrun (linit lim) evs = Some s1 -> 0 < lim -> in_flight s1 <= lim.
Proof. exact sem_bound. Qed.
Print Assumptions C11_sem.

(* Shutdown returns only when every shard loop has returned (after its drain and final flush, by
   C05_shutdown_complete everything it received was exported) and every export call has returned. *)
Theorem C11_drain : forall lim evs s1,
  lrun (linit lim) evs = Some s1 -> shutdown_returned s1 = true -> alive s1 = 0 /\ in_flight s1 = 0.
Proof. exact drain. Qed.
Print Assumptions C11_drain.

(* No deadlock, given that export calls return: once Shutdown is called and until it returns an
   internal step is always enabled; and a shard blocked on the semaphore can always proceed or some
   in-flight export can move towards releasing a permit. *)
Theorem C11_progress_partial : forall lim evs s1,
  lrun (linit lim) evs = Some s1 -> shutdown_called s1 = true -> shutdown_returned s1 = false ->
  exists e, enabled s1 e /\ internal e.
Proof. exact progress. Qed.
Print Assumptions C11_progress_partial.

Theorem C11_blocked_can_proceed : forall lim evs s1 j,
  lrun (linit lim) evs = Some s1 -> nth_error (loops s1) j = Some LBlocked ->
  enabled s1 (Acquire j) \/ exists i, enabled s1 (ExportEnd i) \/ enabled s1 (Finish i).
Proof. exact blocked_can_proceed. Qed.
Print Assumptions C11_blocked_can_proceed.

Example C11_example :
  accepts 1 [NewShard; Decide 0; Acquire 0; Decide 0; ExportEnd 0; Finish 0; Acquire 0; CallShutdown;
             ExportEnd 1; LoopExit 0; Finish 1; ShutdownReturn] = true /\
  accepts 1 [NewShard; Decide 0; Acquire 0; Decide 0; Acquire 0] = false.
Proof. split; vm_compute; reflexivity. Qed.
