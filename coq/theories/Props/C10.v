(* Props/C10.v — property C10: the batch processor never mixes tenants and honours the
   metadata cardinality limit. *)
From Verif Require Import Base.ListX Batch.Multi.

(* Two requests are batched together iff they agree on the value list of every configured key
   (single value, several values and absent are told apart). *)
Theorem C10_same_shard_iff : forall keys md1 md2,
  aset keys md1 = aset keys md2 <-> (forall k, In k keys -> get md1 k = get md2 k).
Proof. exact aset_eq_iff. Qed.
Print Assumptions C10_same_shard_iff.

(* The client metadata an export of a shard sees (the shard's own export context, built from the
   request that created it) agrees on every configured key with every request routed to that shard. *)
Theorem C10_export_metadata : forall keys first r k,
  NoDup keys -> aset keys first = aset keys r -> In k keys -> get (shard_md keys first) k = get r k.
Proof. exact export_metadata_agrees. Qed.
Print Assumptions C10_export_metadata.

(* Every interleaving of lock-free lookups and locked admissions by any number of goroutines:
   at most `limit` combinations are ever admitted (limit > 0), admitted ones stay, a routed request's
   combination is admitted, and a refusal happens only with the limit reached. *)
Theorem C10_limit : forall limit evs s1 os,
  mrun limit minit evs = (s1, os) ->
  (NoDup (batchers s1) /\ size s1 = lenN (batchers s1) /\ (0 < limit -> size s1 <= limit)) /\
  (forall k, In (Routed k) os -> In k (batchers s1)) /\
  (In Refused os -> 0 < limit /\ limit <= size s1).
Proof.
  intros limit evs s1 os H. pose proof (mrun_inv limit evs minit s1 os (MInv_init limit) H) as (HI & _ & Hr & Hf & _).
  split; [exact HI|]. split; assumption.
Qed.
Print Assumptions C10_limit.

(* Once the limit is reached the admitted set is frozen, for every interleaving that follows: only combinations admitted
   before are ever routed — a combination refused for the limit stays refused.  Storing the shard before the limit
   check (the refused combination left in the map) is refuted. *)
Theorem C10_refused_stays_refused : forall limit evs s s1 os,
  0 < limit -> limit <= size s -> mrun limit s evs = (s1, os) ->
  batchers s1 = batchers s /\ forall k, In (Routed k) os -> In k (batchers s).
Proof. exact refused_stays_refused. Qed.
Print Assumptions C10_refused_stays_refused.

Example C10_store_first_refuted :
  let evs := [FastLoad 1 10; LockSection 1; FastLoad 2 20; LockSection 2; FastLoad 3 20] in
  mrun_store_first 1 minit evs = [Pending; Routed 10; Pending; Refused; Routed 20] /\
  snd (mrun 1 minit evs) = [Pending; Routed 10; Pending; Refused; Pending].
Proof. exact store_first_refuted. Qed.

(* non-vacuity: two goroutines miss on different new combinations with one slot left *)
Example C10_example_race :
  snd (mrun 1 minit [FastLoad 1 10; FastLoad 2 20; LockSection 2; LockSection 1; FastLoad 3 20]) =
  [Pending; Pending; Routed 20; Refused; Routed 20].
Proof. vm_compute. reflexivity. Qed.
Example C10_example_keys :
  aset [1; 2] [(1, [7])] <> aset [1; 2] [(1, [7; 7])] /\ aset [1; 2] [(1, [7])] = aset [1; 2] [(2, []); (1, [7]); (3, [9])].
Proof. split; [discriminate|reflexivity]. Qed.
