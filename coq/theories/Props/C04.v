(* Props/C04.v — property C04: decoded telemetry is independent of producer options and schema evolution.
   Partial, on top of C01–C03 and C13: proved are the two places where options could change CONTENT — the parent-id
   encoding under every attribute ordering, and the termination of the schema-evolution retry loop under every dictionary
   limit and reset threshold; that index widths, overflow to plain columns, dictionary resets and IPC compression do not
   change the logical record is the Arrow transport assumption, validated on every run (independent reader, C12).  The
   option space itself is a generated fact.  Tie: every ordering/limit/threshold/compression choice crossed with histories
   crossing the dictionary limits, decoded by a DEFAULT consumer, equivalence evaluated in Coq on real input/output. *)
From Coq Require Import String.
From Verif Require Import Base.ListX Obf.Obfuscate Otap.Tables Otap.Attrs Otap.Sorters Stream.DictMachine Stream.OptionsBaseline Otap.WrapperGuardsBaseline.
From VerifGen Require Import Options WrapperGuards.

(* whatever order a sorter variant puts the attribute rows in, the decoder recovers every parent id *)
Theorem C04_any_attribute_order : forall W rows sorted,
  0 < W -> Permutation rows sorted -> Forall (fun r => snd r < W) rows ->
  attrs_dec W (attrs_enc W sorted) = sorted.
Proof. exact any_order_decodes. Qed.
Print Assumptions C04_any_attribute_order.

(* schema evolution terminates within the retry budget for every limit, threshold, record state and batch *)
Theorem C04_retry_bound : forall cs bs pend k,
  Forall WF cs -> snd (fst (produce budget pend cs bs k)) <> PanicTooMany.
Proof. exact produce_no_panic. Qed.
Print Assumptions C04_retry_bound.

(* the option space of the current source is the one this development knows and exercises *)
Theorem C04_option_space_known :
  forallb known_option public_options = true /\
  all_in order_span_by_variants known_span_orders = true /\
  all_in order_attrs16_by_variants known_attrs16_orders = true /\
  all_in order_attrs32_by_variants known_attrs32_orders = true.
Proof. vm_compute. repeat split; reflexivity. Qed.
Print Assumptions C04_option_space_known.

(* "independent of schema evolution": which writes make a still-absent optional column appear is, for every wrapper method
   of the current source, what the model (Otap/Wrappers.v) assumes — a wrapper that starts swallowing zeros where zero is a
   value makes the decoded content depend on whether the column had appeared earlier in the stream *)
Theorem C04_wrapper_guards_as_modelled : forallb guard_known wrapper_guards = true.
Proof. vm_compute. reflexivity. Qed.
Print Assumptions C04_wrapper_guards_as_modelled.

(* Recorded findings: the encodings three 16-bit (and the analogous 32-bit) ordering variants used before the fix
   are mis-decoded; the reset rule before its fix exhausted the retry budget (see C08/C13). *)
Theorem C04_legacy_orderings_refuted :
  (exists rows, attrs_dec 65536 (enc_raw rows) <> rows) /\
  (exists rows, attrs_dec 65536 (enc_plain 65536 0 rows) <> rows) /\
  (exists rows, attrs_dec 65536 (enc_type_key 65536 rows) <> rows).
Proof. split; [exact legacy_raw_refuted|split; [exact legacy_plain_refuted|exact legacy_type_key_refuted]]. Qed.
Print Assumptions C04_legacy_orderings_refuted.
