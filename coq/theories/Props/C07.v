(* Props/C07.v — property C07: the consumer decodes a batch completely or rejects it; it never crashes.
   Partial: the theorems are about otel-arrow's own control flow (stream-consumer table, early returns,
   the record-count check, the payload dispatch); what the Arrow IPC library answers for damaged bytes
   and whether a table decodes are universally quantified inputs.  Index arithmetic inside arrow-go on
   spliced or bit-flipped IPC bytes is outside the property's domain and outside the model. *)
From Verif Require Import Base.ListX Stream.Consumer Stream.Abandon.

(* For every consumer state (any stream-consumer table, including entries whose reader could not be
   opened), every list of payloads (relabelled, dropped, duplicated, reordered, emptied, with unknown or
   stale schema ids) and every answer of the IPC library: no panic. *)
Theorem C07_no_panic : forall signal st ps, snd (from false false signal st ps) <> FPanic.
Proof. exact from_no_panic. Qed.
Print Assumptions C07_no_panic.

(* Success with nothing is returned only if no main record was read from the batch. *)
Theorem C07_main_not_discarded : forall signal st ps st1,
  from false false signal st ps = (st1, FNothing) ->
  forall recs, snd (consume false st ps) = COk recs -> count_ty (main_type signal) recs = 0%nat.
Proof. exact from_main_not_discarded. Qed.
Print Assumptions C07_main_not_discarded.

(* A well-formed batch (every payload read, every table decodable, one main record) is decoded. *)
Theorem C07_clean : forall signal st ps recs,
  snd (consume false st ps) = COk recs ->
  Forall (fun r => In (fst r) (known_types signal) /\ snd r = true) recs ->
  count_ty (main_type signal) recs = 1%nat ->
  (forall t, In t (single_types signal) -> (count_ty t recs <= 1)%nat) ->
  snd (from false false signal st ps) = FDecoded.
Proof. exact from_clean. Qed.
Print Assumptions C07_clean.

(* Recorded findings (the code before the fix:s): the error of RelatedDataFrom was dropped — a duplicated
   main record was answered with success and nothing; Release was called on a nil reader. *)
Theorem C07_legacy_discards_main :
  exists ps recs, snd (consume false [] ps) = COk recs /\ count_ty T_SPANS recs = 2%nat /\ snd (from false true 0 [] ps) = FNothing.
Proof. exact legacy_discards_main. Qed.
Theorem C07_legacy_nil_reader : exists st ps, snd (from true false 0 st ps) = FPanic.
Proof. exact legacy_nil_reader_panics. Qed.
Print Assumptions C07_legacy_nil_reader.

Example C07_example :
  snd (from false false 0 [{| e_sid := 1; e_ty := 40; e_reader := true |}; {| e_sid := 2; e_ty := 41; e_reader := true |}]
        [{| p_sid := 1; p_ty := 40; p_lib := okl; p_decodes := true |};
         {| p_sid := 9; p_ty := 41; p_lib := {| l_open_ok := false; l_next := false; l_err_ok := true |}; p_decodes := true |}]) = FErr.
Proof. vm_compute. reflexivity. Qed.

(* After a batch abandoned at some payload (memory-limit refusal, damaged payload) the sub-streams of the unread payloads have
   missed messages.  With the failure marks of the `fix:` commit, for every history of batches and every failure pattern no
   payload is ever decoded out of step with its sub-stream (stale dictionaries: index-out-of-range panic or wrong strings);
   the code before the fix could (Abandon.legacy_out_of_step). *)
Theorem C07_never_out_of_step : forall h,
  Forall (Forall (fun o => o <> Decoded false)) (history true st0 h).
Proof. intros h. exact (never_out_of_step h st0 in_sync_st0). Qed.
Print Assumptions C07_never_out_of_step.

(* "payload types relabelled ... never returns success while discarding a main record that was present in the batch": whatever
   labels the records of a batch travel under, with the strict related-table decoders (parent_id mandatory) success-with-nothing
   is never returned while a record that physically is the signal's main record is among those read; the lenient decoders
   (before the fix) are refuted on bare spans relabelled to span events. *)
Theorem C07_relabelled_main_never_discarded : forall signal recs,
  (exists r, In r recs /\ r_true r = main_type signal) -> dispatch3 true signal recs <> FNothing.
Proof. exact main_never_discarded. Qed.
Print Assumptions C07_relabelled_main_never_discarded.

Example C07_lenient_discards_relabelled_main :
  dispatch3 false 0 [{| r_label := 42; r_true := 40; r_wf := true; r_lenient := true |}] = FNothing /\
  dispatch3 true 0 [{| r_label := 42; r_true := 40; r_wf := true; r_lenient := true |}] = FErr.
Proof. exact lenient_discards_relabelled_main. Qed.
