(* Props/C08.v — property C08: the producer never crashes on valid OTLP input.
   Partial: the encoders' column appends are not modelled statement by statement; what is proved is
   the part where termination/crash freedom is a genuine question (the retry loop, the id widths), and
   the explicit panic sites of the source are tied to a classified baseline that is re-checked against
   the current source on every run.  Result classes (ok / error / panic site) of the real producer on
   random, degenerate and boundary histories are the correspondence half. *)
From Coq Require Import String.
From Verif Require Import Base.ListX Stream.DictMachine Stream.PanicBaseline.
From VerifGen Require Import PanicSites.

(* The retry loop of arrow_record.recordBuilder / Attrs*Builder.Build never exhausts its budget
   ("Too many consecutive schema updates") because of dictionary events — for every record, every batch,
   every stream history behind it (any state of the columns), with or without a pending schema update. *)
Theorem C08_retry_bound : forall cs bs pend k,
  Forall WF cs -> snd (fst (produce budget pend cs bs k)) <> PanicTooMany.
Proof. exact produce_no_panic. Qed.
Print Assumptions C08_retry_bound.

(* Every explicit panic site of the current source is a known, classified one. *)
Theorem C08_all_sites_classified : forallb classified panic_sites = true.
Proof. vm_compute. reflexivity. Qed.
Print Assumptions C08_all_sites_classified.

(* non-vacuity: the history that used to exhaust the budget now terminates at the third attempt *)
Example C08_example :
  snd (fst (produce budget false [col_init (cfg_of_limit 255 255 3 10)] [(3000%N, map N.of_nat (seq 0 300))] 0)) = Sent [None] 3.
Proof. vm_compute. reflexivity. Qed.
