(* Props/C14.v — property C14: the consumer enforces its Arrow memory limit by refusing.
   Partial: that a LimitError panic raised inside arrow-go resurfaces as an error of Reader.Next/Err
   wrapping it (the library's recover + %w) and that the library's allocation sequence does not
   depend on the limit are contracts of the Arrow library; they are checked by correspondence on
   every run (consumer under many limits), not proved. *)
From Verif Require Import Base.ListX Mem.Allocator Stream.Abandon.

(* For every well-bracketed sequence of client operations (allocate / resize a held block, also
   shrinking — the uint64 wrap-around cancels — / free a held block): in-use is exactly the sum of
   the live blocks and never exceeds the limit. *)
Theorem C14_inuse_le_limit : forall cs lim st1 es,
  lim < 2 ^ 62 -> cops_small cs ->
  crun ({| inuse := 0; limit := lim |}, []) cs = (st1, es) ->
  inuse (fst st1) = sumN (snd st1) /\ inuse (fst st1) <= lim.
Proof.
  intros cs lim st1 es Hl Hs H.
  assert (HI : AInv ({| inuse := 0; limit := lim |}, [])) by (split; cbn; lia).
  destruct (crun_inv cs _ _ _ HI Hl Hs H) as [[H1 H2] H3]. cbn in H3. rewrite H3 in H2. split; assumption.
Qed.
Print Assumptions C14_inuse_le_limit.

(* A refusal changes nothing and reports a request that really does not fit. *)
Theorem C14_refusal_exact : forall st c st1 le,
  AInv st -> limit (fst st) < 2 ^ 62 -> (forall s, c = CAlloc s \/ (exists i, c = CRealloc i s) -> small s) ->
  cstep st c = (st1, Some le) ->
  st1 = st /\ le_limit le = limit (fst st) /\ le_inuse le = inuse (fst st) /\ limit (fst st) < inuse (fst st) + le_request le.
Proof. intros st c st1 le HI Hl Hs H. exact (proj2 (proj2 (cstep_inv st c st1 (Some le) HI Hl Hs H)) le eq_refl). Qed.
Print Assumptions C14_refusal_exact.

(* Raising the limit never turns an accepted operation into a refused one and never changes in-use. *)
Theorem C14_monotone : forall a a' live c st1,
  inuse a = inuse a' -> limit a <= limit a' -> cstep (a, live) c = (st1, None) ->
  exists a1', cstep (a', live) c = ((a1', snd st1), None) /\ inuse (fst st1) = inuse a1' /\ limit a1' = limit a' /\ limit (fst st1) = limit a.
Proof. exact cstep_monotone. Qed.
Print Assumptions C14_monotone.

(* The memory-limit error is recognisable through any chain of wrappers. *)
Theorem C14_recognisable : forall e, is_limit e = true <-> contains_limit e.
Proof. exact is_limit_iff. Qed.
Print Assumptions C14_recognisable.

Example C14_example :
  map (fun e => match e with Some _ => true | None => false end)
      (snd (crun ({| inuse := 0; limit := 100 |}, []) [CAlloc 60; CAlloc 50; CRealloc 0 20; CAlloc 50; CFree 0; CAlloc 45])) =
  [false; true; false; false; false; false].
Proof. vm_compute. reflexivity. Qed.

(* After a batch abandoned at some payload (memory-limit refusal, damaged payload) the sub-streams of the unread payloads have
   missed messages.  With the failure marks of the `fix:` commit, for every history of batches and every failure pattern no
   payload is ever decoded out of step with its sub-stream (stale dictionaries: index-out-of-range panic or wrong strings);
   the code before the fix could (Abandon.legacy_out_of_step). *)
Theorem C14_never_out_of_step : forall h,
  Forall (Forall (fun o => o <> Decoded false)) (history true st0 h).
Proof. intros h. exact (never_out_of_step h st0 in_sync_st0). Qed.
Print Assumptions C14_never_out_of_step.

(* "... or refuses it with an error that is recognisable as the memory-limit error", at any later point of the stream: on every
   history in which the library only ever fails for the memory limit, every refusal — the first one and every one a marked
   sub-stream answers with later — is recognisable; marks holding a re-formatted error are refuted. *)
Theorem C14_refusals_stay_recognisable : forall h,
  Forall limit_failures h -> Forall (Forall recognisable) (mhistory true no_marks h).
Proof. intros h Hh. exact (refusals_stay_recognisable h no_marks no_marks_only Hh). Qed.
Print Assumptions C14_refusals_stay_recognisable.

Example C14_reformatted_mark_refuted :
  let h := [[(1, None); (2, None)]; [(1, Some true); (2, None)]; [(3, None); (2, None)]] in
  mhistory false no_marks h = [[MDecoded; MDecoded]; [MRefused true; MUnread]; [MDecoded; MRefused false]] /\
  mhistory true no_marks h = [[MDecoded; MDecoded]; [MRefused true; MUnread]; [MDecoded; MRefused true]].
Proof. exact reformatted_mark_refuted. Qed.
