(* Props/C18.v — property C18: one caller's context never decides the fate of another
   caller's items.  Only statements, each closed by `exact`, with Print Assumptions. *)
From Verif Require Import Base.ListX Batch.Ctx.

(* A batch fed by a single request context is exported as a child of that request. *)
Theorem C18_single_ctx : forall c0 tl,
  (forall y, In y (c0 :: tl) -> y = c0) ->
  export_plan (c0 :: tl) = Some {| p_ctx := FromCaller c0; p_links := [] |}.
Proof. exact plan_single. Qed.
Print Assumptions C18_single_ctx.

(* A batch with more than one request context — the differing one at any position — is
   exported under the processor's own context, linked to every contributing request once. *)
Theorem C18_multi_ctx : forall x,
  x <> [] -> (exists y, In y x /\ y <> hd 0 x) ->
  exists links, export_plan x = Some {| p_ctx := FromShard; p_links := links |}
     /\ NoDup links /\ (forall c, In c links <-> In c x).
Proof. exact plan_multi. Qed.
Print Assumptions C18_multi_ctx.

(* Cancelling caller context d can only reach exports all of whose contributors used d. *)
Theorem C18_isolation : forall x p d,
  export_plan x = Some p -> depends_on d p -> forall c, In c x -> c = d.
Proof. exact plan_isolation. Qed.
Print Assumptions C18_isolation.

(* sendItems never runs allSameContext on an empty contributor list (no slice panic) is
   Shard.v's invariant; here: it is total on non-empty lists. *)
Theorem C18_total : forall x, x <> [] -> exists b, all_same_context x = Some b.
Proof. exact all_same_total. Qed.
Print Assumptions C18_total.

(* Recorded finding: the code before the fix (x[idx] for x[idx+1]) violates isolation. *)
Theorem C18_legacy_refuted :
  exists x p d c, export_plan_v0 x = Some p /\ depends_on d p /\ In c x /\ c <> d.
Proof. exact plan_v0_refuted. Qed.
Print Assumptions C18_legacy_refuted.

(* non-vacuity *)
Example C18_example_multi :
  export_plan [7; 7; 9] = Some {| p_ctx := FromShard; p_links := [7; 9] |}.
Proof. vm_compute. reflexivity. Qed.
Example C18_example_single :
  export_plan [7; 7; 7] = Some {| p_ctx := FromCaller 7; p_links := [] |}.
Proof. vm_compute. reflexivity. Qed.
