(* Props/C01.v — property C01: traces survive the OTLP -> OTAP -> OTLP round trip for every stream history.
   Partial.  Proved, for every input and every row order a sorter may produce: the id machinery that attaches
   attributes, events and links to their spans and spans to their resource/scope groups (delta-encoded id columns,
   group-delta parent ids, the attribute store), and the soundness of the equivalence checker.  The scalar columns of
   the span table are not modelled cell by cell; for them, and for the composition with the Arrow transport, the tie is
   the equivalence predicate of Otlp/Equiv.v evaluated in Coq on the real input and output of every batch of generated
   histories, plus the table-level comparison of the model decoder with the real one.  That resource/scope identifiers
   are injective (needed for regrouping: spans of different resources/scopes must not be merged) is a theorem about
   Otlp/Ids.v, whose composition is compared character for character with the real ResourceID/ScopeID on every run; the
   unique decodability of the strconv/hex atom renderers is its (explicit) hypothesis. *)
From Verif Require Import Base.ListX Obf.Obfuscate Otlp.Equiv Otap.Tables Otap.Attrs.
From Verif Require Otlp.Ids Otlp.Atoms.

(* Attribute tables (resource, scope, span: 16-bit parents; event, link: 32-bit): whatever order the sorter produced,
   every parent gets back exactly its own attributes. *)
Theorem C01_attrs_roundtrip : forall W rows p,
  0 < W -> Forall (fun r => snd r < W) rows ->
  NoDup (map fst (rows_of value p (map (fun r => (snd r, fst (fst r), snd (fst r))) rows))) ->
  store_get value (attrs_store (attrs_dec W (attrs_enc W rows))) p =
  rows_of value p (map (fun r => (snd r, fst (fst r), snd (fst r))) rows).
Proof. exact attrs_roundtrip. Qed.
Print Assumptions C01_attrs_roundtrip.

(* Parent ids of any related table (events keyed on the name, links on the trace id, attributes on key+value), any
   grouping relation — reflexive or not —, any row order, arithmetic modulo the id width. *)
Theorem C01_parent_ids_roundtrip : forall W, 0 < W -> forall (K : Type) (same : K -> K -> bool) rows st,
  Forall (fun r => snd r < W) rows -> st_ok W K st -> gd_dec W K same st (gd_enc W K same st rows) = rows.
Proof. exact gd_dec_enc. Qed.
Print Assumptions C01_parent_ids_roundtrip.

(* Delta-encoded id columns (span id — null for spans without children —, resource id, scope id, event/link ids). *)
Theorem C01_id_columns_roundtrip : forall W, 0 < W -> forall ids prev,
  Forall (fun o => match o with Some v => v < W | None => True end) ids -> prev < W ->
  id_dec W prev (id_enc W prev ids) = ids.
Proof. exact id_dec_enc. Qed.
Print Assumptions C01_id_columns_roundtrip.

(* ids handed out by a counter in row order never trip the delta builders' panics *)
Theorem C01_counter_ids_ok : forall hc, steps_ok 0 true (seq_ids 0 hc) = true.
Proof. intros hc. apply (seq_ids_steps_ok 1 ltac:(lia) hc 0 0 true). left. reflexivity. Qed.
Print Assumptions C01_counter_ids_ok.

(* the verdict computed on real inputs/outputs is a genuine equivalence of normal forms *)
Theorem C01_checker_sound : forall input output, equivb input output = true -> equiv input output.
Proof. exact equivb_sound. Qed.
Print Assumptions C01_checker_sound.

(* ... and nothing more: it accepts exactly the equivalent pairs (a round trip satisfying the property is never rejected) *)
Theorem C01_checker_complete : forall input output, equiv input output -> equivb input output = true.
Proof. exact equivb_complete. Qed.
Print Assumptions C01_checker_complete.

Example C01_example :
  let rows := [(([1], VStr [7]), 3); (([2], VInt 5), 1); (([1], VStr [7]), 1); (([1], VStr [7]), 65535)] in
  attrs_dec 65536 (attrs_enc 65536 rows) = rows /\ map snd (attrs_enc 65536 rows) = [3; 1; 1; 65534].
Proof. vm_compute. split; reflexivity. Qed.

(* ResourceID, ScopeID and ValueID (ids.go, after the fix: type tags + quoted strings) are injective for arbitrarily
   nested attribute values, given that strconv.Quote is self-delimiting and the number / hex renderers are uniquely
   decodable before one of , ] } | (Ids.atoms_ok): resources and scopes are grouped together only if their attributes
   (as sorted entry lists), dropped counts and schema URLs — and for scopes name and version — are all equal. *)
Theorem C01_identifiers_injective : forall D q fi fd fb fx fu canon,
  Ids.atoms_ok D q fi fd fb fx fu ->
  (forall a d u a' d' u', Ids.resource_id D q fi fd fb fx fu canon a d u = Ids.resource_id D q fi fd fb fx fu canon a' d' u' ->
     canon a = canon a' /\ d = d' /\ u = u') /\
  (forall n v a d u n' v' a' d' u', Ids.scope_id D q fi fd fb fx fu canon n v a d u = Ids.scope_id D q fi fd fb fx fu canon n' v' a' d' u' ->
     n = n' /\ v = v' /\ canon a = canon a' /\ d = d' /\ u = u') /\
  (forall v v' r r', Ids.T r -> Ids.T r' -> Ids.ev D q fi fd fb fx v ++ r = Ids.ev D q fi fd fb fx v' ++ r' -> v = v' /\ r = r').
Proof. exact Ids.ids_injective. Qed.
Print Assumptions C01_identifiers_injective.

(* ... and of those hypotheses only strconv.Quote, strconv.FormatFloat and hex.EncodeToString remain assumed: decimal
   FormatInt / FormatUint and FormatBool are defined in Otlp/Atoms.v (and compared with the real functions on every run)
   and their unique decodability is proved there. *)
Theorem C01_identifier_atoms : forall D q fd fx,
  (forall a b r r', q a ++ r = q b ++ r' -> a = b /\ r = r') ->
  (forall a, exists t, q a = 34 :: t) ->
  (forall (a b : D) r r', Ids.T r -> Ids.T r' -> fd a ++ r = fd b ++ r' -> a = b /\ r = r') ->
  (forall a b r r', Ids.T r -> Ids.T r' -> fx a ++ r = fx b ++ r' -> a = b /\ r = r') ->
  Ids.atoms_ok D q Atoms.fmt_int fd Atoms.fmt_bool fx Atoms.fmt_uint.
Proof. exact Atoms.atoms_ok_reduced. Qed.
Print Assumptions C01_identifier_atoms.
