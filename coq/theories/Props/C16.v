(* Props/C16.v — property C16: separate streams are independent under concurrent use.
   Partial: data-race freedom is a property of the Go memory model that an executable model cannot exhibit; what is
   proved is the logical half — non-interference of instance-local steps for every interleaving — and its premise is
   tied to the code by two generated facts: the current source contains no store to package-level state outside package
   initialisation, and no package-level variable holds a stateful object (SSA scan of everything reachable from
   pkg/otel/arrow_record).  Concurrent runs of the real code
   (each stream compared with its solo run; `-race` in the thorough tier) are supporting evidence. *)
From Coq Require Import String.
From Verif Require Import Base.ListX Indep.Frame Indep.StoresBaseline.
From Verif Require Indep.Alias.
From VerifGen Require Import GlobalStores GlobalVars OptionCaptures.

(* any number of instances, any schedule: each instance's outputs and final state are those of its solo run *)
Theorem C16_noninterference_partial : forall (Env St In Out : Type) (step : Env -> St -> In -> St * Out) env sched sts d i,
  (i < length sts)%nat ->
  outputs_of Out i (snd (run Env St In Out step env sts d sched)) = snd (solo Env St In Out step env (nth i sts d) (inputs_of In i sched)) /\
  nth i (fst (run Env St In Out step env sts d sched)) d = fst (solo Env St In Out step env (nth i sts d) (inputs_of In i sched)).
Proof. exact noninterference. Qed.
Print Assumptions C16_noninterference_partial.

(* the premise, for the code as it is now *)
Theorem C16_no_shared_mutable_state : forallb allowed_store global_stores = true.
Proof. vm_compute. reflexivity. Qed.
Print Assumptions C16_no_shared_mutable_state.

(* ... and every package-level variable that can reach memory at all is an error value, an immutable library
   prototype or a read-only lookup table: no instance can reach a stateful object of another through package state *)
Theorem C16_no_shared_stateful_objects : forallb allowed_global global_vars = true.
Proof. vm_compute. reflexivity. Qed.
Print Assumptions C16_no_shared_stateful_objects.

(* ... nor through an option value: no option constructor captures reference-like state that it created itself
   (an option value is created once and applied to every instance a receiver or exporter builds) *)
Theorem C16_options_capture_no_state : option_captures = [].
Proof. reflexivity. Qed.
Print Assumptions C16_options_capture_no_state.

(* ... nor through the messages in flight between a producer and the consumer of its stream: they are values, so a consumer
   that lags behind (or runs beside) its producer decodes, for every interleaving of produce and consume steps, exactly
   the produced payloads in order; messages that are views of the stream buffer do not (refuted) *)
Theorem C16_messages_are_values : forall ops,
  (Alias.decoded (Alias.run false ops) ++ map Alias.payload_of (Alias.inflight (Alias.run false ops)))%list = Alias.produced ops.
Proof. exact Alias.messages_are_values. Qed.
Print Assumptions C16_messages_are_values.

Theorem C16_caught_up_decodes_all : forall ops, Alias.inflight (Alias.run false ops) = [] -> Alias.decoded (Alias.run false ops) = Alias.produced ops.
Proof. exact Alias.caught_up_decodes_all. Qed.
Print Assumptions C16_caught_up_decodes_all.

Example C16_alias_refuted :
  let ops := [Alias.Produce [1; 2; 3]; Alias.Produce [7; 8]; Alias.Consume; Alias.Consume] in
  Alias.inflight (Alias.run true ops) = [] /\ Alias.decoded (Alias.run true ops) = [[7; 8; 3]; [7; 8]] /\ Alias.decoded (Alias.run false ops) = Alias.produced ops.
Proof. exact Alias.alias_refuted. Qed.

Example C16_example :
  let step := fun (_ : unit) (s : N) (x : N) => (s + x, s + x) in
  outputs_of N 1 (snd (run unit N N N step tt [0; 100] 0 [(0%nat, 1); (1%nat, 5); (0%nat, 2); (1%nat, 7)])) = [105; 112].
Proof. vm_compute. reflexivity. Qed.
