(* Props/C02.v — property C02: logs survive the round trip.  Partial, as C01: the logs table shares the id and
   attribute machinery with traces (LOG_ATTRS, resource/scope attributes, 16-bit ids); the body one-of and the scalar
   columns are covered by the equivalence predicate evaluated in Coq on real input/output (bodies of every value type,
   the same scope under different resources). *)
From Verif Require Import Base.ListX Obf.Obfuscate Otlp.Equiv Otap.Tables Otap.Attrs.

Theorem C02_attrs_roundtrip : forall rows p,
  Forall (fun r => snd r < 65536) rows ->
  NoDup (map fst (rows_of value p (map (fun r => (snd r, fst (fst r), snd (fst r))) rows))) ->
  store_get value (attrs_store (attrs_dec 65536 (attrs_enc 65536 rows))) p =
  rows_of value p (map (fun r => (snd r, fst (fst r), snd (fst r))) rows).
Proof. intros rows p. apply attrs_roundtrip. lia. Qed.
Print Assumptions C02_attrs_roundtrip.

Theorem C02_id_columns_roundtrip : forall ids,
  Forall (fun o => match o with Some v => v < 65536 | None => True end) ids ->
  id_dec 65536 0 (id_enc 65536 0 ids) = ids.
Proof. intros ids H. apply id_dec_enc; [lia|exact H|lia]. Qed.
Print Assumptions C02_id_columns_roundtrip.

(* normalisation of bodies: a top-level empty byte string stays a byte string, nested ones are unset; NaNs are one value *)
Example C02_body_norm :
  norm_tree (TV (VList [VBytes []; VDouble 9221120237041090561; VMap [([1], VBytes [])]])) =
  TV (VList [VEmpty; VDouble 9221120237041090560; VMap [([1], VEmpty)]]) /\ norm_tree (TV (VBytes [])) = TV (VBytes []).
Proof. vm_compute. split; reflexivity. Qed.

(* grouping by resource / scope identifier: see C01_identifiers_injective (Otlp/Ids.v); the same identifiers are used for
   this signal and are compared character for character with the real ones on every run (id_mismatch) *)
