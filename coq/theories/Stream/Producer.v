(* Stream/Producer.v — model of arrow_record.Producer.Produce (framing of BatchArrowRecords):
   batch ids, sub-stream (schema) ids, the table of stream producers keyed by the schema signature
   ([payload prefix ":"] SchemaToID(schema)), closing of the writers of a payload type when it moves to
   a new schema.  Record contents are irrelevant here. *)
From Verif Require Import Base.ListX.

Record sprod := { sp_key : N; sp_sid : N; sp_ty : N }.
Record pstate := { streams : list sprod; next_sid : N; batch_id : N }.

Definition pinit : pstate := {| streams := []; next_sid := 0; batch_id := 0 |}.

Fixpoint find_key (k : N) (l : list sprod) : option sprod :=
  match l with [] => None | s :: tl => if N.eqb (sp_key s) k then Some s else find_key k tl end.

(* one RecordMessage (payload type, stream-producer key) -> ArrowPayload (schema id, type) *)
Definition produce_payload (st : pstate) (p : N * N) : pstate * (N * N) :=
  let '(ty, key) := p in
  match find_key key (streams st) with
  | Some sp => (st, (sp_sid sp, ty))
  | None =>
      let kept := filter (fun s => negb (N.eqb (sp_ty s) ty)) (streams st) in   (* writers of this type are closed *)
      ({| streams := kept ++ [{| sp_key := key; sp_sid := next_sid st; sp_ty := ty |}];
          next_sid := next_sid st + 1; batch_id := batch_id st |}, (next_sid st, ty))
  end.

Fixpoint produce_payloads (st : pstate) (ps : list (N * N)) : pstate * list (N * N) :=
  match ps with
  | [] => (st, [])
  | p :: tl => let '(st1, o) := produce_payload st p in let '(st2, os) := produce_payloads st1 tl in (st2, o :: os)
  end.

Definition produce_batch (st : pstate) (ps : list (N * N)) : pstate * (N * list (N * N)) :=
  let '(st1, os) := produce_payloads st ps in
  ({| streams := streams st1; next_sid := next_sid st1; batch_id := batch_id st1 + 1 |}, (batch_id st, os)).

Fixpoint prun (st : pstate) (h : list (list (N * N))) : pstate * list (N * list (N * N)) :=
  match h with
  | [] => (st, [])
  | b :: tl => let '(st1, o) := produce_batch st b in let '(st2, os) := prun st1 tl in (st2, o :: os)
  end.

(* ---------------------------------------------------------------- invariants *)
(* every key ever seen keeps one payload type (main keys are schema signatures of different schemas,
   related keys carry a per-type prefix) *)
Definition key_typed (kt : list (N * N)) (p : N * N) : Prop := forall ty, In (snd p, ty) kt -> ty = fst p.

Definition PInv (st : pstate) : Prop :=
  NoDup (map sp_sid (streams st)) /\ NoDup (map sp_key (streams st)) /\ NoDup (map sp_ty (streams st)) /\
  Forall (fun s => sp_sid s < next_sid st) (streams st).

Lemma PInv_init : PInv pinit.
Proof. repeat split; constructor. Qed.

Lemma find_key_In k l s : find_key k l = Some s -> In s l /\ sp_key s = k.
Proof.
  induction l as [|a l IH]; cbn; [discriminate|]. destruct (N.eqb (sp_key a) k) eqn:E.
  - intros H. injection H as <-. split; [left; reflexivity|apply N.eqb_eq; exact E].
  - intros H. destruct (IH H). split; [right; assumption|assumption].
Qed.

Lemma find_key_None k l : find_key k l = None -> ~ In k (map sp_key l).
Proof.
  induction l as [|a l IH]; cbn; [tauto|]. destruct (N.eqb (sp_key a) k) eqn:E; [discriminate|].
  intros H [Ha|Hi]; [apply N.eqb_neq in E; congruence|exact (IH H Hi)].
Qed.

Lemma NoDup_map_filter {A B} (f : A -> B) (p : A -> bool) l : NoDup (map f l) -> NoDup (map f (filter p l)).
Proof.
  induction l as [|a l IH]; cbn; [auto|]. intros H. inversion H as [|? ? Ha Hl]; subst.
  destruct (p a); cbn; [constructor; [|auto]|auto].
  intros Hi. apply Ha. apply in_map_iff in Hi. destruct Hi as [x [Hx Hf]]. apply filter_In in Hf. apply in_map_iff. exists x. tauto.
Qed.

Lemma in_map_filter {A B} (f : A -> B) (p : A -> bool) l y : In y (map f (filter p l)) -> In y (map f l).
Proof. intros H. apply in_map_iff in H. destruct H as [x [Hx Hf]]. apply filter_In in Hf. apply in_map_iff. exists x. tauto. Qed.

(* one payload: the emitted schema id belongs to a live stream of that type and key; ids of streams that were
   closed are below next_sid and never come back *)
Lemma produce_payload_spec st p st1 o :
  PInv st -> produce_payload st p = (st1, o) ->
  PInv st1 /\ next_sid st <= next_sid st1 /\
  (exists s, In s (streams st1) /\ sp_sid s = fst o /\ sp_key s = snd p /\ snd o = fst p) /\
  (forall s, In s (streams st1) -> In s (streams st) \/ sp_sid s = next_sid st) /\
  batch_id st1 = batch_id st.
Proof.
  intros (H1 & H2 & H3 & H4) H. destruct p as [ty key]. cbn [produce_payload] in H.
  destruct (find_key key (streams st)) as [sp|] eqn:E.
  - injection H as <- <-. apply find_key_In in E. destruct E as [Ei Ek].
    split; [repeat split; assumption|]. split; [lia|]. split; [exists sp; cbn; auto|]. split; [auto|reflexivity].
  - injection H as <- <-. apply find_key_None in E. cbn [streams next_sid batch_id fst snd].
    set (kept := filter (fun s => negb (N.eqb (sp_ty s) ty)) (streams st)).
    set (nw := {| sp_key := key; sp_sid := next_sid st; sp_ty := ty |}).
    split; [|split; [lia|split; [|split; [|reflexivity]]]].
    + unfold PInv. cbn [streams next_sid]. rewrite !map_app. cbn [map sp_sid sp_key sp_ty nw].
      split; [|split; [|split]].
      * apply NoDup_snoc; [apply NoDup_map_filter; exact H1|].
        intros Hi. apply in_map_filter in Hi. apply in_map_iff in Hi. destruct Hi as [x [Hx Hin]].
        rewrite Forall_forall in H4. specialize (H4 x Hin). lia.
      * apply NoDup_snoc; [apply NoDup_map_filter; exact H2|]. intros Hi. apply in_map_filter in Hi. exact (E Hi).
      * apply NoDup_snoc; [apply NoDup_map_filter; exact H3|]. intros Hi. apply in_map_iff in Hi. destruct Hi as [x [Hx Hin]].
        apply filter_In in Hin. destruct Hin as [_ Hn]. apply negb_true_iff in Hn. apply N.eqb_neq in Hn. cbn in Hx. congruence.
      * apply Forall_app. split.
        -- apply Forall_forall. intros x Hx. apply filter_In in Hx. destruct Hx as [Hx _].
           rewrite Forall_forall in H4. specialize (H4 x Hx). lia.
        -- constructor; [cbn; lia|constructor].
    + exists nw. split; [apply in_or_app; right; left; reflexivity|]. cbn. auto.
    + intros s Hs. apply in_app_or in Hs. destruct Hs as [Hs|[<-|[]]]; [left; apply filter_In in Hs; tauto|right; reflexivity].
Qed.

(* ---- histories: what was emitted, over the whole stream ---- *)
(* emitted payloads of a history, flattened, each with its input (type, key) *)
Fixpoint emitted (st : pstate) (h : list (list (N * N))) : list (N * N * N) (* sid, type, key *) :=
  match h with
  | [] => []
  | b :: tl =>
      let '(st1, (_, os)) := produce_batch st b in
      map (fun x => (fst (fst x), snd (fst x), snd (snd x))) (combine os b) ++ emitted st1 tl
  end.

(* batch ids count up by one from the producer's current id *)
Lemma prun_batch_ids : forall h st st1 outs,
  prun st h = (st1, outs) -> map fst outs = map (fun i => batch_id st + N.of_nat i) (seq 0 (length h)).
Proof.
  induction h as [|b tl IH]; intros st st1 outs H; cbn [prun] in H.
  - injection H as <- <-. reflexivity.
  - destruct (produce_batch st b) as [sa o] eqn:E1. destruct (prun sa tl) as [sb os] eqn:E2. injection H as <- <-.
    unfold produce_batch in E1. destruct (produce_payloads st b) as [sc pos] eqn:E3. injection E1 as <- <-.
    cbn [map fst length seq]. f_equal; [lia|].
    rewrite (IH _ _ _ E2). cbn [batch_id].
    assert (Hb : batch_id sc = batch_id st).
    { clear -E3. revert st sc pos E3. induction b as [|p b IHb]; intros st sc pos E3; cbn [produce_payloads] in E3.
      - injection E3 as <- <-. reflexivity.
      - destruct (produce_payload st p) as [s1 o1] eqn:Ep. destruct (produce_payloads s1 b) as [s2 o2] eqn:Er. injection E3 as <- <-.
        rewrite (IHb _ _ _ Er). destruct p as [ty key]. cbn [produce_payload] in Ep.
        destruct (find_key key (streams st)); injection Ep as <- _; reflexivity. }
    rewrite Hb. rewrite <- seq_shift, map_map. apply map_ext. intros i. lia.
Qed.

(* ---- a schema id denotes one payload type and one schema, over the whole stream ---- *)
(* Batch boundaries do not touch the stream table, so a history is the concatenation of its payload lists. *)
Definition triple (o : N * N) (p : N * N) : N * N * N := (fst o, snd o, snd p).   (* sid, type, key *)

Definition consistent_inputs (ps : list (N * N)) : Prop :=
  forall ty1 ty2 k, In (ty1, k) ps -> In (ty2, k) ps -> ty1 = ty2.

Definition HInv (seen : list (N * N)) (st : pstate) (E : list (N * N * N)) : Prop :=
  PInv st /\
  Forall (fun s => In (sp_ty s, sp_key s) seen) (streams st) /\
  Forall (fun e => fst (fst e) < next_sid st) E /\
  (forall e s, In e E -> In s (streams st) -> fst (fst e) = sp_sid s -> snd (fst e) = sp_ty s /\ snd e = sp_key s) /\
  (forall e1 e2, In e1 E -> In e2 E -> fst (fst e1) = fst (fst e2) -> e1 = e2).

Lemma steps_inv all : forall ps seen st E st1 os,
  consistent_inputs all -> (forall p, In p seen -> In p all) -> (forall p, In p ps -> In p all) ->
  HInv seen st E -> produce_payloads st ps = (st1, os) ->
  HInv (seen ++ ps) st1 (E ++ map (fun x => triple (fst x) (snd x)) (combine os ps)).
Proof.
  induction ps as [|p tl IH]; intros seen st E st1 os Hc Hseen Hps HI H; cbn [produce_payloads] in H.
  - injection H as <- <-. cbn. rewrite !app_nil_r. exact HI.
  - destruct (produce_payload st p) as [sa o] eqn:E1. destruct (produce_payloads sa tl) as [sb os'] eqn:E2.
    injection H as <- <-. cbn [combine map]. cbn [fst snd].
    replace (seen ++ p :: tl) with ((seen ++ [p]) ++ tl) by (rewrite <- app_assoc; reflexivity).
    replace (E ++ triple o p :: map (fun x => triple (fst x) (snd x)) (combine os' tl))
      with ((E ++ [triple o p]) ++ map (fun x => triple (fst x) (snd x)) (combine os' tl)) by (rewrite <- app_assoc; reflexivity).
    eapply IH; [exact Hc| | |
      |exact E2].
    + intros q Hq. apply in_app_or in Hq. destruct Hq as [Hq|[<-|[]]]; [auto|apply Hps; left; reflexivity].
    + intros q Hq. apply Hps. right. exact Hq.
    + destruct HI as (HP & Hty & Hlt & Hlive & Hfun).
      pose proof (produce_payload_spec _ _ _ _ HP E1) as (HPa & Hmono & (s0 & Hs0 & Hsid0 & Hkey0 & Hty0) & Horigin & _).
      destruct p as [ty key]. cbn [fst snd] in *.
      (* the live stream that emitted: its type is the payload's type *)
      assert (Hs0ty : sp_ty s0 = ty /\ In (sp_ty s0, sp_key s0) (seen ++ [(ty, key)])).
      { destruct (Horigin s0 Hs0) as [Hold|Hnew].
        - rewrite Forall_forall in Hty. specialize (Hty s0 Hold). split; [|apply in_or_app; left; exact Hty].
          apply (Hc (sp_ty s0) ty key); [apply Hseen; rewrite <- Hkey0; exact Hty|apply Hps; left; reflexivity].
        - (* freshly created: by construction *)
          cbn [produce_payload] in E1. destruct (find_key key (streams st)) as [sp|] eqn:Ef.
          + injection E1 as <- <-. apply find_key_In in Ef. destruct Ef as [Ei _].
            destruct HP as (_ & _ & _ & Hb). rewrite Forall_forall in Hb. specialize (Hb s0 Hs0). lia.
          + injection E1 as <- <-. cbn [streams] in Hs0. apply in_app_or in Hs0. destruct Hs0 as [Hk|[<-|[]]].
            * apply filter_In in Hk. destruct Hk as [Hk _]. destruct HP as (_ & _ & _ & Hb). rewrite Forall_forall in Hb. specialize (Hb s0 Hk). lia.
            * cbn. split; [reflexivity|apply in_or_app; right; left; reflexivity]. }
      destruct Hs0ty as [Hs0t Hs0seen].
      unfold HInv. split; [exact HPa|]. split; [|split; [|split]].
      * apply Forall_forall. intros s Hs. destruct (Horigin s Hs) as [Hold|Hnew].
        -- rewrite Forall_forall in Hty. apply in_or_app. left. apply Hty. exact Hold.
        -- destruct HPa as (Hnd & _). assert (s = s0).
           { destruct (Horigin s0 Hs0) as [Hold0|Hnew0].
             - (* s0 old: then o came from an existing stream, state unchanged, so no stream has sid = next_sid *)
               cbn [produce_payload] in E1. destruct (find_key key (streams st)) as [sp|] eqn:Ef.
               + injection E1 as <- <-. destruct HP as (_ & _ & _ & Hb). rewrite Forall_forall in Hb. specialize (Hb s Hs). lia.
               + injection E1 as <- <-. cbn [streams] in Hs0. apply in_app_or in Hs0. destruct Hs0 as [Hk|[<-|[]]].
                 * cbn [streams] in Hs. apply in_app_or in Hs. destruct Hs as [Hk2|[<-|[]]].
                   -- apply filter_In in Hk2. destruct Hk2 as [Hk2 _]. destruct HP as (_ & _ & _ & Hb). rewrite Forall_forall in Hb. specialize (Hb s Hk2). lia.
                   -- destruct HP as (_ & _ & _ & Hb). rewrite Forall_forall in Hb. specialize (Hb s0 Hold0). cbn in Hsid0. apply filter_In in Hk. destruct Hk as [Hk _]. specialize (Hb). lia.
                 * cbn [streams] in Hs. apply in_app_or in Hs. destruct Hs as [Hk2|[<-|[]]]; [|reflexivity].
                   apply filter_In in Hk2. destruct Hk2 as [Hk2 _]. destruct HP as (_ & _ & _ & Hb). rewrite Forall_forall in Hb. specialize (Hb s Hk2). lia.
             - (* both have sid next_sid: NoDup sids *)
               clear -Hnd Hs Hs0 Hnew Hnew0. induction (streams sa) as [|a l IHl]; [destruct Hs|].
               cbn [map] in Hnd. inversion Hnd as [|? ? Ha Hl]; subst.
               destruct Hs as [->|Hs]; destruct Hs0 as [->|Hs0]; try reflexivity.
               + exfalso. apply Ha. apply in_map_iff. exists s0. split; [congruence|exact Hs0].
               + exfalso. apply Ha. apply in_map_iff. exists s. split; [congruence|exact Hs].
               + apply IHl; assumption. }
           subst s. exact Hs0seen.
      * apply Forall_app. split.
        -- apply Forall_forall. intros e He. rewrite Forall_forall in Hlt. specialize (Hlt e He). lia.
        -- constructor; [|constructor]. unfold triple. cbn [fst snd]. rewrite <- Hsid0.
           destruct HPa as (_ & _ & _ & Hb). rewrite Forall_forall in Hb. exact (Hb s0 Hs0).
      * intros e s He Hs Heq. apply in_app_or in He. destruct He as [He|[<-|[]]].
        -- destruct (Horigin s Hs) as [Hold|Hnew]; [exact (Hlive e s He Hold Heq)|].
           rewrite Forall_forall in Hlt. specialize (Hlt e He). lia.
        -- unfold triple in *. cbn [fst snd] in *.
           assert (s = s0).
           { destruct HPa as (Hnd & _). clear -Hnd Hs Hs0 Heq Hsid0. rewrite <- Hsid0 in Heq. symmetry in Heq.
             induction (streams sa) as [|a l IHl]; [destruct Hs|].
             cbn [map] in Hnd. inversion Hnd as [|? ? Ha Hl]; subst.
             destruct Hs as [->|Hs]; destruct Hs0 as [->|Hs0']; try reflexivity.
             - exfalso. apply Ha. apply in_map_iff. exists s0. split; [congruence|exact Hs0'].
             - exfalso. apply Ha. apply in_map_iff. exists s. split; [congruence|exact Hs].
             - apply IHl; assumption. }
           subst s. split; [rewrite Hty0; symmetry; exact Hs0t|symmetry; exact Hkey0].
      * intros e1 e2 H1 H2 Heq. apply in_app_or in H1. apply in_app_or in H2.
        destruct H1 as [H1|[<-|[]]]; destruct H2 as [H2|[<-|[]]].
        -- exact (Hfun e1 e2 H1 H2 Heq).
        -- (* e1 old, e2 the new emission through live stream s0 *)
           unfold triple in *. cbn [fst snd] in *.
           destruct (Horigin s0 Hs0) as [Hold|Hnew].
           ++ destruct (Hlive e1 s0 H1 Hold ltac:(congruence)) as [Ha Hb].
              destruct e1 as [[a b] c]. cbn [fst snd] in *. congruence.
           ++ rewrite Forall_forall in Hlt. specialize (Hlt e1 H1). lia.
        -- unfold triple in *. cbn [fst snd] in *.
           destruct (Horigin s0 Hs0) as [Hold|Hnew].
           ++ destruct (Hlive e2 s0 H2 Hold ltac:(congruence)) as [Ha Hb].
              destruct e2 as [[a b] c]. cbn [fst snd] in *. congruence.
           ++ rewrite Forall_forall in Hlt. specialize (Hlt e2 H2). lia.
        -- reflexivity.
Qed.

(* From a new producer: over any stream history, a schema id denotes one payload type and one schema key. *)
Lemma sid_function ps st1 os :
  consistent_inputs ps -> produce_payloads pinit ps = (st1, os) ->
  forall e1 e2, In e1 (map (fun x => triple (fst x) (snd x)) (combine os ps)) ->
                In e2 (map (fun x => triple (fst x) (snd x)) (combine os ps)) ->
                fst (fst e1) = fst (fst e2) -> e1 = e2.
Proof.
  intros Hc H.
  assert (HI : HInv [] pinit []).
  { split; [apply PInv_init|]. split; [constructor|]. split; [constructor|]. split; intros; contradiction. }
  pose proof (steps_inv ps ps [] pinit [] st1 os Hc ltac:(intros p []) ltac:(auto) HI H) as (_ & _ & _ & _ & Hfun).
  cbn [app] in Hfun. exact Hfun.
Qed.

(* ---- the public API around Produce: reading (and resetting) the statistics is part of a producer's history ----
   Producer.GetAndResetStats zeroes ProducerStats.StreamProducersCreated, a counter incremented where a stream producer
   is created — the same place where Producer.nextSchemaId is consumed.  The schema ids must not depend on it. *)
Inductive call := Batch (ps : list (N * N)) | ResetStats.
Record astate := { core : pstate; created_stat : N }.
Definition ainit : astate := {| core := pinit; created_stat := 0 |}.

(* [from_stat]: the seeded variant — schema ids are allocated from the statistic *)
Definition acall (from_stat : bool) (a : astate) (c : call) : astate * option (N * list (N * N)) :=
  match c with
  | ResetStats => ({| core := core a; created_stat := 0 |}, None)
  | Batch ps =>
      let st := if from_stat
                then {| streams := streams (core a); next_sid := created_stat a; batch_id := batch_id (core a) |}
                else core a in
      let '(st1, o) := produce_batch st ps in
      ({| core := st1; created_stat := created_stat a + (next_sid st1 - next_sid st) |}, Some o)
  end.

Fixpoint arun (from_stat : bool) (a : astate) (h : list call) : astate * list (N * list (N * N)) :=
  match h with
  | [] => (a, [])
  | c :: tl =>
      let '(a1, o) := acall from_stat a c in
      let '(a2, os) := arun from_stat a1 tl in
      (a2, match o with Some x => x :: os | None => os end)
  end.

Fixpoint batches_of (h : list call) : list (list (N * N)) :=
  match h with [] => [] | Batch ps :: tl => ps :: batches_of tl | ResetStats :: tl => batches_of tl end.

(* statistics reads are invisible: for every history of calls the emitted batches (ids, schema ids, types) are those of
   the same history without the reads *)
Lemma resets_invisible_from : forall h a,
  snd (arun false a h) = snd (prun (core a) (batches_of h)) /\ core (fst (arun false a h)) = fst (prun (core a) (batches_of h)).
Proof.
  induction h as [|c tl IH]; intros a; cbn [arun batches_of prun].
  - split; reflexivity.
  - destruct c as [ps|]; cbn [acall batches_of prun].
    + destruct (produce_batch (core a) ps) as [st1 o] eqn:E.
      specialize (IH {| core := st1; created_stat := created_stat a + (next_sid st1 - next_sid (core a)) |}).
      cbn [core] in IH. destruct (arun false _ tl) as [a2 os] eqn:E2. destruct (prun st1 (batches_of tl)) as [s2 os2] eqn:E3.
      cbn [fst snd] in *. destruct IH as [-> ->]. split; reflexivity.
    + specialize (IH {| core := core a; created_stat := 0 |}). cbn [core] in IH.
      destruct (arun false _ tl) as [a2 os] eqn:E2. cbn [fst snd] in *. exact IH.
Qed.

Theorem resets_invisible : forall h, snd (arun false ainit h) = snd (prun pinit (batches_of h)).
Proof. intros h. apply (resets_invisible_from h ainit). Qed.

(* ids allocated from the statistic: after a read the next new stream gets an id that is already in use *)
Example ids_from_statistic_refuted :
  snd (arun true ainit [Batch [(40, 1)]; ResetStats; Batch [(40, 3)]]) = [(0, [(0, 40)]); (1, [(0, 40)])] /\
  snd (arun false ainit [Batch [(40, 1)]; ResetStats; Batch [(40, 3)]]) = [(0, [(0, 40)]); (1, [(1, 40)])].
Proof. split; vm_compute; reflexivity. Qed.

(* ---- a Produce call that fails half-way (the IPC write of some record returns an error) ----
   The records up to the failing one have been handed to their writers (new stream producers were created, schema ids
   consumed, schema messages and dictionary deltas written) but nothing is emitted.  Since fix a8d92c38 every sub-stream is
   closed and forgotten, so that the next batch restarts them under new schema ids; the batch id is not consumed.
   [eats_id]: the seeded variant that takes the batch id before the payload loop. *)
Inductive call2 := Call (c : call) | Failed (ps : list (N * N)).

Definition acall2 (eats_id : bool) (a : astate) (c : call2) : astate * option (N * list (N * N)) :=
  match c with
  | Call c => acall false a c
  | Failed ps =>
      let '(st1, _) := produce_payloads (core a) ps in
      ({| core := {| streams := []; next_sid := next_sid st1;
                     batch_id := if eats_id then batch_id (core a) + 1 else batch_id (core a) |};
          created_stat := created_stat a + (next_sid st1 - next_sid (core a)) |}, None)
  end.

Fixpoint arun2 (eats_id : bool) (a : astate) (h : list call2) : astate * list (N * list (N * N)) :=
  match h with
  | [] => (a, [])
  | c :: tl =>
      let '(a1, o) := acall2 eats_id a c in
      let '(a2, os) := arun2 eats_id a1 tl in
      (a2, match o with Some x => x :: os | None => os end)
  end.

Lemma produce_payloads_batch_id : forall ps st st1 os, produce_payloads st ps = (st1, os) -> batch_id st1 = batch_id st.
Proof.
  induction ps as [|p tl IH]; intros st st1 os H; cbn [produce_payloads] in H.
  - injection H as <- <-. reflexivity.
  - destruct (produce_payload st p) as [s1 o1] eqn:Ep. destruct (produce_payloads s1 tl) as [s2 o2] eqn:Er. injection H as <- <-.
    rewrite (IH _ _ _ Er). destruct p as [ty key]. cbn [produce_payload] in Ep.
    destruct (find_key key (streams st)); injection Ep as <- _; reflexivity.
Qed.

Lemma acall2_batch_id a c a1 o :
  acall2 false a c = (a1, o) ->
  match o with
  | Some x => fst x = batch_id (core a) /\ batch_id (core a1) = batch_id (core a) + 1
  | None => batch_id (core a1) = batch_id (core a)
  end.
Proof.
  destruct c as [[ps|]|ps]; cbn [acall2 acall]; intros H.
  - unfold produce_batch in H. destruct (produce_payloads (core a) ps) as [st1 os] eqn:E. injection H as <- <-.
    cbn [fst core batch_id]. rewrite (produce_payloads_batch_id _ _ _ _ E). split; reflexivity.
  - injection H as <- <-. reflexivity.
  - destruct (produce_payloads (core a) ps) as [st1 os] eqn:E. injection H as <- <-. reflexivity.
Qed.

(* Every history of public calls — batches, statistics reads, failed Produce calls: the ids of the emitted batches count up
   by one from the producer's current id. *)
Theorem emitted_batch_ids_consecutive : forall h a a1 outs,
  arun2 false a h = (a1, outs) -> map fst outs = map (fun i => batch_id (core a) + N.of_nat i) (seq 0 (length outs)).
Proof.
  induction h as [|c tl IH]; intros a a1 outs H; cbn [arun2] in H.
  - injection H as <- <-. reflexivity.
  - destruct (acall2 false a c) as [aa o] eqn:E1. destruct (arun2 false aa tl) as [ab os] eqn:E2. injection H as <- <-.
    pose proof (acall2_batch_id _ _ _ _ E1) as Hid. specialize (IH _ _ _ E2).
    destruct o as [x|].
    + destruct Hid as [Hx Hn]. cbn [map fst length seq]. f_equal; [rewrite Hx; lia|].
      rewrite IH, Hn. rewrite <- seq_shift, map_map. apply map_ext. intros i. lia.
    + rewrite IH, Hid. reflexivity.
Qed.

(* after a failed call no sub-stream is live: whatever comes next opens its sub-streams afresh, under ids never used before *)
Lemma failed_restarts_streams a ps a1 o : acall2 false a (Failed ps) = (a1, o) -> streams (core a1) = [] /\ next_sid (core a) <= next_sid (core a1) /\ o = None.
Proof.
  cbn [acall2]. destruct (produce_payloads (core a) ps) as [st1 os] eqn:E. intros H. injection H as <- <-. cbn [core streams next_sid].
  split; [reflexivity|]. split; [|reflexivity].
  clear -E. revert E. generalize (core a) as st. revert st1 os.
  induction ps as [|p tl IH]; intros st1 os st E; cbn [produce_payloads] in E.
  - injection E as <- <-. lia.
  - destruct (produce_payload st p) as [s1 o1] eqn:Ep. destruct (produce_payloads s1 tl) as [s2 o2] eqn:Er. injection E as <- <-.
    specialize (IH _ _ _ Er). destruct p as [ty key]. cbn [produce_payload] in Ep.
    destruct (find_key key (streams st)); injection Ep as <- _; cbn [next_sid] in *; lia.
Qed.

(* the seeded variant: a failed call consumes a batch id *)
Example failed_call_eats_id_refuted :
  map fst (snd (arun2 true ainit [Call (Batch [(40, 1)]); Failed [(40, 1); (41, 2)]; Call (Batch [(40, 1)])])) = [0; 2] /\
  snd (arun2 false ainit [Call (Batch [(40, 1)]); Failed [(40, 1); (41, 2)]; Call (Batch [(40, 1)])]) = [(0, [(0, 40)]); (1, [(2, 40)])].
Proof. split; vm_compute; reflexivity. Qed.
