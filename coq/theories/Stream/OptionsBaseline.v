(* Stream/OptionsBaseline.v — the public producer options known to this development.  gen/Options.v is regenerated from
   pkg/config on every run; Props/C04.v requires every generated option and ordering variant to be listed here: a new
   option breaks that obligation until it is added (and exercised by the options harness).
   Content = an option that changes how telemetry is encoded (exercised by harness/codec options);
   Plumbing = allocator / observer; Diagnostics = printing of statistics only. *)
From Coq Require Import String List Bool.
Import ListNotations.
Open Scope string_scope.

Inductive oclass := Content | Plumbing | Diagnostics.
Definition options_baseline : list (string * oclass) := [
  ("WithAllocator", Plumbing); ("WithObserver", Plumbing);
  ("WithCompressionRatioStats", Diagnostics); ("WithDumpRecordRows", Diagnostics); ("WithProducerStats", Diagnostics);
  ("WithRecordStats", Diagnostics); ("WithSchemaStats", Diagnostics); ("WithSchemaUpdates", Diagnostics);
  ("WithDictResetThreshold", Content); ("WithNoDictionary", Content); ("WithNoZstd", Content); ("WithZstd", Content);
  ("WithOrderAttrs16By", Content); ("WithOrderAttrs32By", Content); ("WithOrderSpanBy", Content);
  ("WithUint8InitDictIndex", Content); ("WithUint16InitDictIndex", Content); ("WithUint32LinitDictIndex", Content); ("WithUint64InitDictIndex", Content);
  ("WithUint8LimitDictIndex", Content); ("WithUint16LimitDictIndex", Content); ("WithUint32LimitDictIndex", Content); ("WithUint64LimitDictIndex", Content)
].
Definition known_option (o : string) : bool := existsb (fun b => String.eqb (fst b) o) options_baseline.
Definition known_span_orders : list string :=
  [""; "name,start_time"; "name,trace_id"; "name,trace_id,start_time"; "start_time,name,trace_id"; "start_time,trace_id,name"; "trace_id,name"].
Definition known_attrs16_orders : list string := [""; "parent_id,key,value"; "type,key,parent_id,value"; "type,key,value,parent_id"].
Definition known_attrs32_orders : list string := [""; "key,value,parent_id"; "type,key,parent_id,value"; "type,key,value,parent_id"; "type,parent_id,key,value"].
Definition all_in (l known : list string) : bool := forallb (fun x => existsb (String.eqb x) known) l.
