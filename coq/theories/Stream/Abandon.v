(* Stream/Abandon.v — sub-streams staying in step with the producer across abandoned batches (C14, C07).

   Every payload of a batch is the next message of one Arrow IPC sub-stream (schema id): its record batch refers to
   dictionary entries introduced by the dictionary deltas of this and of all earlier messages of the sub-stream.  A reader
   that has applied the first n messages can decode message n+1 only; handed a later message it works on stale dictionaries
   (index out of range, or the wrong strings).  Consumer.Consume walks the payloads in order and returns at the first failing
   one (memory limit, damaged payload): the remaining payloads are never handed to their readers, while the producer's
   sub-streams have moved on.

   Model: per schema id the number of messages the producer has emitted and the number the consumer's reader has applied,
   plus the failure mark the `fix:` commit added.  A batch is a list of (schema id, does the library fail on this payload).
   Proved for every history and every failure pattern: with the marks no payload is ever decoded out of step; without them
   (the code before) it can be — the panic the memory-limit run exhibited. *)
From Verif Require Import Base.ListX.

Record st := { psent : N -> N; applied : N -> N; failed : N -> bool }.
Definition st0 : st := {| psent := fun _ => 0; applied := fun _ => 0; failed := fun _ => false |}.

Definition upd {A} (f : N -> A) (k : N) (v : A) : N -> A := fun j => if N.eqb j k then v else f j.

Inductive outcome := Decoded (in_step : bool) | Refused | Unread.

(* one payload; [reading] = Consume has not returned yet for this batch *)
Definition step (fixed : bool) (s : st) (reading : bool) (p : N * bool) : st * bool * outcome :=
  let '(sid, lib_fails) := p in
  let n := psent s sid + 1 in                                   (* the producer emits message n of this sub-stream *)
  let s1 := {| psent := upd (psent s) sid n; applied := applied s; failed := failed s |} in
  let mark := {| psent := psent s1; applied := applied s1; failed := if fixed then upd (failed s1) sid true else failed s1 |} in
  if reading then
    if fixed && failed s sid then (mark, false, Refused)        (* a marked sub-stream refuses, the batch is abandoned *)
    else if lib_fails then (mark, false, Refused)                (* memory limit / damaged payload: Consume returns here *)
    else ({| psent := psent s1; applied := upd (applied s1) sid n; failed := failed s1 |}, true,
          Decoded (N.eqb (applied s sid + 1) n))
  else (mark, false, Unread).                                    (* the rest of an abandoned batch is never read *)

Fixpoint batch (fixed : bool) (s : st) (reading : bool) (ps : list (N * bool)) : st * list outcome :=
  match ps with
  | [] => (s, [])
  | p :: tl => let '(s1, r1, o) := step fixed s reading p in let '(s2, os) := batch fixed s1 r1 tl in (s2, o :: os)
  end.

Fixpoint history (fixed : bool) (s : st) (h : list (list (N * bool))) : list (list outcome) :=
  match h with
  | [] => []
  | ps :: tl => let '(s1, os) := batch fixed s true ps in os :: history fixed s1 tl
  end.

(* every unmarked sub-stream's reader has applied exactly what the producer has emitted on it *)
Definition in_sync (s : st) : Prop := forall sid, failed s sid = false -> applied s sid = psent s sid.

Lemma upd_same {A} (f : N -> A) k v : upd f k v k = v.
Proof. unfold upd. rewrite N.eqb_refl. reflexivity. Qed.
Lemma upd_other {A} (f : N -> A) k v j : j <> k -> upd f k v j = f j.
Proof. intros H. unfold upd. destruct (N.eqb j k) eqn:E; [apply N.eqb_eq in E; contradiction|reflexivity]. Qed.

Lemma step_fixed s reading p s1 r1 o :
  in_sync s -> step true s reading p = (s1, r1, o) -> in_sync s1 /\ o <> Decoded false.
Proof.
  intros Hs. destruct p as [sid lf]. unfold step. cbn [andb].
  destruct reading.
  - destruct (failed s sid) eqn:Ef.
    + intros H. injection H as <- _ <-. split; [|discriminate]. intros k Hk. cbn [failed applied psent] in *. unfold upd in *.
      destruct (N.eqb k sid); [discriminate|]. apply Hs. exact Hk.
    + destruct lf.
      * intros H. injection H as <- _ <-. split; [|discriminate]. intros k Hk. cbn [failed applied psent] in *. unfold upd in *.
        destruct (N.eqb k sid); [discriminate|]. apply Hs. exact Hk.
      * intros H. injection H as <- _ <-. split.
        -- intros k Hk. cbn [failed applied psent] in *. unfold upd in *.
           destruct (N.eqb k sid); [reflexivity|]. apply Hs. exact Hk.
        -- rewrite (Hs sid Ef), N.eqb_refl. discriminate.
  - intros H. injection H as <- _ <-. split; [|discriminate]. intros k Hk. cbn [failed applied psent] in *. unfold upd in *.
    destruct (N.eqb k sid); [discriminate|]. apply Hs. exact Hk.
Qed.

Lemma batch_fixed : forall ps s reading s1 os,
  in_sync s -> batch true s reading ps = (s1, os) -> in_sync s1 /\ Forall (fun o => o <> Decoded false) os.
Proof.
  induction ps as [|p tl IH]; intros s reading s1 os Hs H; cbn [batch] in H.
  - injection H as <- <-. split; [exact Hs|constructor].
  - destruct (step true s reading p) as [[sa ra] o] eqn:E1. destruct (batch true sa ra tl) as [sb os2] eqn:E2.
    injection H as <- <-. destruct (step_fixed _ _ _ _ _ _ Hs E1) as [Ha Ho].
    destruct (IH _ _ _ _ Ha E2) as [Hb Hos]. split; [exact Hb|constructor; assumption].
Qed.

(* every history of batches, every failure pattern: with the failure marks nothing is ever decoded out of step *)
Theorem never_out_of_step : forall h s, in_sync s ->
  Forall (Forall (fun o => o <> Decoded false)) (history true s h).
Proof.
  induction h as [|ps tl IH]; intros s Hs; cbn [history]; [constructor|].
  destruct (batch true s true ps) as [s1 os] eqn:E. destruct (batch_fixed _ _ _ _ _ Hs E) as [H1 H2].
  constructor; [exact H2|apply IH; exact H1].
Qed.

Lemma in_sync_st0 : in_sync st0.
Proof. intros sid _. reflexivity. Qed.

(* the code before the fix: batch 1 decodes, batch 2 is abandoned at its first payload (sub-stream 1: memory limit), its
   second payload (sub-stream 2) is never read; in batch 3 a new schema id restarts sub-stream 1 (id 3) and sub-stream 2 is
   decoded out of step *)
Example legacy_out_of_step :
  history false st0 [[(1, false); (2, false)]; [(1, true); (2, false)]; [(3, false); (2, false)]]
  = [[Decoded true; Decoded true]; [Refused; Unread]; [Decoded true; Decoded false]] /\
  history true st0 [[(1, false); (2, false)]; [(1, true); (2, false)]; [(3, false); (2, false)]]
  = [[Decoded true; Decoded true]; [Refused; Unread]; [Decoded true; Refused]].
Proof. split; vm_compute; reflexivity. Qed.
