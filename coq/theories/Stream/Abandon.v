(* Stream/Abandon.v — sub-streams staying in step with the producer across abandoned batches (C14, C07).

   Every payload of a batch is the next message of one Arrow IPC sub-stream (schema id): its record batch refers to
   dictionary entries introduced by the dictionary deltas of this and of all earlier messages of the sub-stream.  A reader
   that has applied the first n messages can decode message n+1 only; handed a later message it works on stale dictionaries
   (index out of range, or the wrong strings).  Consumer.Consume walks the payloads in order and returns at the first failing
   one (memory limit, damaged payload): the remaining payloads are never handed to their readers, while the producer's
   sub-streams have moved on.

   Model: per schema id the number of messages the producer has emitted and the number the consumer's reader has applied,
   plus the failure mark the `fix:` commit added.  A batch is a list of (schema id, does the library fail on this payload).
   Proved for every history and every failure pattern: with the marks no payload is ever decoded out of step; without them
   (the code before) it can be — the panic the memory-limit run exhibited. *)
From Verif Require Import Base.ListX.

Record st := { psent : N -> N; applied : N -> N; failed : N -> bool }.
Definition st0 : st := {| psent := fun _ => 0; applied := fun _ => 0; failed := fun _ => false |}.

Definition upd {A} (f : N -> A) (k : N) (v : A) : N -> A := fun j => if N.eqb j k then v else f j.

Inductive outcome := Decoded (in_step : bool) | Refused | Unread.

(* one payload; [reading] = Consume has not returned yet for this batch *)
Definition step (fixed : bool) (s : st) (reading : bool) (p : N * bool) : st * bool * outcome :=
  let '(sid, lib_fails) := p in
  let n := psent s sid + 1 in                                   (* the producer emits message n of this sub-stream *)
  let s1 := {| psent := upd (psent s) sid n; applied := applied s; failed := failed s |} in
  let mark := {| psent := psent s1; applied := applied s1; failed := if fixed then upd (failed s1) sid true else failed s1 |} in
  if reading then
    if fixed && failed s sid then (mark, false, Refused)        (* a marked sub-stream refuses, the batch is abandoned *)
    else if lib_fails then (mark, false, Refused)                (* memory limit / damaged payload: Consume returns here *)
    else ({| psent := psent s1; applied := upd (applied s1) sid n; failed := failed s1 |}, true,
          Decoded (N.eqb (applied s sid + 1) n))
  else (mark, false, Unread).                                    (* the rest of an abandoned batch is never read *)

Fixpoint batch (fixed : bool) (s : st) (reading : bool) (ps : list (N * bool)) : st * list outcome :=
  match ps with
  | [] => (s, [])
  | p :: tl => let '(s1, r1, o) := step fixed s reading p in let '(s2, os) := batch fixed s1 r1 tl in (s2, o :: os)
  end.

Fixpoint history (fixed : bool) (s : st) (h : list (list (N * bool))) : list (list outcome) :=
  match h with
  | [] => []
  | ps :: tl => let '(s1, os) := batch fixed s true ps in os :: history fixed s1 tl
  end.

(* every unmarked sub-stream's reader has applied exactly what the producer has emitted on it *)
Definition in_sync (s : st) : Prop := forall sid, failed s sid = false -> applied s sid = psent s sid.

Lemma upd_same {A} (f : N -> A) k v : upd f k v k = v.
Proof. unfold upd. rewrite N.eqb_refl. reflexivity. Qed.
Lemma upd_other {A} (f : N -> A) k v j : j <> k -> upd f k v j = f j.
Proof. intros H. unfold upd. destruct (N.eqb j k) eqn:E; [apply N.eqb_eq in E; contradiction|reflexivity]. Qed.

Lemma step_fixed s reading p s1 r1 o :
  in_sync s -> step true s reading p = (s1, r1, o) -> in_sync s1 /\ o <> Decoded false.
Proof.
  intros Hs. destruct p as [sid lf]. unfold step. cbn [andb].
  destruct reading.
  - destruct (failed s sid) eqn:Ef.
    + intros H. injection H as <- _ <-. split; [|discriminate]. intros k Hk. cbn [failed applied psent] in *. unfold upd in *.
      destruct (N.eqb k sid); [discriminate|]. apply Hs. exact Hk.
    + destruct lf.
      * intros H. injection H as <- _ <-. split; [|discriminate]. intros k Hk. cbn [failed applied psent] in *. unfold upd in *.
        destruct (N.eqb k sid); [discriminate|]. apply Hs. exact Hk.
      * intros H. injection H as <- _ <-. split.
        -- intros k Hk. cbn [failed applied psent] in *. unfold upd in *.
           destruct (N.eqb k sid); [reflexivity|]. apply Hs. exact Hk.
        -- rewrite (Hs sid Ef), N.eqb_refl. discriminate.
  - intros H. injection H as <- _ <-. split; [|discriminate]. intros k Hk. cbn [failed applied psent] in *. unfold upd in *.
    destruct (N.eqb k sid); [discriminate|]. apply Hs. exact Hk.
Qed.

Lemma batch_fixed : forall ps s reading s1 os,
  in_sync s -> batch true s reading ps = (s1, os) -> in_sync s1 /\ Forall (fun o => o <> Decoded false) os.
Proof.
  induction ps as [|p tl IH]; intros s reading s1 os Hs H; cbn [batch] in H.
  - injection H as <- <-. split; [exact Hs|constructor].
  - destruct (step true s reading p) as [[sa ra] o] eqn:E1. destruct (batch true sa ra tl) as [sb os2] eqn:E2.
    injection H as <- <-. destruct (step_fixed _ _ _ _ _ _ Hs E1) as [Ha Ho].
    destruct (IH _ _ _ _ Ha E2) as [Hb Hos]. split; [exact Hb|constructor; assumption].
Qed.

(* every history of batches, every failure pattern: with the failure marks nothing is ever decoded out of step *)
Theorem never_out_of_step : forall h s, in_sync s ->
  Forall (Forall (fun o => o <> Decoded false)) (history true s h).
Proof.
  induction h as [|ps tl IH]; intros s Hs; cbn [history]; [constructor|].
  destruct (batch true s true ps) as [s1 os] eqn:E. destruct (batch_fixed _ _ _ _ _ Hs E) as [H1 H2].
  constructor; [exact H2|apply IH; exact H1].
Qed.

Lemma in_sync_st0 : in_sync st0.
Proof. intros sid _. reflexivity. Qed.

(* the code before the fix: batch 1 decodes, batch 2 is abandoned at its first payload (sub-stream 1: memory limit), its
   second payload (sub-stream 2) is never read; in batch 3 a new schema id restarts sub-stream 1 (id 3) and sub-stream 2 is
   decoded out of step *)
Example legacy_out_of_step :
  history false st0 [[(1, false); (2, false)]; [(1, true); (2, false)]; [(3, false); (2, false)]]
  = [[Decoded true; Decoded true]; [Refused; Unread]; [Decoded true; Decoded false]] /\
  history true st0 [[(1, false); (2, false)]; [(1, true); (2, false)]; [(3, false); (2, false)]]
  = [[Decoded true; Decoded true]; [Refused; Unread]; [Decoded true; Refused]].
Proof. split; vm_compute; reflexivity. Qed.

(* ---- the error a marked sub-stream answers with (C14: a refusal caused by the memory limit stays recognisable) ----
   Consumer.Consume stores, on every sub-stream of the abandoned rest of a batch, the error that made it abandon the batch;
   a later payload of such a sub-stream is refused with the stored error.  [Some r]: the stored / library error, r = it is
   recognisable as the memory-limit error (errors.Is(err, ErrConsumerMemoryLimit)).  [keep_chain = false] is the seeded
   variant: the sub-streams behind the failing payload get a re-formatted error that no longer wraps the original. *)
Definition marks := N -> option bool.
Definition no_marks : marks := fun _ => None.
Definition set_mark (m : marks) (k : N) (r : bool) : marks := fun j => if N.eqb j k then Some r else m j.

Inductive mout := MDecoded | MRefused (recognisable : bool) | MUnread.

(* abandon: the failing payload's sub-stream keeps the original error, those behind it get it too (or its re-formatted copy) *)
Fixpoint mark_rest (keep_chain : bool) (m : marks) (r : bool) (ps : list (N * option bool)) : marks :=
  match ps with [] => m | p :: tl => mark_rest keep_chain (set_mark m (fst p) (keep_chain && r)) r tl end.

Fixpoint mbatch (keep_chain : bool) (m : marks) (ps : list (N * option bool)) : marks * list mout :=
  match ps with
  | [] => (m, [])
  | (sid, fails) :: tl =>
      match (match m sid with Some r => Some r | None => fails end) with
      | Some r => (mark_rest keep_chain (set_mark m sid r) r tl, MRefused r :: map (fun _ => MUnread) tl)
      | None => let '(m1, os) := mbatch keep_chain m tl in (m1, MDecoded :: os)
      end
  end.

Fixpoint mhistory (keep_chain : bool) (m : marks) (h : list (list (N * option bool))) : list (list mout) :=
  match h with [] => [] | ps :: tl => let '(m1, os) := mbatch keep_chain m ps in os :: mhistory keep_chain m1 tl end.

Definition only_limit (m : marks) : Prop := forall k r, m k = Some r -> r = true.
Definition limit_failures (ps : list (N * option bool)) : Prop := Forall (fun p => snd p = None \/ snd p = Some true) ps.
Definition recognisable (o : mout) : Prop := match o with MRefused r => r = true | _ => True end.

Lemma set_mark_only m k : only_limit m -> only_limit (set_mark m k true).
Proof. intros H j r. unfold set_mark. destruct (N.eqb j k); [intros E; injection E as <-; reflexivity|apply H]. Qed.

Lemma mark_rest_only : forall ps m, only_limit m -> only_limit (mark_rest true m true ps).
Proof. induction ps as [|p tl IH]; intros m H; cbn [mark_rest andb]; [exact H|]. apply IH, set_mark_only, H. Qed.

Lemma mbatch_only : forall ps m m1 os,
  only_limit m -> limit_failures ps -> mbatch true m ps = (m1, os) -> only_limit m1 /\ Forall recognisable os.
Proof.
  induction ps as [|[sid fails] tl IH]; intros m m1 os Hm Hf H; cbn [mbatch] in H.
  - injection H as <- <-. split; [exact Hm|constructor].
  - inversion Hf as [|p tl' Hp Htl]; subst p tl'. cbn [snd] in Hp.
    destruct (match m sid with Some r => Some r | None => fails end) as [r|] eqn:E.
    + assert (Hr : r = true).
      { destruct (m sid) as [r0|] eqn:Em; [injection E as <-; exact (Hm sid r0 Em)|].
        destruct Hp as [Hp|Hp]; rewrite Hp in E; [discriminate|injection E as <-; reflexivity]. }
      subst r. injection H as <- <-. split; [apply mark_rest_only, set_mark_only, Hm|].
      constructor; [reflexivity|]. apply Forall_forall. intros o Ho. apply in_map_iff in Ho. destruct Ho as (_ & <- & _). exact I.
    + destruct (mbatch true m tl) as [ma osa] eqn:E2. injection H as <- <-.
      destruct (IH m ma osa Hm Htl E2) as [H1 H2]. split; [exact H1|constructor; [exact I|exact H2]].
Qed.

(* every history in which the library only ever fails for the memory limit: every refusal, at any later point of the stream,
   is recognisable as the memory-limit error *)
Theorem refusals_stay_recognisable : forall h m,
  only_limit m -> Forall limit_failures h -> Forall (Forall recognisable) (mhistory true m h).
Proof.
  induction h as [|ps tl IH]; intros m Hm Hh; cbn [mhistory]; [constructor|].
  inversion Hh as [|x y Hps Htl]; subst x y.
  destruct (mbatch true m ps) as [m1 os] eqn:E. destruct (mbatch_only ps m m1 os Hm Hps E) as [H1 H2].
  constructor; [exact H2|apply IH; assumption].
Qed.

Lemma no_marks_only : only_limit no_marks.
Proof. intros k r H. discriminate. Qed.

(* the seeded variant: batch 2 is refused for the limit at its first payload (sub-stream 1); batch 3 restarts that payload
   type under a new schema id (3) and is then refused on sub-stream 2 with an error nobody can recognise *)
Example reformatted_mark_refuted :
  let h := [[(1, None); (2, None)]; [(1, Some true); (2, None)]; [(3, None); (2, None)]] in
  mhistory false no_marks h = [[MDecoded; MDecoded]; [MRefused true; MUnread]; [MDecoded; MRefused false]] /\
  mhistory true no_marks h = [[MDecoded; MDecoded]; [MRefused true; MUnread]; [MDecoded; MRefused true]].
Proof. split; vm_compute; reflexivity. Qed.
