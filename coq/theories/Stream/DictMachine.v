(* Stream/DictMachine.v — model of the adaptive dictionary machinery:
   transform.DictionaryField (dictionary.go: initIndices, AddTotal, SetCardinality/updateIndexType,
   RevertCounters), config.NewDictionary / NewDictionaryFrom, and the record-level loop of
   builder.RecordBuilderExt.NewRecord / detectDictionaryOverflow / UpdateSchema together with the
   retry loop of arrow_record.recordBuilder (budget: more than 5 ErrSchemaNotUpToDate => panic).

   A dictionary column's builder memoises the distinct values appended since the builder was
   created; every schema update recreates ALL builders of the record (memo emptied).
   The reset-ratio test `float64(card)/float64(total) < ResetThreshold` is modelled with exact
   rationals (threshold = thr_num/thr_den); for counts below 2^53 the two agree unless card/total
   is within one ulp of the threshold, which needs total > 10^10. *)
From Verif Require Import Base.ListX.

Definition all_max : list N := [255; 65535; 4294967295; 18446744073709551615].

Definition find_index (c : N) : nat :=
  if c <=? 255 then 0%nat else if c <=? 65535 then 1%nat else if c <=? 4294967295 then 2%nat else 3%nat.

Record dcfg := { min_card : N; max_card : N; thr_num : N; thr_den : N }.

(* config.NewDictionary(limit, thr) then NewDictionaryFrom(255 | 65535, proto) for "#dictionary"="8"|"16" *)
Definition cfg_of_limit (lim initial : N) (tn td : N) : dcfg :=
  {| min_card := N.min initial lim; max_card := lim; thr_num := tn; thr_den := td |}.

Record dict := { widths : list N; cur : nat; cum : N; prev_cum : N; card : N }.
(* widths = [] : indexTypes == nil (dictionary disabled or overflowed: the column is sent plain) *)

Definition slice (lo hi : nat) (l : list N) : list N := firstn (hi - lo + 1) (skipn lo l).

Definition init_widths (c : dcfg) : list N :=
  if max_card c =? 0 then [] else slice (find_index (min_card c)) (find_index (max_card c)) all_max.

Definition dinit (c : dcfg) : dict := {| widths := init_widths c; cur := 0; cum := 0; prev_cum := 0; card := 0 |}.

Definition add_total (d : dict) (n : N) : dict :=
  {| widths := widths d; cur := cur d; cum := cum d + n; prev_cum := cum d; card := card d |}.
Definition revert (d : dict) : dict :=
  {| widths := widths d; cur := cur d; cum := prev_cum d; prev_cum := prev_cum d; card := card d |}.

Inductive devent := DNone | DUpgrade | DReset | DOverflow.

(* for t.currentIndex < len(t.indexTypes) && t.cardinality > t.indexMaxCard[t.currentIndex] { t.currentIndex++ } *)
Fixpoint advance (ws : list N) (k : nat) (c : N) (fuel : nat) : nat :=
  match fuel with
  | O => k
  | S f => match nth_error ws k with
           | Some m => if m <? c then advance ws (S k) c f else k
           | None => k
           end
  end.

Definition ratio_lt (c total : N) (cfg : dcfg) : bool :=
  if total =? 0 then false (* x/0 = +Inf or NaN: never < threshold *) else c * thr_den cfg <? thr_num cfg * total.

Definition set_card (cfg : dcfg) (d : dict) (c : N) : dict * devent :=
  match widths d with
  | [] => ({| widths := []; cur := cur d; cum := cum d; prev_cum := prev_cum d; card := c |}, DNone)
  | ws =>
      let k := advance ws (cur d) c (length ws) in
      if (length ws <=? k)%nat then
        if ratio_lt c (cum d) cfg
        then ({| widths := ws; cur := (length ws - 1)%nat; cum := 0; prev_cum := prev_cum d; card := c |}, DReset)
        else ({| widths := []; cur := 0; cum := cum d; prev_cum := prev_cum d; card := c |}, DOverflow)
      else if Nat.eqb k (cur d) then ({| widths := ws; cur := k; cum := cum d; prev_cum := prev_cum d; card := c |}, DNone)
      else ({| widths := ws; cur := k; cum := cum d; prev_cum := prev_cum d; card := c |}, DUpgrade)
  end.

(* ------------------------------------------------------------- record level *)
Record col := { c_cfg : dcfg; c_dict : dict; c_memo : list N }.

Definition col_init (cfg : dcfg) : col := {| c_cfg := cfg; c_dict := dinit cfg; c_memo := [] |}.

(* what a batch puts into one column: number of rows (nulls included) and the non-null values *)
Definition colbatch := (N * list N)%type.

(* what the transmitted record shows for one column: None = plain column, Some (index cap, dictionary length) *)
Definition colview := option (N * N).

Definition col_attempt (c : col) (b : colbatch) : col * devent * colview :=
  match widths (c_dict c) with
  | [] => (c, DNone, None)
  | _ =>
      let memo' := uniq (c_memo c ++ snd b) in
      let d1 := add_total (c_dict c) (fst b) in
      let '(d2, e) := set_card (c_cfg c) d1 (lenN memo') in
      ({| c_cfg := c_cfg c; c_dict := d2; c_memo := memo' |}, e,
       match widths d2 with [] => None | ws => Some (nth (cur d2) ws 0, lenN memo') end)
  end.

Definition col_update (c : col) : col :=   (* UpdateSchema: RevertCounters + new builders *)
  {| c_cfg := c_cfg c; c_dict := revert (c_dict c); c_memo := [] |}.

Fixpoint attempt_cols (cs : list col) (bs : list colbatch) : list col * list devent * list colview :=
  match cs, bs with
  | c :: ct, b :: bt =>
      let '(c', e, v) := col_attempt c b in
      let '(cs', es, vs) := attempt_cols ct bt in (c' :: cs', e :: es, v :: vs)
  | _, _ => ([], [], [])
  end.

Definition is_none (e : devent) : bool := match e with DNone => true | _ => false end.

Inductive outcome :=
| Sent (views : list colview) (attempts : nat)
| PanicTooMany.

(* recordBuilder: rebuild until NewRecord succeeds; the 6th ErrSchemaNotUpToDate panics.
   `pending` = a schema update already requested before NewRecord (new optional field, metadata). *)
Fixpoint produce (fuel : nat) (pending : bool) (cs : list col) (bs : list colbatch) (n : nat)
  : list col * outcome * list (list devent) :=
  match fuel with
  | O => (cs, PanicTooMany, [])
  | S f =>
      if pending then
        let '(cs', o, log) := produce f false (map col_update cs) bs (S n) in (cs', o, [] :: log)
      else
        let '(cs1, es, vs) := attempt_cols cs bs in
        if forallb is_none es then (cs1, Sent vs (S n), [es])
        else let '(cs', o, log) := produce f false (map col_update cs1) bs (S n) in (cs', o, es :: log)
  end.

Definition budget : nat := 6.

(* a history of batches on one record; a batch may come with a pending external update *)
Fixpoint run_hist (cs : list col) (h : list (bool * list colbatch)) : list outcome :=
  match h with
  | [] => []
  | (pend, bs) :: tl =>
      let '(cs', o, _) := produce budget pend cs bs 0 in
      o :: match o with PanicTooMany => [] | _ => run_hist cs' tl end
  end.

(* ------------------------------------------------------------- theorems *)

Definition cap (c : dcfg) : N := nth (find_index (max_card c)) all_max 0.

Definition WF (c : col) : Prop :=
  min_card (c_cfg c) <= max_card (c_cfg c) /\
  (widths (c_dict c) = [] \/ (widths (c_dict c) = init_widths (c_cfg c) /\ (cur (c_dict c) < length (widths (c_dict c)))%nat)).

Lemma find_index_lt c : (find_index c < 4)%nat.
Proof. unfold find_index. destruct (c <=? 255), (c <=? 65535), (c <=? 4294967295); lia. Qed.

Lemma slice_le_cap : forall lo hi, (lo <= hi)%nat -> (hi < 4)%nat ->
  Forall (fun w => w <= nth hi all_max 0) (slice lo hi all_max).
Proof.
  intros lo hi Hlo Hhi.
  destruct hi as [|[|[|[|hi]]]]; [| | | |exfalso; lia].
  all: destruct lo as [|[|[|[|lo]]]]; try (exfalso; lia).
  all: cbv [slice all_max skipn firstn Nat.sub Nat.add nth].
  all: repeat (constructor; [discriminate|]); constructor.
Qed.

Lemma find_index_mono a b : a <= b -> (find_index a <= find_index b)%nat.
Proof.
  intros H. unfold find_index.
  destruct (a <=? 255) eqn:A1; destruct (b <=? 255) eqn:B1; try lia;
  destruct (a <=? 65535) eqn:A2; destruct (b <=? 65535) eqn:B2; try lia;
  destruct (a <=? 4294967295) eqn:A3; destruct (b <=? 4294967295) eqn:B3; lia.
Qed.

Lemma init_widths_le_cap c : min_card c <= max_card c -> Forall (fun w => w <= cap c) (init_widths c).
Proof.
  intros Hm. unfold init_widths, cap. destruct (max_card c =? 0); [constructor|].
  apply slice_le_cap; [apply find_index_mono; exact Hm|apply find_index_lt].
Qed.

Lemma init_widths_nodict c : max_card c = 0 -> init_widths c = [].
Proof. intros H. unfold init_widths. rewrite H. reflexivity. Qed.

Lemma advance_ge ws c : forall fuel k, (k <= advance ws k c fuel)%nat.
Proof.
  induction fuel as [|f IH]; intros k; cbn [advance]; [lia|].
  destruct (nth_error ws k) as [m|]; [|lia]. destruct (m <? c); [|lia]. specialize (IH (S k)). lia.
Qed.

Lemma advance_stop ws c : forall fuel k m,
  advance ws k c fuel = k -> nth_error ws k = Some m -> (0 < fuel)%nat -> c <= m.
Proof.
  intros [|f] k m H Hn Hf; [lia|]. cbn [advance] in H. rewrite Hn in H.
  destruct (m <? c) eqn:E; [|apply N.ltb_ge in E; exact E].
  pose proof (advance_ge ws c f (S k)). lia.
Qed.

(* the central fact: if SetCardinality raises no event on a column that keeps its dictionary,
   the cardinality fits the current index width *)
Lemma set_card_none cfg d c d2 :
  set_card cfg d c = (d2, DNone) -> widths d2 <> [] ->
  (cur d < length (widths d))%nat ->
  widths d2 = widths d /\ cur d2 = cur d /\ c <= nth (cur d2) (widths d2) 0.
Proof.
  unfold set_card. destruct (widths d) as [|w ws] eqn:Ew.
  - intros H Hne. injection H as <-. cbn in Hne. congruence.
  - intros H Hne Hcur.
    set (k := advance (w :: ws) (cur d) c (length (w :: ws))) in *.
    destruct (length (w :: ws) <=? k)%nat eqn:E1.
    + destruct (ratio_lt c (cum d) cfg); discriminate.
    + destruct (Nat.eqb k (cur d)) eqn:E2; [|discriminate].
      injection H as <-. cbn [widths cur]. apply Nat.eqb_eq in E2.
      split; [reflexivity|]. split; [exact E2|].
      destruct (nth_error (w :: ws) (cur d)) as [m|] eqn:En.
      * rewrite E2. rewrite (nth_error_nth _ _ 0 En).
        apply (advance_stop (w :: ws) c (length (w :: ws)) (cur d) m); [exact E2|exact En|cbn; lia].
      * apply nth_error_None in En. lia.
Qed.

Lemma set_card_wf cfg d c d2 e :
  set_card cfg d c = (d2, e) ->
  (widths d = [] \/ (cur d < length (widths d))%nat) ->
  widths d2 = [] \/ (widths d2 = widths d /\ (cur d2 < length (widths d2))%nat).
Proof.
  unfold set_card. destruct (widths d) as [|w ws] eqn:Ew.
  - intros H _. injection H as <- <-. left. reflexivity.
  - intros H [Hc|Hc]; [discriminate|].
    set (k := advance (w :: ws) (cur d) c (length (w :: ws))) in *.
    destruct (length (w :: ws) <=? k)%nat eqn:E1.
    + destruct (ratio_lt c (cum d) cfg); injection H as <- <-; cbn [widths cur]; [right|left; reflexivity].
      split; [reflexivity|cbn [length]; lia].
    + apply Nat.leb_gt in E1.
      destruct (Nat.eqb k (cur d)); injection H as <- <-; cbn [widths cur]; right; split; try reflexivity; exact E1.
Qed.

Lemma col_attempt_spec c b c' e v :
  WF c -> col_attempt c b = (c', e, v) ->
  WF c' /\ c_cfg c' = c_cfg c /\
  (e = DNone -> forall w n, v = Some (w, n) -> n <= w /\ w <= cap (c_cfg c) /\ n = lenN (c_memo c')) /\
  (max_card (c_cfg c) = 0 -> v = None).
Proof.
  intros [Hmm HW] H. unfold col_attempt in H.
  destruct (widths (c_dict c)) as [|w0 ws0] eqn:Ew.
  - injection H as <- <- <-. split; [split; [exact Hmm|left; exact Ew]|]. split; [reflexivity|]. split; [intros _ w n Hv; discriminate|reflexivity].
  - destruct (set_card (c_cfg c) (add_total (c_dict c) (fst b)) (lenN (uniq (c_memo c ++ snd b)))) as [d2 e2] eqn:Es.
    injection H as <- <- <-. cbn [c_cfg c_dict c_memo]. rewrite <- Ew in HW.
    destruct HW as [HW|[HW1 HW2]]; [congruence|].
    assert (Hw1 : widths (add_total (c_dict c) (fst b)) = widths (c_dict c)) by reflexivity.
    assert (Hc1 : cur (add_total (c_dict c) (fst b)) = cur (c_dict c)) by reflexivity.
    pose proof (set_card_wf _ _ _ _ _ Es) as Hwf. rewrite Hw1, Hc1 in Hwf. specialize (Hwf (or_intror HW2)).
    split; [|split; [reflexivity|split]].
    + unfold WF. cbn [c_dict c_cfg]. split; [exact Hmm|]. destruct Hwf as [Hwf|[Hwf1 Hwf2]]; [left; exact Hwf|right]. split; [congruence|exact Hwf2].
    + intros -> w n Hv. destruct (widths d2) as [|w2 ws2] eqn:Ew2; [discriminate|]. injection Hv as <- <-.
      pose proof (set_card_none _ _ _ _ Es) as Hn. rewrite Ew2, Hw1, Hc1 in Hn.
      specialize (Hn ltac:(discriminate) HW2). destruct Hn as (Hn1 & Hn2 & Hn3).
      split; [exact Hn3|]. split; [|reflexivity].
      pose proof (init_widths_le_cap (c_cfg c) Hmm) as Hcap. rewrite <- HW1, <- Hn1 in Hcap.
      rewrite Forall_forall in Hcap. change (nth (cur d2) (w2 :: ws2) 0 <= cap (c_cfg c)). apply Hcap. apply nth_In. rewrite Hn1, Hn2. exact HW2.
    + intros Hm. rewrite (init_widths_nodict _ Hm) in HW1. congruence.
Qed.

Lemma col_update_wf c : WF c -> WF (col_update c).
Proof. unfold WF, col_update. cbn. tauto. Qed.

Lemma col_init_wf cfg : min_card cfg <= max_card cfg -> WF (col_init cfg).
Proof.
  intros Hm. unfold WF, col_init. cbn. split; [exact Hm|]. destruct (init_widths cfg) eqn:E; [left; reflexivity|right]. split; [reflexivity|cbn; lia].
Qed.

(* what every transmitted record satisfies, column by column *)
Definition view_ok (c : col) (v : colview) : Prop :=
  match v with
  | None => True
  | Some (w, n) => n <= w /\ w <= cap (c_cfg c)
  end /\ (max_card (c_cfg c) = 0 -> v = None).

Lemma attempt_cols_spec : forall cs bs cs' es vs,
  Forall WF cs -> attempt_cols cs bs = (cs', es, vs) ->
  Forall WF cs' /\ map c_cfg cs' = firstn (length cs') (map c_cfg cs) /\
  (forallb is_none es = true -> Forall2 view_ok cs' vs).
Proof.
  induction cs as [|c ct IH]; intros bs cs' es vs HW H; cbn [attempt_cols] in H.
  - injection H as <- <- <-. split; [constructor|]. split; [reflexivity|]. intros _. constructor.
  - destruct bs as [|b bt]; [injection H as <- <- <-; split; [constructor|]; split; [reflexivity|]; intros _; constructor|].
    destruct (col_attempt c b) as [[c1 e1] v1] eqn:E1.
    destruct (attempt_cols ct bt) as [[cs1 es1] vs1] eqn:E2.
    injection H as <- <- <-. inversion HW as [|? ? Hc Hct]; subst.
    apply col_attempt_spec in E1; [|exact Hc]. destruct E1 as (Hw1 & Hcfg & Hv & Hnd).
    apply IH in E2; [|exact Hct]. destruct E2 as (Hws & Hcfgs & Hvs).
    split; [constructor; assumption|]. split; [cbn [map length firstn]; rewrite Hcfg, Hcfgs; reflexivity|].
    cbn [forallb]. intros Hall. apply andb_true_iff in Hall. destruct Hall as [Ha1 Ha2].
    constructor; [|apply Hvs; exact Ha2].
    unfold view_ok. rewrite Hcfg. split; [|exact Hnd].
    destruct v1 as [[w n]|]; [|exact I]. destruct e1; try discriminate.
    destruct (Hv eq_refl w n eq_refl) as (H1 & H2 & _). split; assumption.
Qed.

Lemma map_update_wf cs : Forall WF cs -> Forall WF (map col_update cs).
Proof. intros H. induction H; cbn [map]; constructor; [apply col_update_wf; assumption|assumption]. Qed.

(* C13: whatever the history, the budget, the threshold: a record leaves the producer only with every
   dictionary within its index width, the width within the configured limit, and no dictionary at all
   when dictionaries are disabled *)
Lemma produce_sent_fits : forall fuel pend cs bs n cs' vs k log,
  Forall WF cs -> produce fuel pend cs bs n = (cs', Sent vs k, log) ->
  Forall WF cs' /\ Forall2 view_ok cs' vs.
Proof.
  induction fuel as [|f IH]; intros pend cs bs n cs' vs k log HW H; cbn [produce] in H; [discriminate|].
  destruct pend.
  - destruct (produce f false (map col_update cs) bs (S n)) as [[cs2 o2] log2] eqn:E. injection H as <- -> <-.
    eapply IH; [apply map_update_wf; exact HW|exact E].
  - destruct (attempt_cols cs bs) as [[cs1 es] vs1] eqn:E1.
    pose proof (attempt_cols_spec _ _ _ _ _ HW E1) as (Hw1 & _ & Hv1).
    destruct (forallb is_none es) eqn:Ea.
    + injection H as <- <- <- <-. split; [exact Hw1|apply Hv1; reflexivity].
    + destruct (produce f false (map col_update cs1) bs (S n)) as [[cs2 o2] log2] eqn:E. injection H as <- -> <-.
      eapply IH; [apply map_update_wf; exact Hw1|exact E].
Qed.

(* Termination is NOT guaranteed by the reset rule: one batch with more distinct values than the
   limit and enough repetition resets forever (the recorded C04/C08 finding) *)
Example reset_loop_panics :
  let cfg := cfg_of_limit 255 255 3 10 in
  snd (fst (produce budget false [col_init cfg] [(3000, map N.of_nat (seq 0 300))] 0)) = PanicTooMany.
Proof. vm_compute. reflexivity. Qed.

(* ---- one limit for all columns of a record (pkg/config: LimitIndexSize), over whole histories ---- *)
Definition limit_is (lim : N) (c : col) : Prop := max_card (c_cfg c) = lim.

Definition view_fits (lim : N) (v : colview) : Prop :=
  match v with
  | None => True
  | Some (w, n) => n <= w /\ w <= nth (find_index lim) all_max 0 /\ lim <> 0
  end.

Lemma Forall_firstn {A} (P : A -> Prop) n l : Forall P l -> Forall P (firstn n l).
Proof. revert n. induction l as [|a l IH]; intros [|n] H; cbn [firstn]; try constructor; inversion H; subst; auto. Qed.

Lemma limit_is_cfgs lim cs cs' : map c_cfg cs' = firstn (length cs') (map c_cfg cs) ->
  Forall (limit_is lim) cs -> Forall (limit_is lim) cs'.
Proof.
  intros Hm H.
  assert (H1 : Forall (fun cf => max_card cf = lim) (map c_cfg cs)) by (apply Forall_map; exact H).
  apply (Forall_firstn _ (length cs')) in H1. rewrite <- Hm in H1. apply Forall_map in H1. exact H1.
Qed.

Lemma view_ok_fits lim c v : limit_is lim c -> view_ok c v -> view_fits lim v.
Proof.
  unfold limit_is, view_ok, view_fits, cap. intros Hl [H1 H2]. destruct v as [[w n]|]; [|exact I].
  rewrite Hl in *. destruct H1 as [Ha Hb]. split; [exact Ha|]. split; [exact Hb|].
  intros Hz. specialize (H2 Hz). discriminate.
Qed.

Lemma produce_inv lim : forall fuel pend cs bs n cs' o log,
  Forall WF cs -> Forall (limit_is lim) cs -> produce fuel pend cs bs n = (cs', o, log) ->
  match o with
  | Sent vs _ => Forall WF cs' /\ Forall (limit_is lim) cs' /\ Forall (view_fits lim) vs
  | PanicTooMany => True
  end.
Proof.
  induction fuel as [|f IH]; intros pend cs bs n cs' o log HW HL H; cbn [produce] in H.
  - injection H as <- <- <-. exact I.
  - assert (Hupd : forall l, Forall (limit_is lim) l -> Forall (limit_is lim) (map col_update l)).
    { intros l Hl. induction Hl; cbn [map]; constructor; auto. }
    destruct pend.
    + destruct (produce f false (map col_update cs) bs (S n)) as [[cs2 o2] log2] eqn:E. injection H as <- <- <-.
      eapply IH; [apply map_update_wf; exact HW|apply Hupd; exact HL|exact E].
    + destruct (attempt_cols cs bs) as [[cs1 es] vs1] eqn:E1.
      pose proof (attempt_cols_spec _ _ _ _ _ HW E1) as (Hw1 & Hcf & Hv1).
      pose proof (limit_is_cfgs lim cs cs1 Hcf HL) as HL1.
      destruct (forallb is_none es) eqn:Ea.
      * injection H as <- <- <-. split; [exact Hw1|]. split; [exact HL1|].
        specialize (Hv1 eq_refl). clear -Hv1 HL1. induction Hv1; [constructor|].
        inversion HL1; subst. constructor; [eapply view_ok_fits; eassumption|auto].
      * destruct (produce f false (map col_update cs1) bs (S n)) as [[cs2 o2] log2] eqn:E. injection H as <- <- <-.
        eapply IH; [apply map_update_wf; exact Hw1|apply Hupd; exact HL1|exact E].
Qed.

Definition outcome_fits (lim : N) (o : outcome) : Prop :=
  match o with Sent vs _ => Forall (view_fits lim) vs | PanicTooMany => True end.

Lemma run_hist_fits lim : forall h cs,
  Forall WF cs -> Forall (limit_is lim) cs -> Forall (outcome_fits lim) (run_hist cs h).
Proof.
  induction h as [|[pend bs] tl IH]; intros cs HW HL; cbn [run_hist]; [constructor|].
  destruct (produce budget pend cs bs 0) as [[cs' o] log] eqn:E.
  pose proof (produce_inv lim _ _ _ _ _ _ _ _ HW HL E) as Hp.
  destruct o as [vs k|]; constructor; try exact I.
  - destruct Hp as (_ & _ & Hv). exact Hv.
  - destruct Hp as (Hw' & Hl' & _). apply IH; assumption.
  - constructor.
Qed.

Lemma cols_init_ok lim initials tn td :
  Forall WF (map (fun i => col_init (cfg_of_limit lim i tn td)) initials) /\
  Forall (limit_is lim) (map (fun i => col_init (cfg_of_limit lim i tn td)) initials).
Proof.
  split; apply Forall_map; apply Forall_forall; intros i _.
  - apply col_init_wf. unfold cfg_of_limit. cbn. lia.
  - reflexivity.
Qed.
