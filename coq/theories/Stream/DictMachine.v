(* Stream/DictMachine.v — model of the adaptive dictionary machinery:
   transform.DictionaryField (dictionary.go: initIndices, AddTotal, SetCardinality/updateIndexType,
   RevertCounters), config.NewDictionary / NewDictionaryFrom, and the record-level loop of
   builder.RecordBuilderExt.NewRecord / detectDictionaryOverflow / UpdateSchema together with the
   retry loop of arrow_record.recordBuilder (budget: more than 5 ErrSchemaNotUpToDate => panic).

   A dictionary column's builder memoises the distinct values appended since the builder was
   created; every schema update recreates ALL builders of the record (memo emptied).
   The reset-ratio test `float64(card)/float64(total) < ResetThreshold` is modelled with exact
   rationals (threshold = thr_num/thr_den); for counts below 2^53 the two agree unless card/total
   is within one ulp of the threshold, which needs total > 10^10. *)
From Verif Require Import Base.ListX.

Definition all_max : list N := [255; 65535; 4294967295; 18446744073709551615].

Definition find_index (c : N) : nat :=
  if c <=? 255 then 0%nat else if c <=? 65535 then 1%nat else if c <=? 4294967295 then 2%nat else 3%nat.

Record dcfg := { min_card : N; max_card : N; thr_num : N; thr_den : N }.

(* config.NewDictionary(limit, thr) then NewDictionaryFrom(255 | 65535, proto) for "#dictionary"="8"|"16" *)
Definition cfg_of_limit (lim initial : N) (tn td : N) : dcfg :=
  {| min_card := N.min initial lim; max_card := lim; thr_num := tn; thr_den := td |}.

Record dict := { widths : list N; cur : nat; cum : N; prev_cum : N; card : N; just_reset : bool }.
(* just_reset: the last cardinality update reset the dictionary (added by the fix of the reset loop) *)
(* widths = [] : indexTypes == nil (dictionary disabled or overflowed: the column is sent plain) *)

Definition slice (lo hi : nat) (l : list N) : list N := firstn (hi - lo + 1) (skipn lo l).

Definition init_widths (c : dcfg) : list N :=
  if max_card c =? 0 then [] else slice (find_index (min_card c)) (find_index (max_card c)) all_max.

Definition dinit (c : dcfg) : dict := {| widths := init_widths c; cur := 0; cum := 0; prev_cum := 0; card := 0; just_reset := false |}.

Definition add_total (d : dict) (n : N) : dict :=
  {| widths := widths d; cur := cur d; cum := cum d + n; prev_cum := cum d; card := card d; just_reset := just_reset d |}.
Definition revert (d : dict) : dict :=
  {| widths := widths d; cur := cur d; cum := prev_cum d; prev_cum := prev_cum d; card := card d; just_reset := just_reset d |}.

Inductive devent := DNone | DUpgrade | DReset | DOverflow.

(* for t.currentIndex < len(t.indexTypes) && t.cardinality > t.indexMaxCard[t.currentIndex] { t.currentIndex++ } *)
Fixpoint advance (ws : list N) (k : nat) (c : N) (fuel : nat) : nat :=
  match fuel with
  | O => k
  | S f => match nth_error ws k with
           | Some m => if m <? c then advance ws (S k) c f else k
           | None => k
           end
  end.

Definition ratio_lt (c total : N) (cfg : dcfg) : bool :=
  if total =? 0 then false (* x/0 = +Inf or NaN: never < threshold *) else c * thr_den cfg <? thr_num cfg * total.

Definition set_card (cfg : dcfg) (d : dict) (c : N) : dict * devent :=
  match widths d with
  | [] => ({| widths := []; cur := cur d; cum := cum d; prev_cum := prev_cum d; card := c; just_reset := just_reset d |}, DNone)
  | ws =>
      let k := advance ws (cur d) c (length ws) in
      if (length ws <=? k)%nat then
        if ratio_lt c (cum d) cfg && negb (just_reset d)
        then ({| widths := ws; cur := (length ws - 1)%nat; cum := 0; prev_cum := prev_cum d; card := c; just_reset := true |}, DReset)
        else ({| widths := []; cur := 0; cum := cum d; prev_cum := prev_cum d; card := c; just_reset := just_reset d |}, DOverflow)
      else if Nat.eqb k (cur d) then ({| widths := ws; cur := k; cum := cum d; prev_cum := prev_cum d; card := c; just_reset := false |}, DNone)
      else ({| widths := ws; cur := k; cum := cum d; prev_cum := prev_cum d; card := c; just_reset := false |}, DUpgrade)
  end.

(* ------------------------------------------------------------- record level *)
Record col := { c_cfg : dcfg; c_dict : dict; c_memo : list N }.

Definition col_init (cfg : dcfg) : col := {| c_cfg := cfg; c_dict := dinit cfg; c_memo := [] |}.

(* what a batch puts into one column: number of rows (nulls included) and the non-null values *)
Definition colbatch := (N * list N)%type.

(* what the transmitted record shows for one column: None = plain column, Some (index cap, dictionary length) *)
Definition colview := option (N * N).

Definition col_attempt (c : col) (b : colbatch) : col * devent * colview :=
  match widths (c_dict c) with
  | [] => (c, DNone, None)
  | _ =>
      let memo' := uniq (c_memo c ++ snd b) in
      let d1 := add_total (c_dict c) (fst b) in
      let '(d2, e) := set_card (c_cfg c) d1 (lenN memo') in
      ({| c_cfg := c_cfg c; c_dict := d2; c_memo := memo' |}, e,
       match widths d2 with [] => None | ws => Some (nth (cur d2) ws 0, lenN memo') end)
  end.

Definition col_update (c : col) : col :=   (* UpdateSchema: RevertCounters + new builders *)
  {| c_cfg := c_cfg c; c_dict := revert (c_dict c); c_memo := [] |}.

Fixpoint attempt_cols (cs : list col) (bs : list colbatch) : list col * list devent * list colview :=
  match cs, bs with
  | c :: ct, b :: bt =>
      let '(c', e, v) := col_attempt c b in
      let '(cs', es, vs) := attempt_cols ct bt in (c' :: cs', e :: es, v :: vs)
  | _, _ => ([], [], [])
  end.

Definition is_none (e : devent) : bool := match e with DNone => true | _ => false end.

Inductive outcome :=
| Sent (views : list colview) (attempts : nat)
| PanicTooMany.

(* recordBuilder: rebuild until NewRecord succeeds; the 6th ErrSchemaNotUpToDate panics.
   `pending` = a schema update already requested before NewRecord (new optional field, metadata). *)
Fixpoint produce (fuel : nat) (pending : bool) (cs : list col) (bs : list colbatch) (n : nat)
  : list col * outcome * list (list devent) :=
  match fuel with
  | O => (cs, PanicTooMany, [])
  | S f =>
      if pending then
        let '(cs', o, log) := produce f false (map col_update cs) bs (S n) in (cs', o, [] :: log)
      else
        let '(cs1, es, vs) := attempt_cols cs bs in
        if forallb is_none es then (cs1, Sent vs (S n), [es])
        else let '(cs', o, log) := produce f false (map col_update cs1) bs (S n) in (cs', o, es :: log)
  end.

Definition budget : nat := 6.

(* a history of batches on one record; a batch may come with a pending external update *)
Fixpoint run_hist (cs : list col) (h : list (bool * list colbatch)) : list outcome :=
  match h with
  | [] => []
  | (pend, bs) :: tl =>
      let '(cs', o, _) := produce budget pend cs bs 0 in
      o :: match o with PanicTooMany => [] | _ => run_hist cs' tl end
  end.

(* ------------------------------------------------------------- theorems *)

Definition cap (c : dcfg) : N := nth (find_index (max_card c)) all_max 0.

Definition WF (c : col) : Prop :=
  min_card (c_cfg c) <= max_card (c_cfg c) /\
  (widths (c_dict c) = [] \/ (widths (c_dict c) = init_widths (c_cfg c) /\ (cur (c_dict c) < length (widths (c_dict c)))%nat)).

Lemma find_index_lt c : (find_index c < 4)%nat.
Proof. unfold find_index. destruct (c <=? 255), (c <=? 65535), (c <=? 4294967295); lia. Qed.

Lemma slice_le_cap : forall lo hi, (lo <= hi)%nat -> (hi < 4)%nat ->
  Forall (fun w => w <= nth hi all_max 0) (slice lo hi all_max).
Proof.
  intros lo hi Hlo Hhi.
  destruct hi as [|[|[|[|hi]]]]; [| | | |exfalso; lia].
  all: destruct lo as [|[|[|[|lo]]]]; try (exfalso; lia).
  all: cbv [slice all_max skipn firstn Nat.sub Nat.add nth].
  all: repeat (constructor; [discriminate|]); constructor.
Qed.

Lemma find_index_mono a b : a <= b -> (find_index a <= find_index b)%nat.
Proof.
  intros H. unfold find_index.
  destruct (a <=? 255) eqn:A1; destruct (b <=? 255) eqn:B1; try lia;
  destruct (a <=? 65535) eqn:A2; destruct (b <=? 65535) eqn:B2; try lia;
  destruct (a <=? 4294967295) eqn:A3; destruct (b <=? 4294967295) eqn:B3; lia.
Qed.

Lemma init_widths_le_cap c : min_card c <= max_card c -> Forall (fun w => w <= cap c) (init_widths c).
Proof.
  intros Hm. unfold init_widths, cap. destruct (max_card c =? 0); [constructor|].
  apply slice_le_cap; [apply find_index_mono; exact Hm|apply find_index_lt].
Qed.

Lemma init_widths_nodict c : max_card c = 0 -> init_widths c = [].
Proof. intros H. unfold init_widths. rewrite H. reflexivity. Qed.

Lemma advance_ge ws c : forall fuel k, (k <= advance ws k c fuel)%nat.
Proof.
  induction fuel as [|f IH]; intros k; cbn [advance]; [lia|].
  destruct (nth_error ws k) as [m|]; [|lia]. destruct (m <? c); [|lia]. specialize (IH (S k)). lia.
Qed.

Lemma advance_stop ws c : forall fuel k m,
  advance ws k c fuel = k -> nth_error ws k = Some m -> (0 < fuel)%nat -> c <= m.
Proof.
  intros [|f] k m H Hn Hf; [lia|]. cbn [advance] in H. rewrite Hn in H.
  destruct (m <? c) eqn:E; [|apply N.ltb_ge in E; exact E].
  pose proof (advance_ge ws c f (S k)). lia.
Qed.

(* the central fact: if SetCardinality raises no event on a column that keeps its dictionary,
   the cardinality fits the current index width *)
Lemma set_card_none cfg d c d2 :
  set_card cfg d c = (d2, DNone) -> widths d2 <> [] ->
  (cur d < length (widths d))%nat ->
  widths d2 = widths d /\ cur d2 = cur d /\ c <= nth (cur d2) (widths d2) 0.
Proof.
  unfold set_card. destruct (widths d) as [|w ws] eqn:Ew.
  - intros H Hne. injection H as <-. cbn in Hne. congruence.
  - intros H Hne Hcur.
    set (k := advance (w :: ws) (cur d) c (length (w :: ws))) in *.
    destruct (length (w :: ws) <=? k)%nat eqn:E1.
    + destruct (ratio_lt c (cum d) cfg && negb (just_reset d)); discriminate.
    + destruct (Nat.eqb k (cur d)) eqn:E2; [|discriminate].
      injection H as <-. cbn [widths cur]. apply Nat.eqb_eq in E2.
      split; [reflexivity|]. split; [exact E2|].
      destruct (nth_error (w :: ws) (cur d)) as [m|] eqn:En.
      * rewrite E2. rewrite (nth_error_nth _ _ 0 En).
        apply (advance_stop (w :: ws) c (length (w :: ws)) (cur d) m); [exact E2|exact En|cbn; lia].
      * apply nth_error_None in En. lia.
Qed.

Lemma set_card_wf cfg d c d2 e :
  set_card cfg d c = (d2, e) ->
  (widths d = [] \/ (cur d < length (widths d))%nat) ->
  widths d2 = [] \/ (widths d2 = widths d /\ (cur d2 < length (widths d2))%nat).
Proof.
  unfold set_card. destruct (widths d) as [|w ws] eqn:Ew.
  - intros H _. injection H as <- <-. left. reflexivity.
  - intros H [Hc|Hc]; [discriminate|].
    set (k := advance (w :: ws) (cur d) c (length (w :: ws))) in *.
    destruct (length (w :: ws) <=? k)%nat eqn:E1.
    + destruct (ratio_lt c (cum d) cfg && negb (just_reset d)); injection H as <- <-; cbn [widths cur]; [right|left; reflexivity].
      split; [reflexivity|cbn [length]; lia].
    + apply Nat.leb_gt in E1.
      destruct (Nat.eqb k (cur d)); injection H as <- <-; cbn [widths cur]; right; split; try reflexivity; exact E1.
Qed.

Lemma col_attempt_spec c b c' e v :
  WF c -> col_attempt c b = (c', e, v) ->
  WF c' /\ c_cfg c' = c_cfg c /\
  (e = DNone -> forall w n, v = Some (w, n) -> n <= w /\ w <= cap (c_cfg c) /\ n = lenN (c_memo c')) /\
  (max_card (c_cfg c) = 0 -> v = None).
Proof.
  intros [Hmm HW] H. unfold col_attempt in H.
  destruct (widths (c_dict c)) as [|w0 ws0] eqn:Ew.
  - injection H as <- <- <-. split; [split; [exact Hmm|left; exact Ew]|]. split; [reflexivity|]. split; [intros _ w n Hv; discriminate|reflexivity].
  - destruct (set_card (c_cfg c) (add_total (c_dict c) (fst b)) (lenN (uniq (c_memo c ++ snd b)))) as [d2 e2] eqn:Es.
    injection H as <- <- <-. cbn [c_cfg c_dict c_memo]. rewrite <- Ew in HW.
    destruct HW as [HW|[HW1 HW2]]; [congruence|].
    assert (Hw1 : widths (add_total (c_dict c) (fst b)) = widths (c_dict c)) by reflexivity.
    assert (Hc1 : cur (add_total (c_dict c) (fst b)) = cur (c_dict c)) by reflexivity.
    pose proof (set_card_wf _ _ _ _ _ Es) as Hwf. rewrite Hw1, Hc1 in Hwf. specialize (Hwf (or_intror HW2)).
    split; [|split; [reflexivity|split]].
    + unfold WF. cbn [c_dict c_cfg]. split; [exact Hmm|]. destruct Hwf as [Hwf|[Hwf1 Hwf2]]; [left; exact Hwf|right]. split; [congruence|exact Hwf2].
    + intros -> w n Hv. destruct (widths d2) as [|w2 ws2] eqn:Ew2; [discriminate|]. injection Hv as <- <-.
      pose proof (set_card_none _ _ _ _ Es) as Hn. rewrite Ew2, Hw1, Hc1 in Hn.
      specialize (Hn ltac:(discriminate) HW2). destruct Hn as (Hn1 & Hn2 & Hn3).
      split; [exact Hn3|]. split; [|reflexivity].
      pose proof (init_widths_le_cap (c_cfg c) Hmm) as Hcap. rewrite <- HW1, <- Hn1 in Hcap.
      rewrite Forall_forall in Hcap. change (nth (cur d2) (w2 :: ws2) 0 <= cap (c_cfg c)). apply Hcap. apply nth_In. rewrite Hn1, Hn2. exact HW2.
    + intros Hm. rewrite (init_widths_nodict _ Hm) in HW1. congruence.
Qed.

Lemma col_update_wf c : WF c -> WF (col_update c).
Proof. unfold WF, col_update. cbn. tauto. Qed.

Lemma col_init_wf cfg : min_card cfg <= max_card cfg -> WF (col_init cfg).
Proof.
  intros Hm. unfold WF, col_init. cbn. split; [exact Hm|]. destruct (init_widths cfg) eqn:E; [left; reflexivity|right]. split; [reflexivity|cbn; lia].
Qed.

(* what every transmitted record satisfies, column by column *)
Definition view_ok (c : col) (v : colview) : Prop :=
  match v with
  | None => True
  | Some (w, n) => n <= w /\ w <= cap (c_cfg c)
  end /\ (max_card (c_cfg c) = 0 -> v = None).

Lemma attempt_cols_spec : forall cs bs cs' es vs,
  Forall WF cs -> attempt_cols cs bs = (cs', es, vs) ->
  Forall WF cs' /\ map c_cfg cs' = firstn (length cs') (map c_cfg cs) /\
  (forallb is_none es = true -> Forall2 view_ok cs' vs).
Proof.
  induction cs as [|c ct IH]; intros bs cs' es vs HW H; cbn [attempt_cols] in H.
  - injection H as <- <- <-. split; [constructor|]. split; [reflexivity|]. intros _. constructor.
  - destruct bs as [|b bt]; [injection H as <- <- <-; split; [constructor|]; split; [reflexivity|]; intros _; constructor|].
    destruct (col_attempt c b) as [[c1 e1] v1] eqn:E1.
    destruct (attempt_cols ct bt) as [[cs1 es1] vs1] eqn:E2.
    injection H as <- <- <-. inversion HW as [|? ? Hc Hct]; subst.
    apply col_attempt_spec in E1; [|exact Hc]. destruct E1 as (Hw1 & Hcfg & Hv & Hnd).
    apply IH in E2; [|exact Hct]. destruct E2 as (Hws & Hcfgs & Hvs).
    split; [constructor; assumption|]. split; [cbn [map length firstn]; rewrite Hcfg, Hcfgs; reflexivity|].
    cbn [forallb]. intros Hall. apply andb_true_iff in Hall. destruct Hall as [Ha1 Ha2].
    constructor; [|apply Hvs; exact Ha2].
    unfold view_ok. rewrite Hcfg. split; [|exact Hnd].
    destruct v1 as [[w n]|]; [|exact I]. destruct e1; try discriminate.
    destruct (Hv eq_refl w n eq_refl) as (H1 & H2 & _). split; assumption.
Qed.

Lemma map_update_wf cs : Forall WF cs -> Forall WF (map col_update cs).
Proof. intros H. induction H; cbn [map]; constructor; [apply col_update_wf; assumption|assumption]. Qed.

(* C13: whatever the history, the budget, the threshold: a record leaves the producer only with every
   dictionary within its index width, the width within the configured limit, and no dictionary at all
   when dictionaries are disabled *)
Lemma produce_sent_fits : forall fuel pend cs bs n cs' vs k log,
  Forall WF cs -> produce fuel pend cs bs n = (cs', Sent vs k, log) ->
  Forall WF cs' /\ Forall2 view_ok cs' vs.
Proof.
  induction fuel as [|f IH]; intros pend cs bs n cs' vs k log HW H; cbn [produce] in H; [discriminate|].
  destruct pend.
  - destruct (produce f false (map col_update cs) bs (S n)) as [[cs2 o2] log2] eqn:E. injection H as <- -> <-.
    eapply IH; [apply map_update_wf; exact HW|exact E].
  - destruct (attempt_cols cs bs) as [[cs1 es] vs1] eqn:E1.
    pose proof (attempt_cols_spec _ _ _ _ _ HW E1) as (Hw1 & _ & Hv1).
    destruct (forallb is_none es) eqn:Ea.
    + injection H as <- <- <- <-. split; [exact Hw1|apply Hv1; reflexivity].
    + destruct (produce f false (map col_update cs1) bs (S n)) as [[cs2 o2] log2] eqn:E. injection H as <- -> <-.
      eapply IH; [apply map_update_wf; exact Hw1|exact E].
Qed.

(* The reset regime after the fix: one batch with more distinct values than the limit and enough
   repetition is reset once, overflows on the rebuilt record, and is sent plain at the third attempt
   (before the fix the reset rule looped until the retry budget was exhausted: the recorded C04/C08 finding). *)
Example reset_then_overflow :
  let cfg := cfg_of_limit 255 255 3 10 in
  snd (fst (produce budget false [col_init cfg] [(3000, map N.of_nat (seq 0 300))] 0)) = Sent [None] 3.
Proof. vm_compute. reflexivity. Qed.

(* ---- one limit for all columns of a record (pkg/config: LimitIndexSize), over whole histories ---- *)
Definition limit_is (lim : N) (c : col) : Prop := max_card (c_cfg c) = lim.

Definition view_fits (lim : N) (v : colview) : Prop :=
  match v with
  | None => True
  | Some (w, n) => n <= w /\ w <= nth (find_index lim) all_max 0 /\ lim <> 0
  end.

Lemma Forall_firstn {A} (P : A -> Prop) n l : Forall P l -> Forall P (firstn n l).
Proof. revert n. induction l as [|a l IH]; intros [|n] H; cbn [firstn]; try constructor; inversion H; subst; auto. Qed.

Lemma limit_is_cfgs lim cs cs' : map c_cfg cs' = firstn (length cs') (map c_cfg cs) ->
  Forall (limit_is lim) cs -> Forall (limit_is lim) cs'.
Proof.
  intros Hm H.
  assert (H1 : Forall (fun cf => max_card cf = lim) (map c_cfg cs)) by (apply Forall_map; exact H).
  apply (Forall_firstn _ (length cs')) in H1. rewrite <- Hm in H1. apply Forall_map in H1. exact H1.
Qed.

Lemma view_ok_fits lim c v : limit_is lim c -> view_ok c v -> view_fits lim v.
Proof.
  unfold limit_is, view_ok, view_fits, cap. intros Hl [H1 H2]. destruct v as [[w n]|]; [|exact I].
  rewrite Hl in *. destruct H1 as [Ha Hb]. split; [exact Ha|]. split; [exact Hb|].
  intros Hz. specialize (H2 Hz). discriminate.
Qed.

Lemma produce_inv lim : forall fuel pend cs bs n cs' o log,
  Forall WF cs -> Forall (limit_is lim) cs -> produce fuel pend cs bs n = (cs', o, log) ->
  match o with
  | Sent vs _ => Forall WF cs' /\ Forall (limit_is lim) cs' /\ Forall (view_fits lim) vs
  | PanicTooMany => True
  end.
Proof.
  induction fuel as [|f IH]; intros pend cs bs n cs' o log HW HL H; cbn [produce] in H.
  - injection H as <- <- <-. exact I.
  - assert (Hupd : forall l, Forall (limit_is lim) l -> Forall (limit_is lim) (map col_update l)).
    { intros l Hl. induction Hl; cbn [map]; constructor; auto. }
    destruct pend.
    + destruct (produce f false (map col_update cs) bs (S n)) as [[cs2 o2] log2] eqn:E. injection H as <- <- <-.
      eapply IH; [apply map_update_wf; exact HW|apply Hupd; exact HL|exact E].
    + destruct (attempt_cols cs bs) as [[cs1 es] vs1] eqn:E1.
      pose proof (attempt_cols_spec _ _ _ _ _ HW E1) as (Hw1 & Hcf & Hv1).
      pose proof (limit_is_cfgs lim cs cs1 Hcf HL) as HL1.
      destruct (forallb is_none es) eqn:Ea.
      * injection H as <- <- <-. split; [exact Hw1|]. split; [exact HL1|].
        specialize (Hv1 eq_refl). clear -Hv1 HL1. induction Hv1; [constructor|].
        inversion HL1; subst. constructor; [eapply view_ok_fits; eassumption|auto].
      * destruct (produce f false (map col_update cs1) bs (S n)) as [[cs2 o2] log2] eqn:E. injection H as <- <- <-.
        eapply IH; [apply map_update_wf; exact Hw1|apply Hupd; exact HL1|exact E].
Qed.

Definition outcome_fits (lim : N) (o : outcome) : Prop :=
  match o with Sent vs _ => Forall (view_fits lim) vs | PanicTooMany => True end.

Lemma run_hist_fits lim : forall h cs,
  Forall WF cs -> Forall (limit_is lim) cs -> Forall (outcome_fits lim) (run_hist cs h).
Proof.
  induction h as [|[pend bs] tl IH]; intros cs HW HL; cbn [run_hist]; [constructor|].
  destruct (produce budget pend cs bs 0) as [[cs' o] log] eqn:E.
  pose proof (produce_inv lim _ _ _ _ _ _ _ _ HW HL E) as Hp.
  destruct o as [vs k|]; constructor; try exact I.
  - destruct Hp as (_ & _ & Hv). exact Hv.
  - destruct Hp as (Hw' & Hl' & _). apply IH; assumption.
  - constructor.
Qed.

Lemma cols_init_ok lim initials tn td :
  Forall WF (map (fun i => col_init (cfg_of_limit lim i tn td)) initials) /\
  Forall (limit_is lim) (map (fun i => col_init (cfg_of_limit lim i tn td)) initials).
Proof.
  split; apply Forall_map; apply Forall_forall; intros i _.
  - apply col_init_wf. unfold cfg_of_limit. cbn. lia.
  - reflexivity.
Qed.

(* ------------------------------------------------------------- termination of the retry loop *)
(* After any schema update every builder is fresh (memo empty), so on the rebuilt record every
   dictionary column sees the same cardinality u = number of distinct values of the batch.  The number
   of further failed attempts a column can cause is bounded by `meas`: 0 if u fits the current index,
   1 if a wider index fits (one upgrade) or the column was just reset (it overflows), 2 otherwise
   (a reset, then an overflow). *)
Definition meas (d : dict) (u : N) : nat :=
  match widths d with
  | [] => 0%nat
  | ws => let k := advance ws (cur d) u (length ws) in
          if (length ws <=? k)%nat then (if just_reset d then 1%nat else 2%nat)
          else if Nat.eqb k (cur d) then 0%nat else 1%nat
  end.

Definition ubatch (b : colbatch) : N := lenN (uniq (snd b)).

(* where the upgrade loop stops: out of range, or at an index that fits; everything skipped was too small *)
Lemma advance_spec ws c : forall fuel k j,
  advance ws k c fuel = j ->
  (k <= j)%nat /\
  (j = (k + fuel)%nat \/ (length ws <= j)%nat \/ (exists m, nth_error ws j = Some m /\ c <= m)) /\
  (forall i, (k <= i < j)%nat -> exists m, nth_error ws i = Some m /\ m < c).
Proof.
  induction fuel as [|f IH]; intros k j H; cbn [advance] in H.
  - subst. split; [lia|]. split; [left; lia|]. intros i Hi. lia.
  - destruct (nth_error ws k) as [m|] eqn:En.
    + destruct (m <? c) eqn:E.
      * apply IH in H. destruct H as (H1 & H2 & H3). split; [lia|]. split.
        -- destruct H2 as [H2|H2]; [left; lia|right; exact H2].
        -- intros i Hi. destruct (Nat.eq_dec i k) as [->|Hne]; [exists m; split; [exact En|apply N.ltb_lt; exact E]|].
           apply H3. lia.
      * subst. split; [lia|]. split; [right; right; exists m; split; [exact En|apply N.ltb_ge; exact E]|]. intros i Hi. lia.
    + subst. split; [lia|]. split; [right; left; apply nth_error_None; exact En|]. intros i Hi. lia.
Qed.

Lemma advance_stay ws c k m fuel : nth_error ws k = Some m -> c <= m -> advance ws k c fuel = k.
Proof.
  intros En Hm. destruct fuel as [|f]; [reflexivity|]. cbn [advance]. rewrite En.
  assert (E : m <? c = false) by (apply N.ltb_ge; exact Hm). rewrite E. reflexivity.
Qed.

Lemma advance_last ws c m fuel : (0 < fuel)%nat -> (0 < length ws)%nat ->
  nth_error ws (length ws - 1) = Some m -> m < c -> (length ws <= advance ws (length ws - 1) c fuel)%nat.
Proof.
  intros Hf Hl En Hm. destruct fuel as [|f]; [lia|]. cbn [advance]. rewrite En.
  assert (E : m <? c = true) by (apply N.ltb_lt; exact Hm). rewrite E.
  pose proof (advance_ge ws c f (S (length ws - 1))). lia.
Qed.

(* the decisive step: on a fresh builder (memo empty) an attempt either raises no event and keeps the
   measure at 0, or strictly decreases the measure of the rebuilt column *)
Lemma meas_unfold d u w ws : widths d = w :: ws ->
  meas d u = let k := advance (w :: ws) (cur d) u (length (w :: ws)) in
             if (length (w :: ws) <=? k)%nat then (if just_reset d then 1%nat else 2%nat)
             else if Nat.eqb k (cur d) then 0%nat else 1%nat.
Proof. intros H. unfold meas. rewrite H. reflexivity. Qed.

Lemma fresh_attempt c b c' e v :
  WF c -> c_memo c = [] -> col_attempt c b = (c', e, v) ->
  (meas (c_dict c) (ubatch b) = 0%nat -> e = DNone /\ meas (c_dict (col_update c')) (ubatch b) = 0%nat) /\
  ((0 < meas (c_dict c) (ubatch b))%nat -> (meas (c_dict (col_update c')) (ubatch b) < meas (c_dict c) (ubatch b))%nat).
Proof.
  intros [Hmm HW] Hmemo H. unfold col_attempt in H. rewrite Hmemo in H. cbn [app] in H. fold (ubatch b) in H.
  destruct (widths (c_dict c)) as [|w0 ws0] eqn:Ew.
  - injection H as <- <- <-.
    assert (Hz : meas (c_dict c) (ubatch b) = 0%nat) by (unfold meas; rewrite Ew; reflexivity).
    assert (Hz2 : meas (c_dict (col_update c)) (ubatch b) = 0%nat) by (unfold meas, col_update; cbn [c_dict revert widths]; rewrite Ew; reflexivity).
    rewrite Hz, Hz2. split; [intros _; split; reflexivity|intros Hlt; lia].
  - destruct HW as [HW|[HW1 HW2]]; [discriminate|].
    rewrite (meas_unfold _ _ _ _ Ew). cbv zeta.
    set (u := ubatch b) in *.
    unfold set_card in H. cbn [add_total widths cur cum prev_cum just_reset] in H. rewrite Ew in H.
    remember (w0 :: ws0) as ws eqn:Ews.
    set (k := advance ws (cur (c_dict c)) u (length ws)) in *.
    destruct (advance_spec ws u (length ws) (cur (c_dict c)) k eq_refl) as (Hge & Hstop & Hskipped).
    assert (Hlen : (0 < length ws)%nat) by (rewrite Ews; cbn; lia).
    destruct (length ws <=? k)%nat eqn:E1.
    + apply Nat.leb_le in E1.
      destruct (Hskipped (length ws - 1)%nat ltac:(lia)) as (mlast & Enl & Hml).
      destruct (ratio_lt u (cum (c_dict c) + fst b) (c_cfg c) && negb (just_reset (c_dict c))) eqn:Er.
      * injection H as <- <- <-. apply andb_true_iff in Er. destruct Er as [_ Ejr]. apply negb_true_iff in Ejr.
        rewrite Ejr. split; [intros Hz; lia|intros _].
        match goal with |- context [meas (c_dict (col_update ?X)) u] =>
          assert (Ew' : widths (c_dict (col_update X)) = w0 :: ws0) by (cbn; exact Ews) end.
        rewrite (meas_unfold _ _ _ _ Ew'). cbv zeta. rewrite <- Ews. cbn [col_update c_dict revert cur just_reset].
        pose proof (advance_last ws u mlast (length ws) Hlen Hlen Enl Hml) as Hadv.
        assert (E2 : (length ws <=? advance ws (length ws - 1) u (length ws))%nat = true) by (apply Nat.leb_le; exact Hadv).
        rewrite E2. lia.
      * injection H as <- <- <-. split; [intros Hz; destruct (just_reset (c_dict c)); lia|intros _].
        unfold meas, col_update. cbn [c_dict revert widths]. destruct (just_reset (c_dict c)); lia.
    + apply Nat.leb_gt in E1.
      destruct Hstop as [Hstop|[Hstop|(m & Enk & Hmk)]]; [lia|lia|].
      assert (E3 : (length ws <=? k)%nat = false) by (apply Nat.leb_gt; exact E1).
      destruct (Nat.eqb k (cur (c_dict c))) eqn:E2.
      * injection H as <- <- <-. split; [intros _|intros Hlt; lia]. split; [reflexivity|].
        match goal with |- context [meas (c_dict (col_update ?X)) u] =>
          assert (Ew' : widths (c_dict (col_update X)) = w0 :: ws0) by (cbn; exact Ews) end.
        rewrite (meas_unfold _ _ _ _ Ew'). cbv zeta. rewrite <- Ews. cbn [col_update c_dict revert cur just_reset].
        rewrite (advance_stay ws u k m (length ws) Enk Hmk). rewrite E3, Nat.eqb_refl. reflexivity.
      * injection H as <- <- <-. split; [intros Hz; lia|intros _].
        match goal with |- context [meas (c_dict (col_update ?X)) u] =>
          assert (Ew' : widths (c_dict (col_update X)) = w0 :: ws0) by (cbn; exact Ews) end.
        rewrite (meas_unfold _ _ _ _ Ew'). cbv zeta. rewrite <- Ews. cbn [col_update c_dict revert cur just_reset].
        rewrite (advance_stay ws u k m (length ws) Enk Hmk). rewrite E3, Nat.eqb_refl. lia.
Qed.

Lemma meas_le_2 d u : (meas d u <= 2)%nat.
Proof.
  unfold meas. destruct (widths d) as [|w ws]; [lia|].
  destruct (length (w :: ws) <=? advance (w :: ws) (cur d) u (length (w :: ws)))%nat; [destruct (just_reset d); lia|].
  destruct (Nat.eqb _ _); lia.
Qed.

Fixpoint fresh_le (n : nat) (cs : list col) (bs : list colbatch) : Prop :=
  match cs, bs with
  | c :: ct, b :: bt => WF c /\ c_memo c = [] /\ (meas (c_dict c) (ubatch b) <= n)%nat /\ fresh_le n ct bt
  | _, _ => True
  end.

Lemma fresh_le_updated cs : forall bs, Forall WF cs -> fresh_le 2 (map col_update cs) bs.
Proof.
  induction cs as [|c ct IH]; intros [|b bt] H; cbn [map fresh_le]; try exact I.
  inversion H; subst. split; [apply col_update_wf; assumption|]. split; [reflexivity|]. split; [apply meas_le_2|]. apply IH. assumption.
Qed.

Lemma attempt_fresh_list n : forall cs bs cs' es vs,
  fresh_le n cs bs -> attempt_cols cs bs = (cs', es, vs) ->
  (n = 0%nat -> forallb is_none es = true) /\ fresh_le (Nat.pred n) (map col_update cs') bs.
Proof.
  induction cs as [|c ct IH]; intros bs cs' es vs HF H; cbn [attempt_cols] in H.
  - injection H as <- <- <-. split; [reflexivity|]. cbn. exact I.
  - destruct bs as [|b bt]; [injection H as <- <- <-; split; [reflexivity|cbn; exact I]|].
    destruct (col_attempt c b) as [[c1 e1] v1] eqn:E1.
    destruct (attempt_cols ct bt) as [[cs1 es1] vs1] eqn:E2. injection H as <- <- <-.
    cbn [fresh_le] in HF. destruct HF as (HW & Hm & Hle & HFt).
    pose proof (fresh_attempt _ _ _ _ _ HW Hm E1) as [Hz Hpos].
    pose proof (col_attempt_spec _ _ _ _ _ HW E1) as (HW1 & _).
    destruct (IH _ _ _ _ HFt E2) as [Hn Hft].
    split.
    + intros ->. cbn [forallb]. assert (Hm0 : meas (c_dict c) (ubatch b) = 0%nat) by lia.
      destruct (Hz Hm0) as [-> _]. cbn [is_none andb]. apply Hn. reflexivity.
    + cbn [map fresh_le]. split; [apply col_update_wf; exact HW1|]. split; [reflexivity|]. split; [|exact Hft].
      destruct (Nat.eq_dec (meas (c_dict c) (ubatch b)) 0) as [Hm0|Hm0].
      * destruct (Hz Hm0) as [_ Hz2]. lia.
      * specialize (Hpos ltac:(lia)). lia.
Qed.

Lemma produce_S f pend cs bs n :
  produce (S f) pend cs bs n =
    if pend then
      let '(cs', o, log) := produce f false (map col_update cs) bs (S n) in (cs', o, [] :: log)
    else
      let '(cs1, es, vs) := attempt_cols cs bs in
      if forallb is_none es then (cs1, Sent vs (S n), [es])
      else let '(cs', o, log) := produce f false (map col_update cs1) bs (S n) in (cs', o, es :: log).
Proof. reflexivity. Qed.

Lemma fresh_no_panic : forall n fuel cs bs k,
  fresh_le n cs bs -> (n < fuel)%nat -> snd (fst (produce fuel false cs bs k)) <> PanicTooMany.
Proof.
  induction n as [|n IH]; intros fuel cs bs k HF Hlt; (destruct fuel as [|f]; [lia|]); rewrite produce_S.
  - destruct (attempt_cols cs bs) as [[cs1 es] vs] eqn:E1.
    destruct (attempt_fresh_list _ _ _ _ _ _ HF E1) as [Hn _]. rewrite (Hn eq_refl). cbn. discriminate.
  - destruct (attempt_cols cs bs) as [[cs1 es] vs] eqn:E1.
    destruct (attempt_fresh_list _ _ _ _ _ _ HF E1) as [_ Hft]. cbn [Nat.pred] in Hft.
    destruct (forallb is_none es); [cbn; discriminate|].
    specialize (IH f (map col_update cs1) bs (S k) Hft ltac:(lia)).
    destruct (produce f false (map col_update cs1) bs (S k)) as [[cs2 o2] log2]. cbn [fst snd] in *. exact IH.
Qed.

(* The retry loop of recordBuilder never exhausts its budget on dictionary events: at most one arbitrary
   first attempt, then (on fresh builders) at most an upgrade or a reset followed by an overflow. *)
Lemma produce_no_panic cs bs pend k :
  Forall WF cs -> snd (fst (produce budget pend cs bs k)) <> PanicTooMany.
Proof.
  intros HW. change budget with (S 5). rewrite produce_S. destruct pend.
  - pose proof (fresh_no_panic 2 5 (map col_update cs) bs (S k) (fresh_le_updated cs bs HW) ltac:(lia)) as H.
    destruct (produce 5 false (map col_update cs) bs (S k)) as [[cs2 o2] log2]. exact H.
  - destruct (attempt_cols cs bs) as [[cs1 es] vs] eqn:E1.
    pose proof (attempt_cols_spec _ _ _ _ _ HW E1) as (Hw1 & _).
    destruct (forallb is_none es); [cbn; discriminate|].
    pose proof (fresh_no_panic 2 5 (map col_update cs1) bs (S k) (fresh_le_updated cs1 bs Hw1) ltac:(lia)) as H.
    destruct (produce 5 false (map col_update cs1) bs (S k)) as [[cs2 o2] log2]. exact H.
Qed.

(* ---- the overflow scan must look at every column in each round ----
   NewRecord scans all dictionary columns of the record after each build and lets every one of them react (upgrade,
   overflow, reset) before the record is rebuilt: [attempt_cols].  A scan that stops at the first column asking for a schema
   update handles one column per round; six columns crossing an index width in the same batch then exhaust the retry budget
   (the recorded seeded change C04-overflow-scan-stops-at-first-column).  With the scan as it is, the same batch is sent at
   the second attempt. *)
Fixpoint attempt_cols_first (cs : list col) (bs : list colbatch) : list col * list devent * list colview :=
  match cs, bs with
  | c :: ct, b :: bt =>
      let '(c', e, v) := col_attempt c b in
      if is_none e then let '(cs', es, vs) := attempt_cols_first ct bt in (c' :: cs', e :: es, v :: vs)
      else (c' :: ct, [e], [v])                     (* stop: the remaining columns are not examined in this round *)
  | _, _ => ([], [], [])
  end.

Fixpoint produce_first (fuel : nat) (cs : list col) (bs : list colbatch) (n : nat) : outcome :=
  match fuel with
  | O => PanicTooMany
  | S f =>
      let '(cs1, es, vs) := attempt_cols_first cs bs in
      if forallb is_none es then Sent vs (S n) else produce_first f (map col_update cs1) bs (S n)
  end.

Example one_column_per_round_refuted :
  let cfg := cfg_of_limit 65535 255 3 10 in
  let cols := repeat (col_init cfg) 6 in
  let batch := repeat (300, map N.of_nat (seq 0 300)) 6 in       (* 300 distinct values in each of six columns *)
  snd (fst (produce budget false cols batch 0)) = Sent (repeat (Some (65535, 300)) 6) 2 /\
  produce_first budget cols batch 0 = PanicTooMany.
Proof. split; vm_compute; reflexivity. Qed.
