(* Stream/PanicBaseline.v — every explicit panic(...) site of the producer/consumer packages at the commit this
   development was written against, with the reason it cannot fire on valid OTLP input (or what guards it).
   gen/PanicSites.v is regenerated from the current source on every run; Props/C08.v requires every
   generated site to be in this table: a new or changed panic site breaks that obligation.
   Classes: TypeInvariant = default branch of a type switch over a closed set of Arrow builder/data types fixed by
   the prototype schemas; IdColumnMonotone = delta-encoded id builders fed by counters that only grow, whose range is
   guarded by the id-width pre-check (C08_refuses_overflow); GuardedByIdWidthPrecheck = accumulator capacity, unreachable
   after the pre-check; RetryBudget = the retry loop (C08_retry_bound for dictionary events; field discovery needs at most
   3 passes on the prototype schemas); LimitErrorRecoveredByArrow = consumer allocator (C14); NotOnPublicPath = no caller on
   the producer/consumer paths (RequireNoError lost its last caller with fix 1f483265; the record-dump panics, once classed
   "debug only" although WithDumpRecordRows / WithSchemaStats are public options, were genuine C08 defects, removed by
   fixes 81414d9c and 1f483265, and are exercised on every run by the diagnostic-option histories); DebugOrToolingOnly = code
   of the benchmark / tooling binaries, not linked into a producer or consumer; LibraryErrorOnWellTypedBuilder = an
   arrow-go builder returned an error although it was fed a value of its own type. *)
From Coq Require Import String List Bool.
Import ListNotations.
Open Scope string_scope.

Inductive pclass := TypeInvariant | IdColumnMonotone | GuardedByIdWidthPrecheck | RetryBudget | LimitErrorRecoveredByArrow
  | NotOnPublicPath | DebugOrToolingOnly | ConfigInvariant | LibraryErrorOnWellTypedBuilder.

Definition panic_baseline : list (string * string * string * pclass) := [
 ("pkg/arrow/schema.go", "DataTypeToID", "'unsupported data type ' + dt.String()", TypeInvariant);
 ("pkg/arrow/schema.go", "ShowDataType", "'unsupported data type ' + dt.String()", TypeInvariant);
 ("pkg/otel/arrow_record/producer.go", "NewProducerWithOptions", "err", LibraryErrorOnWellTypedBuilder);
 ("pkg/otel/arrow_record/producer.go", "NewProducerWithOptions", "err", LibraryErrorOnWellTypedBuilder);
 ("pkg/otel/arrow_record/producer.go", "NewProducerWithOptions", "err", LibraryErrorOnWellTypedBuilder);
 ("pkg/otel/arrow_record/producer.go", "recordBuilder", "'Too many consecutive schema updates. This shouldn't happen.", RetryBudget);
 ("pkg/otel/common/arrow/allocator.go", "*LimitedAllocator.Allocate", "err", LimitErrorRecoveredByArrow);
 ("pkg/otel/common/arrow/allocator.go", "*LimitedAllocator.Reallocate", "err", LimitErrorRecoveredByArrow);
 ("pkg/otel/common/arrow/analyzer.go", "RequireNoError", "err", NotOnPublicPath);
 ("pkg/otel/common/arrow/attributes.go", "*Attributes16Accumulator.Append", "'The maximum number of group of attributes has been reached ", GuardedByIdWidthPrecheck);
 ("pkg/otel/common/arrow/attributes.go", "*Attributes16Accumulator.AppendWithID", "'The maximum number of group of attributes has been reached ", GuardedByIdWidthPrecheck);
 ("pkg/otel/common/arrow/attributes.go", "*Attributes32Accumulator.Append", "'The maximum number of group of attributes has been reached ", GuardedByIdWidthPrecheck);
 ("pkg/otel/common/arrow/attributes_16.go", "*Attrs16Builder.Build", "'Too many consecutive schema updates. This shouldn't happen.", RetryBudget);
 ("pkg/otel/common/arrow/attributes_16.go", "Attrs16FindOrderByFunc", "fmt.Sprintf('unknown OrderAttrs16By variant: %d', orderBy)", TypeInvariant);
 ("pkg/otel/common/arrow/attributes_32.go", "*Attrs32Builder.Build", "'Too many consecutive schema updates. This shouldn't happen.", RetryBudget);
 ("pkg/otel/common/arrow/attributes_32.go", "Attrs32FindOrderByFunc", "fmt.Sprintf('unknown OrderAttrs32By variant: %d', orderBy)", TypeInvariant);
 ("pkg/otel/common/arrow/dyn_attrs.go", "*BinaryAttrColumn.Build", "'invalid binary builder type'", NotOnPublicPath);
 ("pkg/otel/common/arrow/dyn_attrs.go", "*CborAttrColumn.Append", "'implement me'", NotOnPublicPath);
 ("pkg/otel/common/arrow/dyn_attrs.go", "*CborAttrColumn.Build", "'invalid cbor builder type'", NotOnPublicPath);
 ("pkg/otel/common/arrow/dyn_attrs.go", "*IntAttrColumn.Build", "'invalid int64 builder type'", NotOnPublicPath);
 ("pkg/otel/common/arrow/dyn_attrs.go", "*StringAttrColumn.Build", "'invalid string builder type'", NotOnPublicPath);
 ("pkg/otel/common/arrow/dyn_attrs.go", "colName", "'unknown value type'", NotOnPublicPath);
 ("pkg/otel/common/arrow/dyn_attrs.go", "createColumn", "'unknown value type'", NotOnPublicPath);
 ("pkg/otel/common/arrow/tmo/dyn_attrs_sorted.go", "*BinaryAttrColumn.Build", "'invalid binary builder type'", NotOnPublicPath);
 ("pkg/otel/common/arrow/tmo/dyn_attrs_sorted.go", "*CborAttrColumn.Append", "'implement me'", NotOnPublicPath);
 ("pkg/otel/common/arrow/tmo/dyn_attrs_sorted.go", "*CborAttrColumn.Build", "'invalid cbor builder type'", NotOnPublicPath);
 ("pkg/otel/common/arrow/tmo/dyn_attrs_sorted.go", "*IntAttrColumn.Build", "'invalid int64 builder type'", NotOnPublicPath);
 ("pkg/otel/common/arrow/tmo/dyn_attrs_sorted.go", "*StringAttrColumn.Build", "'invalid string builder type'", NotOnPublicPath);
 ("pkg/otel/common/arrow/tmo/dyn_attrs_sorted.go", "colName", "'unknown value type'", NotOnPublicPath);
 ("pkg/otel/common/arrow/tmo/dyn_attrs_sorted.go", "createColumn", "'unknown value type'", NotOnPublicPath);
 ("pkg/otel/common/otlp/attributes.go", "*AttrsParentIDDecoder[unsigned].Decode", "'unknown parent ID encoding type'", TypeInvariant);
 ("pkg/otel/common/otlp/dyn_attrs.go", "*CborAttributeFeeder.Update", "'implement me -> CborAttributeFeeder.Update'", NotOnPublicPath);
 ("pkg/otel/common/otlp/dyn_attrs.go", "CreateDynAttrsStoreFrom", "fmt.Sprintf('unsupported feeder type: %s', mtype)", NotOnPublicPath);
 ("pkg/otel/common/otlp/ids.go", "ValueID", "'unsupported value type'", TypeInvariant);
 ("pkg/otel/common/schema/builder/binary.go", "*BinaryBuilder.Append", "'unknown builder type'", TypeInvariant);
 ("pkg/otel/common/schema/builder/binary.go", "*BinaryBuilder.Append", "err", LibraryErrorOnWellTypedBuilder);
 ("pkg/otel/common/schema/builder/binary.go", "*BinaryBuilder.AppendNonNil", "'unknown builder type'", TypeInvariant);
 ("pkg/otel/common/schema/builder/binary.go", "*BinaryBuilder.AppendNonNil", "err", LibraryErrorOnWellTypedBuilder);
 ("pkg/otel/common/schema/builder/binary.go", "*FixedSizeBinaryBuilder.Append", "'unknown builder type'", TypeInvariant);
 ("pkg/otel/common/schema/builder/binary.go", "*FixedSizeBinaryBuilder.Append", "err", LibraryErrorOnWellTypedBuilder);
 ("pkg/otel/common/schema/builder/duration.go", "*DurationBuilder.Append", "'unknown builder type'", TypeInvariant);
 ("pkg/otel/common/schema/builder/duration.go", "*DurationBuilder.Append", "err", LibraryErrorOnWellTypedBuilder);
 ("pkg/otel/common/schema/builder/int.go", "*Int32Builder.Append", "'unknown builder type'", TypeInvariant);
 ("pkg/otel/common/schema/builder/int.go", "*Int32Builder.Append", "err", LibraryErrorOnWellTypedBuilder);
 ("pkg/otel/common/schema/builder/int.go", "*Int32Builder.AppendNonZero", "'unknown builder type'", TypeInvariant);
 ("pkg/otel/common/schema/builder/int.go", "*Int32Builder.AppendNonZero", "err", LibraryErrorOnWellTypedBuilder);
 ("pkg/otel/common/schema/builder/int.go", "*Int64Builder.Append", "'unknown builder type'", TypeInvariant);
 ("pkg/otel/common/schema/builder/int.go", "*Int64Builder.Append", "err", LibraryErrorOnWellTypedBuilder);
 ("pkg/otel/common/schema/builder/int.go", "*Int64Builder.AppendNonZero", "'unknown builder type'", TypeInvariant);
 ("pkg/otel/common/schema/builder/int.go", "*Int64Builder.AppendNonZero", "err", LibraryErrorOnWellTypedBuilder);
 ("pkg/otel/common/schema/builder/record.go", "*RecordBuilderExt.VisitDataType", "'unsupported data type ' + dt.String()", TypeInvariant);
 ("pkg/otel/common/schema/builder/record.go", "*RecordBuilderExt.VisitDataType", "fmt.Sprintf('Dictionary transform not found dictID: %s', dic", TypeInvariant);
 ("pkg/otel/common/schema/builder/record.go", "*RecordBuilderExt.copyFieldDictValuesTo", "'The source and destination record builders must have the sa", TypeInvariant);
 ("pkg/otel/common/schema/builder/record.go", "*RecordBuilderExt.copyFieldDictValuesTo", "'copyFieldDictValuesTo: unsupported dictionary type ' + dict", TypeInvariant);
 ("pkg/otel/common/schema/builder/record.go", "*RecordBuilderExt.detectDictionaryOverflow", "fmt.Sprintf('Dictionary transform not found for field %s', f", TypeInvariant);
 ("pkg/otel/common/schema/builder/record.go", "*RecordBuilderExt.protoDataTypeAndTransformNode", "fmt.Sprintf('field %q is ambiguous in the proto schema', nam", TypeInvariant);
 ("pkg/otel/common/schema/builder/record.go", "*RecordBuilderExt.protoDataTypeAndTransformNode", "fmt.Sprintf('field %q not found in the proto schema', name)", TypeInvariant);
 ("pkg/otel/common/schema/builder/sparse_union.go", "*SparseUnionBuilder.protoDataTypeAndTransformNode", "fmt.Sprintf('child code %d not found in the proto schema', c", TypeInvariant);
 ("pkg/otel/common/schema/builder/string.go", "*StringBuilder.Append", "'unknown builder type'", TypeInvariant);
 ("pkg/otel/common/schema/builder/string.go", "*StringBuilder.Append", "err", LibraryErrorOnWellTypedBuilder);
 ("pkg/otel/common/schema/builder/string.go", "*StringBuilder.AppendNonEmpty", "'unknown builder type'", TypeInvariant);
 ("pkg/otel/common/schema/builder/string.go", "*StringBuilder.AppendNonEmpty", "err", LibraryErrorOnWellTypedBuilder);
 ("pkg/otel/common/schema/builder/struct.go", "*StructBuilder.protoDataTypeAndTransformNode", "fmt.Sprintf('field %q not found in the proto schema', name)", TypeInvariant);
 ("pkg/otel/common/schema/builder/uint.go", "*Uint16Builder.Append", "'unknown builder type'", TypeInvariant);
 ("pkg/otel/common/schema/builder/uint.go", "*Uint16Builder.Append", "err", LibraryErrorOnWellTypedBuilder);
 ("pkg/otel/common/schema/builder/uint.go", "*Uint16Builder.AppendNonZero", "'unknown builder type'", TypeInvariant);
 ("pkg/otel/common/schema/builder/uint.go", "*Uint16Builder.AppendNonZero", "err", LibraryErrorOnWellTypedBuilder);
 ("pkg/otel/common/schema/builder/uint.go", "*Uint16DeltaBuilder.Append", "'delta is greater than max delta, consider sorting the data'", IdColumnMonotone);
 ("pkg/otel/common/schema/builder/uint.go", "*Uint16DeltaBuilder.Append", "'unknown builder type'", TypeInvariant);
 ("pkg/otel/common/schema/builder/uint.go", "*Uint16DeltaBuilder.Append", "'value is less than previous value'", IdColumnMonotone);
 ("pkg/otel/common/schema/builder/uint.go", "*Uint16DeltaBuilder.Append", "err", LibraryErrorOnWellTypedBuilder);
 ("pkg/otel/common/schema/builder/uint.go", "*Uint32Builder.Append", "'unknown builder type'", TypeInvariant);
 ("pkg/otel/common/schema/builder/uint.go", "*Uint32Builder.Append", "err", LibraryErrorOnWellTypedBuilder);
 ("pkg/otel/common/schema/builder/uint.go", "*Uint32Builder.AppendNonZero", "'unknown builder type'", TypeInvariant);
 ("pkg/otel/common/schema/builder/uint.go", "*Uint32Builder.AppendNonZero", "err", LibraryErrorOnWellTypedBuilder);
 ("pkg/otel/common/schema/builder/uint.go", "*Uint32DeltaBuilder.Append", "'delta is greater than max delta, consider sorting the data'", IdColumnMonotone);
 ("pkg/otel/common/schema/builder/uint.go", "*Uint32DeltaBuilder.Append", "'unknown builder type'", TypeInvariant);
 ("pkg/otel/common/schema/builder/uint.go", "*Uint32DeltaBuilder.Append", "'value is less than previous value'", IdColumnMonotone);
 ("pkg/otel/common/schema/builder/uint.go", "*Uint32DeltaBuilder.Append", "err", LibraryErrorOnWellTypedBuilder);
 ("pkg/otel/common/schema/builder/uint.go", "*Uint64Builder.Append", "'unknown builder type'", TypeInvariant);
 ("pkg/otel/common/schema/builder/uint.go", "*Uint64Builder.Append", "err", LibraryErrorOnWellTypedBuilder);
 ("pkg/otel/common/schema/builder/uint.go", "*Uint64Builder.AppendNonZero", "'unknown builder type'", TypeInvariant);
 ("pkg/otel/common/schema/builder/uint.go", "*Uint64Builder.AppendNonZero", "err", LibraryErrorOnWellTypedBuilder);
 ("pkg/otel/common/schema/builder/uint.go", "*Uint8Builder.Append", "'unknown builder type'", TypeInvariant);
 ("pkg/otel/common/schema/builder/uint.go", "*Uint8Builder.Append", "err", LibraryErrorOnWellTypedBuilder);
 ("pkg/otel/common/schema/builder/uint.go", "*Uint8Builder.AppendNonZero", "'unknown builder type'", TypeInvariant);
 ("pkg/otel/common/schema/builder/uint.go", "*Uint8Builder.AppendNonZero", "err", LibraryErrorOnWellTypedBuilder);
 ("pkg/otel/common/schema/schema.go", "NewFieldFrom", "'unknown union type'", TypeInvariant);
 ("pkg/otel/common/schema/transform/dictionary.go", "indexMaxCardRange", "'minCard > maxCard'", ConfigInvariant);
 ("pkg/otel/common/schema/transform/dictionary.go", "indexTypesRange", "'minCard > maxCard'", ConfigInvariant);
 ("pkg/otel/logs/arrow/logs.go", "NewLogsBuilder", "err", LibraryErrorOnWellTypedBuilder);
 ("pkg/otel/metrics/arrow/ehistogram_dp.go", "*EHDPAccumulator.Append", "'The maximum number of group of exponential histogram data p", GuardedByIdWidthPrecheck);
 ("pkg/otel/metrics/arrow/ehistogram_dp.go", "*EHistogramDataPointBuilder.Build", "'Too many consecutive schema updates. This shouldn't happen.", RetryBudget);
 ("pkg/otel/metrics/arrow/exemplar.go", "*ExemplarAccumulator.Append", "'The maximum number of group of exemplars has been reached (", GuardedByIdWidthPrecheck);
 ("pkg/otel/metrics/arrow/exemplar.go", "*ExemplarBuilder.Build", "'Too many consecutive schema updates. This shouldn't happen.", RetryBudget);
 ("pkg/otel/metrics/arrow/exemplar.go", "*ExemplarParentIdEncoder.Encode", "'Unknown parent ID encoding type.'", TypeInvariant);
 ("pkg/otel/metrics/arrow/histogram_dp.go", "*HDPAccumulator.Append", "'The maximum number of group of histogram data points has be", GuardedByIdWidthPrecheck);
 ("pkg/otel/metrics/arrow/histogram_dp.go", "*HistogramDataPointBuilder.Build", "'Too many consecutive schema updates. This shouldn't happen.", RetryBudget);
 ("pkg/otel/metrics/arrow/metrics.go", "NewMetricsBuilder", "err", LibraryErrorOnWellTypedBuilder);
 ("pkg/otel/metrics/arrow/number_data_point.go", "*DataPointBuilder.Build", "'Too many consecutive schema updates. This shouldn't happen.", RetryBudget);
 ("pkg/otel/metrics/arrow/related_data.go", "*RelatedData.NextMetricScopeID", "'maximum number of scope metrics reached per batch, please r", TypeInvariant);
 ("pkg/otel/metrics/arrow/summary_dp.go", "*SummaryAccumulator.Append", "'The maximum number of group of summary data points has been", GuardedByIdWidthPrecheck);
 ("pkg/otel/metrics/arrow/summary_dp.go", "*SummaryDataPointBuilder.Build", "'Too many consecutive schema updates. This shouldn't happen.", RetryBudget);
 ("pkg/otel/metrics/data_point.go", "ValueSig", "'unsupported value type'", TypeInvariant);
 ("pkg/otel/metrics/otlp/exemplar.go", "*ExemplarParentIdDecoder.Decode", "'unknown exemplar parent ID encoding type'", TypeInvariant);
 ("pkg/otel/traces/arrow/event.go", "*EventAccumulator.Append", "'The maximum number of group of events has been reached (max", GuardedByIdWidthPrecheck);
 ("pkg/otel/traces/arrow/event.go", "*EventBuilder.Build", "'Too many consecutive schema updates. This shouldn't happen.", RetryBudget);
 ("pkg/otel/traces/arrow/link.go", "*LinkAccumulator.Append", "'The maximum number of group of links has been reached (max ", GuardedByIdWidthPrecheck);
 ("pkg/otel/traces/arrow/link.go", "*LinkBuilder.Build", "'Too many consecutive schema updates. This shouldn't happen.", RetryBudget);
 ("pkg/otel/traces/arrow/optimizer.go", "FindOrderByFunc", "fmt.Sprintf('unknown OrderSpanBy variant: %d', orderBy)", TypeInvariant);
 ("pkg/otel/traces/arrow/related_data.go", "*RelatedData.NextSpanID", "'maximum number of spans reached per batch, please reduce th", TypeInvariant);
 ("pkg/otel/traces/arrow/traces.go", "NewTracesBuilder", "err", LibraryErrorOnWellTypedBuilder);
 ("pkg/otel/traces/otlp/event.go", "*EventParentIdDecoder.Decode", "'unknown event parent ID encoding type'", TypeInvariant);
 ("pkg/otel/traces/otlp/link.go", "*LinkParentIdDecoder.Decode", "'unknown encoding type'", TypeInvariant)
].

Definition site_eqb (a : string * string * string) (b : string * string * string * pclass) : bool :=
  String.eqb (fst (fst a)) (fst (fst (fst b))) && String.eqb (snd (fst a)) (snd (fst (fst b))) && String.eqb (snd a) (snd (fst b)).
Definition classified (s : string * string * string) : bool := existsb (site_eqb s) panic_baseline.
