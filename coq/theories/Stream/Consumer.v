(* Stream/Consumer.v — model of arrow_record.Consumer.Consume (the stream-consumer table) and of the
   payload dispatch of TracesFrom / LogsFrom / MetricsFrom with their RelatedDataFrom.
   What the Arrow IPC library answers for each payload (could a reader be opened on these bytes, did
   Next yield a record, did the reader report an error) and whether a table decodes are INPUTS of the
   model: the theorems hold for every answer the library may give, so for every payload-level damage
   (relabelled, dropped, duplicated, reordered, emptied payloads, unknown or stale schema ids). *)
From Verif Require Import Base.ListX.

Record lib := { l_open_ok : bool; l_next : bool; l_err_ok : bool }.
Record payload := { p_sid : N; p_ty : N; p_lib : lib; p_decodes : bool }.
Record centry := { e_sid : N; e_ty : N; e_reader : bool }.   (* e_reader = false: sc.ipcReader == nil *)

Inductive cres := COk (recs : list (N * bool)) (* (payload type, decodes) of the records read *) | CErr | CPanic.

Section Consume.
  (* legacy_nil: the code before the fix called Release on a nil reader *)
  Variable legacy_nil : bool.

  Fixpoint lookup_e (sid : N) (st : list centry) : option centry :=
    match st with [] => None | e :: tl => if N.eqb (e_sid e) sid then Some e else lookup_e sid tl end.

  Definition set_reader (sid : N) (st : list centry) : list centry :=
    map (fun e => if N.eqb (e_sid e) sid then {| e_sid := e_sid e; e_ty := e_ty e; e_reader := true |} else e) st.

  (* one iteration of the loop over bar.ArrowPayloads; None = return with error / panic *)
  Definition consume_one (st : list centry) (p : payload) : list centry * option bool (* Some has_record | None *) * bool (* panic *) :=
    let '(st1, entry, pan) :=
      match lookup_e (p_sid p) st with
      | Some e => (st, e, false)
      | None =>
          let same := filter (fun e => N.eqb (e_ty e) (p_ty p)) st in
          let pan := legacy_nil && existsb (fun e => negb (e_reader e)) same in
          let e := {| e_sid := p_sid p; e_ty := p_ty p; e_reader := false |} in
          (filter (fun e => negb (N.eqb (e_ty e) (p_ty p))) st ++ [e], e, pan)
      end in
    if pan then (st1, None, true)
    else
      let '(st2, opened) :=
        if e_reader entry then (st1, true)
        else if l_open_ok (p_lib p) then (set_reader (p_sid p) st1, true) else (st1, false) in
      if negb opened then (st2, None, false)
      else if negb (l_err_ok (p_lib p)) then (st2, None, false)
      else (st2, Some (l_next (p_lib p)), false).

  Fixpoint consume_loop (st : list centry) (ps : list payload) (acc : list (N * bool)) : list centry * cres :=
    match ps with
    | [] => (st, COk (rev acc))
    | p :: tl =>
        let '(st1, r, pan) := consume_one st p in
        if pan then (st1, CPanic)
        else match r with
             | None => (st1, CErr)
             | Some has => consume_loop st1 tl (if has then (p_ty p, p_decodes p) :: acc else acc)
             end
    end.

  Definition consume (st : list centry) (ps : list payload) : list centry * cres :=
    let '(st1, r) := consume_loop st ps [] in
    match r with
    | COk recs => if (length recs <? length ps)%nat then (st1, CErr) else (st1, COk recs)
    | other => (st1, other)
    end.
End Consume.

(* ---------------------------------------------------------------- dispatch *)
(* payload type codes (arrow_service.proto) *)
Definition T_SPANS : N := 40.   Definition T_LOGS : N := 30.   Definition T_METRICS : N := 10.
Definition known_types (signal : N) : list N :=
  match signal with
  | 0 => [1; 2; 40; 41; 42; 43; 44; 45]                                   (* traces *)
  | 1 => [1; 2; 30; 31]                                                   (* logs *)
  | _ => [1; 2; 10; 11; 12; 13; 14; 15; 16; 17; 18; 19; 20; 21; 22; 23; 24]  (* metrics *)
  end.
Definition main_type (signal : N) : N := match signal with 0 => T_SPANS | 1 => T_LOGS | _ => T_METRICS end.
(* tables of which RelatedDataFrom accepts a single record besides the main one *)
Definition single_types (signal : N) : list N :=
  match signal with
  | 0 => [42; 43]                                (* span events, span links *)
  | _ => []                                      (* logs, metrics: only the main record is checked *)
  end.

Inductive fres := FDecoded | FNothing | FErr | FPanic.

Definition count_ty (t : N) (recs : list (N * bool)) : nat := length (filter (fun r => N.eqb (fst r) t) recs).

(* RelatedDataFrom + the main decoder; ignore_err: the code before the fix dropped RelatedDataFrom's error
   in TracesFrom and LogsFrom *)
Definition dispatch (ignore_err : bool) (signal : N) (recs : list (N * bool)) : fres :=
  let bad :=
    existsb (fun r => negb (existsb (N.eqb (fst r)) (known_types signal))) recs ||
    (1 <? count_ty (main_type signal) recs)%nat ||
    existsb (fun t => (1 <? count_ty t recs)%nat) (single_types signal) ||
    existsb (fun r => negb (snd r)) recs in
  if bad then (if ignore_err then FNothing else FErr)
  else if (0 <? count_ty (main_type signal) recs)%nat then FDecoded else FNothing.

Definition from (legacy_nil ignore_err : bool) (signal : N) (st : list centry) (ps : list payload) : list centry * fres :=
  let '(st1, r) := consume legacy_nil st ps in
  (st1, match r with COk recs => dispatch ignore_err signal recs | CErr => FErr | CPanic => FPanic end).

(* ---------------------------------------------------------------- theorems *)

Lemma consume_loop_no_panic : forall ps st acc, snd (consume_loop false st ps acc) <> CPanic.
Proof.
  induction ps as [|p tl IH]; intros st acc; cbn [consume_loop]; [discriminate|].
  destruct (consume_one false st p) as [[st1 r] pan] eqn:E.
  assert (pan = false).
  { unfold consume_one in E. cbn [andb] in E.
    destruct (lookup_e (p_sid p) st) as [e|];
      repeat match type of E with context [if ?c then _ else _] => destruct c end; injection E; auto. }
  subst. destruct r as [has|]; [apply IH|discriminate].
Qed.

(* whatever the library answers, whatever the payload list and the consumer's state: no panic *)
Lemma from_no_panic signal st ps : snd (from false false signal st ps) <> FPanic.
Proof.
  unfold from, consume. pose proof (consume_loop_no_panic ps st []) as H.
  destruct (consume_loop false st ps []) as [st1 r]. cbn [snd] in H.
  destruct r as [recs| |]; try congruence.
  - destruct (length recs <? length ps)%nat; cbn [snd]; [discriminate|].
    unfold dispatch. repeat match goal with |- context [if ?c then _ else _] => destruct c end; discriminate.
  - cbn. discriminate.
Qed.

(* success is never returned while a main record that was read is discarded *)
Lemma from_main_not_discarded signal st ps st1 :
  from false false signal st ps = (st1, FNothing) ->
  forall recs, snd (consume false st ps) = COk recs -> count_ty (main_type signal) recs = 0%nat.
Proof.
  unfold from. destruct (consume false st ps) as [st2 r]. intros H recs Hr. cbn [snd] in Hr. subst r.
  injection H as _ H. unfold dispatch in H.
  destruct (_ || _ || _ || _); [discriminate|].
  destruct (0 <? count_ty (main_type signal) recs)%nat eqn:E; [discriminate|]. apply Nat.ltb_ge in E. lia.
Qed.

(* every payload read, none damaged: decoded *)
Lemma from_clean signal st ps recs :
  snd (consume false st ps) = COk recs ->
  Forall (fun r => In (fst r) (known_types signal) /\ snd r = true) recs ->
  count_ty (main_type signal) recs = 1%nat ->
  (forall t, In t (single_types signal) -> (count_ty t recs <= 1)%nat) ->
  snd (from false false signal st ps) = FDecoded.
Proof.
  unfold from. destruct (consume false st ps) as [st2 r]. cbn [snd]. intros -> Hall Hmain Hsing.
  unfold dispatch.
  assert (E1 : existsb (fun r => negb (existsb (N.eqb (fst r)) (known_types signal))) recs = false).
  { apply not_true_is_false. intros He. apply existsb_exists in He. destruct He as [r [Hr Hn]].
    rewrite Forall_forall in Hall. destruct (Hall r Hr) as [Hk _]. apply negb_true_iff in Hn.
    assert (existsb (N.eqb (fst r)) (known_types signal) = true) by (apply existsb_exists; exists (fst r); split; [exact Hk|apply N.eqb_refl]).
    congruence. }
  assert (E2 : (1 <? count_ty (main_type signal) recs)%nat = false) by (apply Nat.ltb_ge; lia).
  assert (E3 : existsb (fun t => (1 <? count_ty t recs)%nat) (single_types signal) = false).
  { apply not_true_is_false. intros He. apply existsb_exists in He. destruct He as [t [Ht Hc]]. apply Nat.ltb_lt in Hc.
    specialize (Hsing t Ht). lia. }
  assert (E4 : existsb (fun r => negb (snd r)) recs = false).
  { apply not_true_is_false. intros He. apply existsb_exists in He. destruct He as [r [Hr Hn]].
    rewrite Forall_forall in Hall. destruct (Hall r Hr) as [_ Hd]. rewrite Hd in Hn. discriminate. }
  rewrite E1, E2, E3, E4. cbn [orb]. assert (E5 : (0 <? count_ty (main_type signal) recs)%nat = true) by (apply Nat.ltb_lt; lia).
  rewrite E5. reflexivity.
Qed.

(* the recorded findings *)
Definition okl : lib := {| l_open_ok := true; l_next := true; l_err_ok := true |}.
Lemma legacy_discards_main :
  exists ps recs, snd (consume false [] ps) = COk recs /\ count_ty T_SPANS recs = 2%nat /\ snd (from false true 0 [] ps) = FNothing.
Proof.
  exists [{| p_sid := 1; p_ty := 40; p_lib := okl; p_decodes := true |}; {| p_sid := 2; p_ty := 40; p_lib := okl; p_decodes := true |}].
  eexists. split; [vm_compute; reflexivity|]. split; vm_compute; reflexivity.
Qed.
Lemma legacy_nil_reader_panics :
  exists st ps, snd (from true false 0 st ps) = FPanic.
Proof.
  exists [{| e_sid := 7; e_ty := 41; e_reader := false |}], [{| p_sid := 3; p_ty := 41; p_lib := okl; p_decodes := true |}].
  vm_compute. reflexivity.
Qed.

(* ---- what a record physically is, besides the label it travels under (C07: "payload types relabelled") ----
   A record is (label, true type, decodes-under-its-own-label).  Under its own label it decodes iff it is well formed.  A main
   record (SPANS / LOGS / UNIVARIATE_METRICS) has no parent_id column; every related-table decoder — attributes, and since
   the fix span events, span links, the four data-point tables and exemplars — requires it: a main record under a related
   label is refused ([strict]).  Before the fix the decoders of the tables with 32-bit ids looked every column up leniently and
   accepted it when every id was null ([strict = false], [lenient] = the decoder's verdict).  Other mislabelled records may or
   may not be accepted ([lenient]); that is the "decodable remainder". *)
Record rec3 := { r_label : N; r_true : N; r_wf : bool; r_lenient : bool }.

Definition is_main (t : N) : bool := N.eqb t T_SPANS || N.eqb t T_LOGS || N.eqb t T_METRICS.

Definition accepts (strict : bool) (r : rec3) : bool :=
  if N.eqb (r_label r) (r_true r) then r_wf r
  else if is_main (r_true r) then negb strict && r_lenient r
  else r_lenient r.

Definition dispatch3 (strict : bool) (signal : N) (recs : list rec3) : fres :=
  dispatch false signal (map (fun r => (r_label r, accepts strict r)) recs).

Lemma count_ty_map strict t recs :
  count_ty t (map (fun r => (r_label r, accepts strict r)) recs) = length (filter (fun r => N.eqb (r_label r) t) recs).
Proof.
  unfold count_ty. induction recs as [|r tl IH]; cbn [map filter fst]; [reflexivity|].
  destruct (N.eqb (r_label r) t); cbn [length]; rewrite IH; reflexivity.
Qed.

Lemma main_type_is_main signal : is_main (main_type signal) = true.
Proof. unfold is_main, main_type. destruct signal as [|[p|p|]]; reflexivity. Qed.

(* Whatever labels the records of a batch travel under: with the strict decoders success-with-nothing is never returned
   while a record that physically is the signal's main record is among those read. *)
Theorem main_never_discarded signal recs :
  (exists r, In r recs /\ r_true r = main_type signal) -> dispatch3 true signal recs <> FNothing.
Proof.
  intros (r & Hin & Htrue) H. unfold dispatch3, dispatch in H.
  set (recs' := map (fun r => (r_label r, accepts true r)) recs) in *.
  destruct (existsb (fun r0 => negb (existsb (N.eqb (fst r0)) (known_types signal))) recs' ||
            (1 <? count_ty (main_type signal) recs')%nat ||
            existsb (fun t => (1 <? count_ty t recs')%nat) (single_types signal) ||
            existsb (fun r0 => negb (snd r0)) recs') eqn:Ebad; [discriminate|].
  destruct (0 <? count_ty (main_type signal) recs')%nat eqn:Emain; [discriminate|].
  apply orb_false_iff in Ebad. destruct Ebad as [_ Edec].
  assert (Hacc : accepts true r = true).
  { destruct (accepts true r) eqn:Ea; [reflexivity|]. exfalso.
    assert (existsb (fun r0 => negb (snd r0)) recs' = true).
    { apply existsb_exists. exists (r_label r, accepts true r). split; [|cbn [snd]; rewrite Ea; reflexivity].
      unfold recs'. apply in_map_iff. exists r. split; [reflexivity|exact Hin]. }
    congruence. }
  unfold accepts in Hacc. destruct (N.eqb (r_label r) (r_true r)) eqn:El.
  - apply N.eqb_eq in El. apply Nat.ltb_ge in Emain. unfold recs' in Emain. rewrite count_ty_map in Emain.
    assert (Hf : In r (filter (fun r0 => N.eqb (r_label r0) (main_type signal)) recs)).
    { apply filter_In. split; [exact Hin|]. rewrite El, Htrue. apply N.eqb_refl. }
    destruct (filter (fun r0 => N.eqb (r_label r0) (main_type signal)) recs); [contradiction|cbn [length] in Emain; lia].
  - rewrite Htrue, main_type_is_main in Hacc. cbn [negb andb] in Hacc. discriminate.
Qed.

(* before the fix: bare spans (every id null) relabelled to span events were accepted as an events table *)
Example lenient_discards_relabelled_main :
  dispatch3 false 0 [{| r_label := 42; r_true := 40; r_wf := true; r_lenient := true |}] = FNothing /\
  dispatch3 true 0 [{| r_label := 42; r_true := 40; r_wf := true; r_lenient := true |}] = FErr.
Proof. split; vm_compute; reflexivity. Qed.
