(* Mem/Ownership.v — who releases the Arrow records a producer builds.
   recordBuilder: a record whose schema turned out not to be up to date is released before the rebuild (NewRecord
   releases it itself after detecting the dictionary overflow; the loop releases a non-nil record returned with an
   error).  Produce: every RecordMessage is released by a deferred call right after it has been written — also when
   writing it fails; the messages AFTER a failing one are not visited.  Close releases the builders. *)
From Verif Require Import Base.ListX.

(* the retry loop: attempts that fail build a record that is released; the last attempt's record is handed on *)
Inductive attempt := Rebuilt (built : bool) | Done.
Definition attempt_ledger (a : attempt) : Z := match a with Rebuilt true => 1 - 1 | Rebuilt false => 0 | Done => 1 end.
Definition loop_ledger (as_ : list attempt) : Z := fold_right Z.add 0%Z (map attempt_ledger as_).

Lemma loop_hands_on_one as_ : Forall (fun a => a <> Done) as_ -> loop_ledger (as_ ++ [Done]) = 1%Z.
Proof.
  intros H. unfold loop_ledger. induction as_ as [|a l IH]; cbn; [reflexivity|].
  inversion H as [|? ? Ha Hl]; subst. destruct a as [[|]|]; cbn in *; try congruence; rewrite (IH Hl); lia.
Qed.

(* Produce over the record messages: write outcomes (true = written); returns the messages released *)
Fixpoint produce_released (rms : list N) (ok : list bool) : list N * bool :=
  match rms, ok with
  | r :: tl, true :: oks => let '(rel, e) := produce_released tl oks in (r :: rel, e)
  | r :: _, false :: _ => ([r], true)          (* the deferred Release runs, then Produce returns the error *)
  | r :: tl, [] => let '(rel, e) := produce_released tl [] in (r :: rel, e)
  | [], _ => ([], false)
  end.

(* no write error (the only errors are those of the IPC writer): every record handed to Produce is released exactly once *)
Lemma produce_releases_all rms : produce_released rms (map (fun _ => true) rms) = (rms, false).
Proof. induction rms as [|r tl IH]; cbn; [reflexivity|]. rewrite IH. reflexivity. Qed.

(* observation (not reachable with valid input: it needs the IPC writer to fail): a failing write leaves the later
   records unreleased *)
Lemma produce_error_leaks : fst (produce_released [1; 2; 3] [true; false; true]) = [1; 2].
Proof. reflexivity. Qed.
