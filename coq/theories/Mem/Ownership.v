(* Mem/Ownership.v — who releases the Arrow records a producer builds.
   recordBuilder: a record whose schema turned out not to be up to date is released before the rebuild (NewRecord
   releases it itself after detecting the dictionary overflow; the loop releases a non-nil record returned with an
   error).  Produce: every RecordMessage is released by a deferred call right after it has been written — also when
   writing it fails; the messages AFTER a failing one are released by the error path (they were not before the fix).  Close releases the builders. *)
From Verif Require Import Base.ListX.

(* the retry loop: attempts that fail build a record that is released; the last attempt's record is handed on *)
Inductive attempt := Rebuilt (built : bool) | Done.
Definition attempt_ledger (a : attempt) : Z := match a with Rebuilt true => 1 - 1 | Rebuilt false => 0 | Done => 1 end.
Definition loop_ledger (as_ : list attempt) : Z := fold_right Z.add 0%Z (map attempt_ledger as_).

Lemma loop_hands_on_one as_ : Forall (fun a => a <> Done) as_ -> loop_ledger (as_ ++ [Done]) = 1%Z.
Proof.
  intros H. unfold loop_ledger. induction as_ as [|a l IH]; cbn; [reflexivity|].
  inversion H as [|? ? Ha Hl]; subst. destruct a as [[|]|]; cbn in *; try congruence; rewrite (IH Hl); lia.
Qed.

(* Produce over the record messages: write outcomes (true = written); returns the messages released and whether Produce
   returned an error.  [fixed]: the error path releases the messages behind the failing one (fix a8d92c38); before, they were
   not visited. *)
Fixpoint produce_released (fixed : bool) (rms : list N) (ok : list bool) : list N * bool :=
  match rms, ok with
  | r :: tl, true :: oks => let '(rel, e) := produce_released fixed tl oks in (r :: rel, e)
  | r :: tl, false :: _ => (if fixed then r :: tl else [r], true)   (* the deferred Release runs, then the error path *)
  | r :: tl, [] => let '(rel, e) := produce_released fixed tl [] in (r :: rel, e)
  | [], _ => ([], false)
  end.

(* whatever the IPC writer answers for each record (a caller-supplied allocator may refuse an allocation during a write):
   every record handed to Produce is released exactly once *)
Lemma produce_releases_all : forall rms ok, fst (produce_released true rms ok) = rms.
Proof.
  induction rms as [|r tl IH]; intros ok; cbn [produce_released]; [destruct ok; reflexivity|].
  destruct ok as [|[|] oks].
  - specialize (IH []). destruct (produce_released true tl []) as [rel e]. cbn [fst] in *. rewrite IH. reflexivity.
  - specialize (IH oks). destruct (produce_released true tl oks) as [rel e]. cbn [fst] in *. rewrite IH. reflexivity.
  - reflexivity.
Qed.

(* the code before the fix: a failing write leaves the later records unreleased *)
Lemma produce_error_leaked : fst (produce_released false [1; 2; 3] [true; false; true]) = [1; 2] /\
                             fst (produce_released true [1; 2; 3] [true; false; true]) = [1; 2; 3].
Proof. split; reflexivity. Qed.
