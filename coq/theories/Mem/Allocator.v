(* Mem/Allocator.v — model of common/arrow.LimitedAllocator (allocator.go) with the uint64
   arithmetic as written: `change := uint64(size - len(b))` wraps for a shrinking Reallocate and
   `l.inuse + change` / `l.inuse -= uint64(len(b))` are computed modulo 2^64. *)
From Verif Require Import Base.ListX.

Definition W : N := 2 ^ 64.
Definition u64_of_Z (z : Z) : N := Z.to_N (z mod (Z.of_N W)).
Definition add64 (a b : N) : N := (a + b) mod W.
Definition sub64 (a b : N) : N := (a + W - b mod W) mod W.

Record alloc := { inuse : N; limit : N }.

Inductive op :=
| Allocate (size : Z)                   (* Go int *)
| Reallocate (size : Z) (oldlen : N)    (* new size, len(b) *)
| Free (len : N).

(* LimitError{Request, Inuse, Limit} raised by panic *)
Record limit_error := { le_request : N; le_inuse : N; le_limit : N }.

Definition step (a : alloc) (o : op) : alloc * option limit_error :=
  match o with
  | Allocate size =>
      let change := u64_of_Z size in
      if limit a <? add64 (inuse a) change
      then (a, Some {| le_request := change; le_inuse := inuse a; le_limit := limit a |})
      else ({| inuse := add64 (inuse a) change; limit := limit a |}, None)
  | Reallocate size oldlen =>
      let change := u64_of_Z (size - Z.of_N oldlen) in
      if limit a <? add64 (inuse a) change
      then (a, Some {| le_request := change; le_inuse := inuse a; le_limit := limit a |})
      else ({| inuse := add64 (inuse a) change; limit := limit a |}, None)
  | Free len => ({| inuse := sub64 (inuse a) len; limit := limit a |}, None)
  end.

(* ---- well-bracketed use: what the Arrow library does with an allocator ----
   The client holds a multiset of live blocks; it allocates blocks of non-negative size, resizes or
   frees blocks it holds.  A refused request leaves the block set unchanged (the panic unwinds). *)
Inductive cop :=
| CAlloc (size : N)
| CRealloc (i : nat) (size : N)     (* resize live block i *)
| CFree (i : nat).

Fixpoint remove_nth {A} (i : nat) (l : list A) : list A :=
  match l, i with [], _ => [] | _ :: tl, O => tl | a :: tl, S j => a :: remove_nth j tl end.
Fixpoint replace_nth {A} (i : nat) (x : A) (l : list A) : list A :=
  match l, i with [], _ => [] | _ :: tl, O => x :: tl | a :: tl, S j => a :: replace_nth j x tl end.

Definition cstep (st : alloc * list N) (c : cop) : (alloc * list N) * option limit_error :=
  let '(a, live) := st in
  match c with
  | CAlloc size =>
      let '(a', e) := step a (Allocate (Z.of_N size)) in
      match e with None => ((a', live ++ [size]), None) | Some le => ((a', live), Some le) end
  | CRealloc i size =>
      match nth_error live i with
      | None => (st, None)
      | Some old =>
          let '(a', e) := step a (Reallocate (Z.of_N size) old) in
          match e with None => ((a', replace_nth i size live), None) | Some le => ((a', live), Some le) end
      end
  | CFree i =>
      match nth_error live i with
      | None => (st, None)
      | Some old => let '(a', _) := step a (Free old) in ((a', remove_nth i live), None)
      end
  end.

Fixpoint crun (st : alloc * list N) (cs : list cop) : (alloc * list N) * list (option limit_error) :=
  match cs with
  | [] => (st, [])
  | c :: tl => let '(st1, e) := cstep st c in let '(st2, es) := crun st1 tl in (st2, e :: es)
  end.

Definition AInv (st : alloc * list N) : Prop :=
  inuse (fst st) = sumN (snd st) /\ inuse (fst st) <= limit (fst st).

Definition small (n : N) : Prop := n < 2 ^ 62.      (* sizes are non-negative Go ints; limits are far below 2^63 *)

Lemma sumN_remove_nth l : forall i x, nth_error l i = Some x -> sumN (remove_nth i l) + x = sumN l.
Proof.
  induction l as [|a l IH]; intros [|i] x H; cbn [nth_error remove_nth] in *; try discriminate.
  - injection H as ->. rewrite sumN_cons. lia.
  - rewrite !sumN_cons. specialize (IH i x H). lia.
Qed.

Lemma sumN_replace_nth l : forall i x y, nth_error l i = Some x -> sumN (replace_nth i y l) + x = sumN l + y.
Proof.
  induction l as [|a l IH]; intros [|i] x y H; cbn [nth_error replace_nth] in *; try discriminate.
  - injection H as ->. rewrite !sumN_cons. lia.
  - rewrite !sumN_cons. specialize (IH i x y H). lia.
Qed.

Lemma nth_le_sum l : forall i x, nth_error l i = Some x -> x <= sumN l.
Proof.
  induction l as [|a l IH]; intros [|i] x H; cbn [nth_error] in *; try discriminate.
  - injection H as ->. rewrite sumN_cons. lia.
  - rewrite sumN_cons. specialize (IH i x H). lia.
Qed.

Lemma W_val : W = 18446744073709551616.
Proof. reflexivity. Qed.

Lemma u64_of_nonneg n : n < W -> u64_of_Z (Z.of_N n) = n.
Proof.
  intros H. unfold u64_of_Z. rewrite Z.mod_small; [apply N2Z.id|]. split; [lia|]. rewrite W_val in *. lia.
Qed.

Lemma u64_of_diff new old : new < W -> old < W ->
  u64_of_Z (Z.of_N new - Z.of_N old) = if old <=? new then new - old else W - (old - new).
Proof.
  intros Hn Ho. unfold u64_of_Z. rewrite W_val in *. destruct (old <=? new) eqn:E.
  - apply N.leb_le in E. rewrite Z.mod_small by lia. lia.
  - apply N.leb_gt in E.
    replace (Z.of_N new - Z.of_N old)%Z with ((Z.of_N new - Z.of_N old + 18446744073709551616) + (-1) * 18446744073709551616)%Z by lia.
    rewrite Z.mod_add by lia. rewrite Z.mod_small by lia. lia.
Qed.

(* One client operation keeps: in-use = sum of live blocks <= limit; a refusal changes nothing
   and reports the request, the in-use value and the limit. *)
Lemma cstep_inv st c st1 e :
  AInv st -> limit (fst st) < 2 ^ 62 -> (forall s, c = CAlloc s \/ (exists i, c = CRealloc i s) -> small s) ->
  cstep st c = (st1, e) ->
  AInv st1 /\ limit (fst st1) = limit (fst st) /\
  (forall le, e = Some le -> st1 = st /\ le_limit le = limit (fst st) /\ le_inuse le = inuse (fst st) /\
                             limit (fst st) < inuse (fst st) + le_request le).
Proof.
  destruct st as [a live]. unfold AInv. cbn [fst snd]. intros [Hs Hl] Hlim Hsm H.
  assert (HW : W = 18446744073709551616) by reflexivity.
  assert (H62 : 2 ^ 62 = 4611686018427387904) by reflexivity.
  destruct c as [size|i size|i]; cbn [cstep] in H.
  - assert (Hsz : small size) by (apply Hsm; left; reflexivity). unfold small in Hsz.
    cbn [step] in H. rewrite u64_of_nonneg in H by lia. unfold add64 in H.
    rewrite N.mod_small in H by lia.
    destruct (limit a <? inuse a + size) eqn:E.
    + injection H as <- <-. cbn [fst snd]. split; [split; assumption|]. split; [reflexivity|].
      intros le Hle. injection Hle as <-. cbn. apply N.ltb_lt in E. repeat split; lia.
    + injection H as <- <-. cbn [fst snd inuse limit]. apply N.ltb_ge in E.
      split; [split; [rewrite sumN_app, sumN_cons; cbn [sumN fold_right]; lia|lia]|]. split; [reflexivity|]. discriminate.
  - destruct (nth_error live i) as [old|] eqn:En.
    2:{ injection H as <- <-. cbn [fst snd]. split; [split; assumption|]. split; [reflexivity|]. discriminate. }
    assert (Hsz : small size) by (apply Hsm; right; exists i; reflexivity). unfold small in Hsz.
    pose proof (nth_le_sum _ _ _ En) as Hold.
    cbn [step] in H. rewrite u64_of_diff in H by lia. unfold add64 in H.
    destruct (old <=? size) eqn:Eo.
    + apply N.leb_le in Eo. rewrite N.mod_small in H by lia.
      destruct (limit a <? inuse a + (size - old)) eqn:E.
      * injection H as <- <-. cbn [fst snd]. split; [split; assumption|]. split; [reflexivity|].
        intros le Hle. injection Hle as <-. cbn. apply N.ltb_lt in E. repeat split; lia.
      * injection H as <- <-. cbn [fst snd inuse limit]. apply N.ltb_ge in E.
        pose proof (sumN_replace_nth _ _ _ size En). split; [split; lia|]. split; [reflexivity|]. discriminate.
    + apply N.leb_gt in Eo.
      replace (inuse a + (W - (old - size))) with ((inuse a - (old - size)) + 1 * W) in H by lia.
      rewrite N.mod_add in H by lia. rewrite N.mod_small in H by lia.
      destruct (limit a <? inuse a - (old - size)) eqn:E; [apply N.ltb_lt in E; lia|].
      injection H as <- <-. cbn [fst snd inuse limit].
      pose proof (sumN_replace_nth _ _ _ size En). split; [split; lia|]. split; [reflexivity|]. discriminate.
  - destruct (nth_error live i) as [old|] eqn:En.
    2:{ injection H as <- <-. cbn [fst snd]. split; [split; assumption|]. split; [reflexivity|]. discriminate. }
    pose proof (nth_le_sum _ _ _ En) as Hold. cbn [step] in H. injection H as <- <-. cbn [fst snd inuse limit].
    pose proof (sumN_remove_nth _ _ _ En). unfold sub64.
    rewrite (N.mod_small old) by lia.
    replace (inuse a + W - old) with ((inuse a - old) + 1 * W) by lia.
    rewrite N.mod_add by lia. rewrite N.mod_small by lia.
    split; [split; lia|]. split; [reflexivity|]. discriminate.
Qed.

Definition cops_small (cs : list cop) : Prop :=
  Forall (fun c => forall s, c = CAlloc s \/ (exists i, c = CRealloc i s) -> small s) cs.

Lemma crun_inv : forall cs st st1 es,
  AInv st -> limit (fst st) < 2 ^ 62 -> cops_small cs -> crun st cs = (st1, es) ->
  AInv st1 /\ limit (fst st1) = limit (fst st).
Proof.
  induction cs as [|c tl IH]; intros st st1 es HI Hl Hs H; cbn [crun] in H.
  - injection H as <- <-. split; [exact HI|reflexivity].
  - destruct (cstep st c) as [sa e] eqn:E1. destruct (crun sa tl) as [sb es'] eqn:E2. injection H as <- <-.
    inversion Hs as [|? ? Hc Htl]; subst.
    apply cstep_inv in E1; [|exact HI|exact Hl|exact Hc]. destruct E1 as (HIa & Hla & _).
    apply IH in E2; [|exact HIa|rewrite Hla; exact Hl|exact Htl]. destruct E2 as [HIb Hlb].
    split; [exact HIb|congruence].
Qed.

(* raising the limit: whatever succeeded still succeeds, with the same in-use values *)
Lemma cstep_monotone a a' live c st1 :
  inuse a = inuse a' -> limit a <= limit a' -> cstep (a, live) c = (st1, None) ->
  exists a1', cstep (a', live) c = ((a1', snd st1), None) /\ inuse (fst st1) = inuse a1' /\ limit a1' = limit a' /\ limit (fst st1) = limit a.
Proof.
  intros Hi Hl H. destruct c as [size|i size|i]; cbn [cstep] in *.
  - cbn [step] in *. rewrite <- Hi.
    destruct (limit a <? add64 (inuse a) (u64_of_Z (Z.of_N size))) eqn:E; [discriminate|].
    injection H as <-. apply N.ltb_ge in E.
    assert (E' : limit a' <? add64 (inuse a) (u64_of_Z (Z.of_N size)) = false) by (apply N.ltb_ge; lia).
    rewrite E'. eexists. split; [reflexivity|]. cbn. auto.
  - destruct (nth_error live i) as [old|]; [|injection H as <-; eexists; split; [reflexivity|]; cbn; auto].
    cbn [step] in *. rewrite <- Hi.
    destruct (limit a <? add64 (inuse a) (u64_of_Z (Z.of_N size - Z.of_N old))) eqn:E; [discriminate|].
    injection H as <-. apply N.ltb_ge in E.
    assert (E' : limit a' <? add64 (inuse a) (u64_of_Z (Z.of_N size - Z.of_N old)) = false) by (apply N.ltb_ge; lia).
    rewrite E'. eexists. split; [reflexivity|]. cbn. auto.
  - destruct (nth_error live i) as [old|]; [|injection H as <-; eexists; split; [reflexivity|]; cbn; auto].
    cbn [step] in *. injection H as <-. rewrite <- Hi. eexists. split; [reflexivity|]. cbn. auto.
Qed.

(* errors.Is(err, ErrConsumerMemoryLimit): LimitError.Is accepts any LimitError target; errors.Is
   walks the Unwrap chain (werror.Wrap, fmt.Errorf("%w"), errors.Join) *)
Inductive gerr := GLimit (le : limit_error) | GOther (id : N) | GWrap (e : gerr) | GJoin (a b : gerr).
Fixpoint is_limit (e : gerr) : bool :=
  match e with GLimit _ => true | GOther _ => false | GWrap e' => is_limit e' | GJoin a b => is_limit a || is_limit b end.
Fixpoint contains_limit (e : gerr) : Prop :=
  match e with GLimit _ => True | GOther _ => False | GWrap e' => contains_limit e' | GJoin a b => contains_limit a \/ contains_limit b end.
Lemma is_limit_iff e : is_limit e = true <-> contains_limit e.
Proof.
  induction e as [| |e IH|a IHa b IHb]; cbn; try tauto.
  - split; [discriminate|tauto].
  - rewrite orb_true_iff, IHa, IHb. tauto.
Qed.
