(* Batch/Resp.v — the response protocol between export goroutines and callers (C11 liveness, C06).

   Code (batch_processor.go):
     consumeBatch:  respCh := make(chan countedError, 1); newItem <- item; waitForItems(ctx, numItems, respCh)
     waitForItems:  for { select { case r := <-respCh: numItems -= r.count; if numItems == 0 {return}
                                   case <-ctx.Done(): return } }
     export goroutine, after the export call returned:
                    for each tuple (waiter, count, ctx) of the batch, in order:
                      select { case waiter <- countedError{err,count}:   (blocks while the 1-slot buffer is full)
                               case <-ctx.Done(): }
   A counting slip (a caller leaving before everything addressed to it was delivered, with its context
   alive) would leave an export goroutine blocked for ever on a full channel, Shutdown would then wait for
   ever on the WaitGroup.  The model: callers with their remaining count, their one-slot channel and their
   context; exports as queues of tuples still to be answered; [future] is what the shard still holds for a
   caller (pending entries not yet cut into a batch) — Shard.v proves it is what the caller submitted minus
   what has been cut (waiter_accounting), which is the precondition of [Spawn].

   Theorems: the accounting invariant holds in every reachable state; in every reachable state every export
   that still has a tuple to answer has an enabled step of its own or is waiting for a caller that has an
   enabled receive (no deadlock); every response-phase step decreases a measure, so under any scheduler the
   exports finish (no goroutine left behind). *)
From Verif Require Import Base.ListX.
Local Open Scope Z_scope.

Record caller := { rem : Z; cbuf : option Z; returned : bool; ctx_done : bool; future : Z }.
Definition tup := (nat * Z)%type.                       (* waiter index, count *)
Record rstate := { ncallers : nat; callers : nat -> caller; queues : list (list tup) }.

Inductive rev :=
| NewCaller (n : Z)            (* consumeBatch: a request with n > 0 items entered the shard *)
| Spawn (ts : list tup)        (* sendItems cut a batch: its tuples leave `future` and become an export's queue *)
| Deliver (i : nat)            (* export i: `waiter <- countedError` succeeded (buffer slot was free) *)
| Skip (i : nat)               (* export i: `<-ctx.Done()` of the tuple's caller *)
| Receive (w : nat)            (* caller w: `r := <-respCh` *)
| Cancel (w : nat)             (* caller w's context ends *)
| CtxReturn (w : nat).         (* caller w: `<-ctx.Done()` in waitForItems *)

Definition rinit : rstate := {| ncallers := 0; callers := fun _ => {| rem := 0; cbuf := None; returned := true; ctx_done := false; future := 0 |}; queues := [] |}.

Definition upd (f : nat -> caller) (k : nat) (v : caller) : nat -> caller := fun j => if Nat.eqb j k then v else f j.

Lemma upd_same f k v : upd f k v k = v.
Proof. unfold upd. rewrite Nat.eqb_refl. reflexivity. Qed.
Lemma upd_other f k v j : j <> k -> upd f k v j = f j.
Proof. intros H. unfold upd. destruct (Nat.eqb j k) eqn:E; [apply Nat.eqb_eq in E; contradiction|reflexivity]. Qed.

Definition contrib (k : nat) (ts : list tup) : Z :=
  fold_right Z.add 0 (map (fun t : tup => if Nat.eqb (fst t) k then snd t else 0) ts).
Definition undeliv (k : nat) (qs : list (list tup)) : Z := fold_right Z.add 0 (map (contrib k) qs).

Fixpoint set_q (i : nat) (q : list tup) (qs : list (list tup)) : list (list tup) :=
  match qs, i with
  | [], _ => []
  | _ :: tl, O => q :: tl
  | a :: tl, S j => a :: set_q j q tl
  end.

Definition tuples_ok (n : nat) (ts : list tup) : bool := forallb (fun t : tup => Nat.ltb (fst t) n && (0 <? snd t)) ts.
Definition within_future (st : rstate) (ts : list tup) : bool :=
  forallb (fun k => contrib k ts <=? future (callers st k)) (seq 0 (ncallers st)).

Definition rstep (st : rstate) (e : rev) : option rstate :=
  match e with
  | NewCaller n =>
      if 0 <? n then
        Some {| ncallers := S (ncallers st);
                callers := upd (callers st) (ncallers st) {| rem := n; cbuf := None; returned := false; ctx_done := false; future := n |};
                queues := queues st |}
      else None
  | Spawn ts =>
      if tuples_ok (ncallers st) ts && within_future st ts then
        Some {| ncallers := ncallers st;
                callers := fun k => let c := callers st k in
                                    {| rem := rem c; cbuf := cbuf c; returned := returned c; ctx_done := ctx_done c;
                                       future := future c - contrib k ts |};
                queues := queues st ++ [ts] |}
      else None
  | Deliver i =>
      match nth_error (queues st) i with
      | Some ((w, c) :: tl) =>
          let cw := callers st w in
          match cbuf cw with
          | None => Some {| ncallers := ncallers st;
                            callers := upd (callers st) w {| rem := rem cw; cbuf := Some c; returned := returned cw; ctx_done := ctx_done cw; future := future cw |};
                            queues := set_q i tl (queues st) |}
          | Some _ => None
          end
      | _ => None
      end
  | Skip i =>
      match nth_error (queues st) i with
      | Some ((w, c) :: tl) =>
          if ctx_done (callers st w) then Some {| ncallers := ncallers st; callers := callers st; queues := set_q i tl (queues st) |} else None
      | _ => None
      end
  | Receive w =>
      let cw := callers st w in
      if Nat.ltb w (ncallers st) && negb (returned cw) then
        match cbuf cw with
        | Some c => Some {| ncallers := ncallers st;
                            callers := upd (callers st) w {| rem := rem cw - c; cbuf := None; returned := (rem cw - c =? 0); ctx_done := ctx_done cw; future := future cw |};
                            queues := queues st |}
        | None => None
        end
      else None
  | Cancel w =>
      let cw := callers st w in
      if Nat.ltb w (ncallers st) then
        Some {| ncallers := ncallers st;
                callers := upd (callers st) w {| rem := rem cw; cbuf := cbuf cw; returned := returned cw; ctx_done := true; future := future cw |};
                queues := queues st |}
      else None
  | CtxReturn w =>
      let cw := callers st w in
      if Nat.ltb w (ncallers st) && negb (returned cw) && ctx_done cw then
        Some {| ncallers := ncallers st;
                callers := upd (callers st) w {| rem := rem cw; cbuf := cbuf cw; returned := true; ctx_done := true; future := future cw |};
                queues := queues st |}
      else None
  end.

Fixpoint rrun (st : rstate) (evs : list rev) : option rstate :=
  match evs with
  | [] => Some st
  | e :: tl => match rstep st e with Some s1 => rrun s1 tl | None => None end
  end.

(* ------------------------------------------------------------------ invariant *)
Definition bufc (c : caller) : Z := match cbuf c with Some x => x | None => 0 end.

Definition caller_ok (st : rstate) (k : nat) : Prop :=
  let c := callers st k in
  0 <= future c /\ 0 <= undeliv k (queues st) /\ (forall x, cbuf c = Some x -> 0 < x) /\
  (ctx_done c = false -> rem c = bufc c + undeliv k (queues st) + future c) /\
  (returned c = true -> ctx_done c = false -> rem c = 0).

Definition queues_ok (st : rstate) : Prop :=
  Forall (fun q => Forall (fun t : tup => (fst t < ncallers st)%nat /\ 0 < snd t) q) (queues st).

Definition RInv (st : rstate) : Prop := (forall k, (k < ncallers st)%nat -> caller_ok st k) /\ queues_ok st.

Lemma contrib_nonneg k ts : Forall (fun t : tup => 0 < snd t) ts -> 0 <= contrib k ts.
Proof.
  unfold contrib. induction ts as [|t tl IH]; intros H; cbn [map fold_right]; [lia|].
  inversion H; subst. specialize (IH H3). destruct (Nat.eqb (fst t) k); lia.
Qed.

Lemma undeliv_app k a b : undeliv k (a ++ b) = undeliv k a + undeliv k b.
Proof. unfold undeliv. induction a as [|x a IH]; cbn [app map fold_right]; [lia|]. rewrite IH. lia. Qed.

Lemma undeliv_set_q k : forall qs i q q0,
  nth_error qs i = Some q0 -> undeliv k (set_q i q qs) = undeliv k qs - contrib k q0 + contrib k q.
Proof.
  unfold undeliv. induction qs as [|a tl IH]; intros i q q0 H; destruct i as [|j]; cbn in H; try discriminate.
  - injection H as <-. cbn [set_q map fold_right]. lia.
  - cbn [set_q map fold_right]. rewrite (IH j q q0 H). lia.
Qed.

Lemma contrib_cons k w c tl : contrib k ((w, c) :: tl) = (if Nat.eqb w k then c else 0) + contrib k tl.
Proof. reflexivity. Qed.

Lemma queues_ok_set_q n : forall qs i q,
  Forall (fun q => Forall (fun t : tup => (fst t < n)%nat /\ 0 < snd t) q) qs ->
  Forall (fun t : tup => (fst t < n)%nat /\ 0 < snd t) q ->
  Forall (fun q => Forall (fun t : tup => (fst t < n)%nat /\ 0 < snd t) q) (set_q i q qs).
Proof.
  induction qs as [|a tl IH]; intros i q H Hq; destruct i; cbn [set_q]; try constructor; inversion H; subst; try assumption.
  apply IH; assumption.
Qed.

Lemma nth_error_Forall {A} (P : A -> Prop) l i x : Forall P l -> nth_error l i = Some x -> P x.
Proof. intros H Hn. apply nth_error_In in Hn. rewrite Forall_forall in H. apply H. exact Hn. Qed.

Lemma within_future_spec st ts k : within_future st ts = true -> (k < ncallers st)%nat -> contrib k ts <= future (callers st k).
Proof.
  unfold within_future. intros H Hk. rewrite forallb_forall in H. specialize (H k). apply Z.leb_le. apply H.
  apply in_seq. lia.
Qed.

Lemma tuples_ok_spec n ts : tuples_ok n ts = true -> Forall (fun t : tup => (fst t < n)%nat /\ 0 < snd t) ts.
Proof.
  unfold tuples_ok. intros H. rewrite forallb_forall in H. apply Forall_forall. intros t Ht. specialize (H t Ht).
  apply andb_true_iff in H. destruct H as [H1 H2]. apply Nat.ltb_lt in H1. lia.
Qed.

Lemma Forall_weaken_mono (n m : nat) (q : list tup) :
  (n <= m)%nat -> Forall (fun t : tup => (fst t < n)%nat /\ 0 < snd t) q -> Forall (fun t : tup => (fst t < m)%nat /\ 0 < snd t) q.
Proof. intros Hle H. eapply Forall_impl; [|exact H]. intros t [H1 H2]. split; [lia|exact H2]. Qed.

Lemma contrib_out_of_range k n q : Forall (fun t : tup => (fst t < n)%nat /\ 0 < snd t) q -> (n <= k)%nat -> contrib k q = 0.
Proof.
  unfold contrib. induction q as [|t tl IH]; intros H Hk; cbn [map fold_right]; [reflexivity|].
  inversion H as [|? ? [H1 H2] H3]; subst. rewrite (IH H3 Hk).
  destruct (Nat.eqb (fst t) k) eqn:E; [apply Nat.eqb_eq in E; lia|lia].
Qed.

Lemma undeliv_out_of_range k n qs :
  Forall (fun q => Forall (fun t : tup => (fst t < n)%nat /\ 0 < snd t) q) qs -> (n <= k)%nat -> undeliv k qs = 0.
Proof.
  unfold undeliv. induction qs as [|q tl IH]; intros H Hk; cbn [map fold_right]; [reflexivity|].
  inversion H; subst. rewrite (IH H3 Hk), (contrib_out_of_range k n q H2 Hk). lia.
Qed.

Lemma undeliv_nonneg k n qs :
  Forall (fun q => Forall (fun t : tup => (fst t < n)%nat /\ 0 < snd t) q) qs -> 0 <= undeliv k qs.
Proof.
  unfold undeliv. induction qs as [|q tl IH]; intros H; cbn [map fold_right]; [lia|].
  inversion H; subst. specialize (IH H3).
  assert (0 <= contrib k q) by (apply contrib_nonneg; eapply Forall_impl; [|exact H2]; intros t [_ Ht]; exact Ht). lia.
Qed.

Lemma undeliv_pop k qs i w c tl :
  nth_error qs i = Some ((w, c) :: tl) -> undeliv k (set_q i tl qs) = undeliv k qs - (if Nat.eqb w k then c else 0).
Proof. intros H. rewrite (undeliv_set_q k qs i tl _ H), contrib_cons. lia. Qed.

Lemma RInv_init : RInv rinit.
Proof. split; [intros k Hk; cbn in Hk; lia|constructor]. Qed.

Lemma rstep_inv st e st1 : RInv st -> rstep st e = Some st1 -> RInv st1.
Proof.
  intros [Hc Hq] H. destruct e as [n|ts|i|i|w|w|w]; cbn [rstep] in H.
  - (* NewCaller *)
    destruct (0 <? n) eqn:En; [|discriminate]. injection H as <-. apply Z.ltb_lt in En. split.
    + intros k Hk. cbn [ncallers] in Hk. unfold caller_ok. cbn [callers queues]. unfold upd.
      destruct (Nat.eqb k (ncallers st)) eqn:E.
      * apply Nat.eqb_eq in E. subst k. cbn [rem cbuf returned ctx_done future bufc].
        rewrite (undeliv_out_of_range (ncallers st) (ncallers st) (queues st) Hq (Nat.le_refl _)).
        repeat split; try lia; try discriminate.
      * apply Nat.eqb_neq in E. apply (Hc k). lia.
    + unfold queues_ok in *. cbn [queues ncallers]. eapply Forall_impl; [|exact Hq].
      intros q Hq0. eapply Forall_weaken_mono; [|exact Hq0]. lia.
  - (* Spawn *)
    destruct (tuples_ok (ncallers st) ts && within_future st ts) eqn:E; [|discriminate]. injection H as <-.
    apply andb_true_iff in E. destruct E as [E1 E2]. pose proof (tuples_ok_spec _ _ E1) as Hts. split.
    + intros k Hk. cbn [ncallers] in Hk. specialize (Hc k Hk). unfold caller_ok in *. cbn [callers queues rem cbuf returned ctx_done future bufc].
      destruct Hc as (H1 & H2 & H3 & H4 & H5). rewrite undeliv_app.
      assert (Hu1 : undeliv k [ts] = contrib k ts) by (unfold undeliv; cbn [map fold_right]; lia). rewrite Hu1.
      unfold bufc. cbn [cbuf].
      pose proof (within_future_spec st ts k E2 Hk) as Hw.
      assert (Hcn : 0 <= contrib k ts) by (apply contrib_nonneg; eapply Forall_impl; [|exact Hts]; intros t [_ Ht]; exact Ht).
      repeat split; try lia; try assumption.
      intros Hd. specialize (H4 Hd). unfold bufc in *. lia.
    + unfold queues_ok in *. cbn [queues ncallers]. apply Forall_app. split; [exact Hq|repeat constructor; exact Hts].
  - (* Deliver *)
    destruct (nth_error (queues st) i) as [[|[w c] tl]|] eqn:En; try discriminate.
    destruct (cbuf (callers st w)) eqn:Eb; [discriminate|]. injection H as <-.
    pose proof (nth_error_Forall _ _ _ _ Hq En) as Hq0. inversion Hq0 as [|? ? [Hw Hcpos] Htl]; subst. cbn [fst snd] in *.
    assert (Hq1 : Forall (fun q => Forall (fun t : tup => (fst t < ncallers st)%nat /\ 0 < snd t) q) (set_q i tl (queues st)))
      by (apply queues_ok_set_q; assumption).
    split; [|exact Hq1].
    intros k Hk. cbn [ncallers] in Hk. specialize (Hc k Hk). unfold caller_ok in *. cbn [callers queues]. unfold upd.
    pose proof (undeliv_pop k _ _ _ _ _ En) as Hpop. pose proof (undeliv_nonneg k _ _ Hq1) as Hnn.
    destruct Hc as (H1 & H2 & H3 & H4 & H5).
    destruct (Nat.eqb k w) eqn:E.
    + apply Nat.eqb_eq in E. subst k. rewrite Nat.eqb_refl in Hpop. cbn [rem cbuf returned ctx_done future bufc].
      unfold bufc in H4. rewrite Eb in H4.
      repeat split; try lia; try (intros x Hx; injection Hx as <-; exact Hcpos);
        try (intros Hd; specialize (H4 Hd); lia); try (intros Hr Hd; specialize (H5 Hr Hd); specialize (H4 Hd); lia).
    + assert (Ewk : Nat.eqb w k = false) by (apply Nat.eqb_neq; apply Nat.eqb_neq in E; congruence).
      rewrite Ewk in Hpop. rewrite Hpop, Z.sub_0_r. repeat split; assumption.
  - (* Skip *)
    destruct (nth_error (queues st) i) as [[|[w c] tl]|] eqn:En; try discriminate.
    destruct (ctx_done (callers st w)) eqn:Ed; [|discriminate]. injection H as <-.
    pose proof (nth_error_Forall _ _ _ _ Hq En) as Hq0. inversion Hq0 as [|? ? [Hw Hcpos] Htl]; subst. cbn [fst snd] in *.
    assert (Hq1 : Forall (fun q => Forall (fun t : tup => (fst t < ncallers st)%nat /\ 0 < snd t) q) (set_q i tl (queues st)))
      by (apply queues_ok_set_q; assumption).
    split; [|exact Hq1].
    intros k Hk. cbn [ncallers] in Hk. specialize (Hc k Hk). unfold caller_ok in *. cbn [callers queues].
    pose proof (undeliv_pop k _ _ _ _ _ En) as Hpop. pose proof (undeliv_nonneg k _ _ Hq1) as Hnn.
    destruct Hc as (H1 & H2 & H3 & H4 & H5).
    destruct (Nat.eqb w k) eqn:E.
    + apply Nat.eqb_eq in E. subst k. repeat split; try assumption; try lia; intros; congruence.
    + rewrite Hpop, Z.sub_0_r. repeat split; assumption.
  - (* Receive *)
    destruct (Nat.ltb w (ncallers st) && negb (returned (callers st w))) eqn:E; [|discriminate].
    destruct (cbuf (callers st w)) as [c|] eqn:Eb; [|discriminate]. injection H as <-.
    apply andb_true_iff in E. destruct E as [E1 E2]. apply Nat.ltb_lt in E1. split.
    + intros k Hk. cbn [ncallers] in Hk. pose proof (Hc k Hk) as Hck. unfold caller_ok in *. cbn [callers queues]. unfold upd.
      destruct (Nat.eqb k w) eqn:E.
      * apply Nat.eqb_eq in E. subst k. cbn [rem cbuf returned ctx_done future bufc].
        destruct Hck as (H1 & H2 & H3 & H4 & H5). unfold bufc in H4. rewrite Eb in H4.
        repeat split; try lia; try discriminate;
          try (intros Hd; specialize (H4 Hd); lia); try (intros Hr _; apply Z.eqb_eq in Hr; exact Hr).
      * exact Hck.
    + exact Hq.
  - (* Cancel *)
    destruct (Nat.ltb w (ncallers st)) eqn:E1; [|discriminate]. injection H as <-. split.
    + intros k Hk. cbn [ncallers] in Hk. pose proof (Hc k Hk) as Hck. unfold caller_ok in *. cbn [callers queues]. unfold upd.
      destruct (Nat.eqb k w) eqn:E; [|exact Hck].
      apply Nat.eqb_eq in E. subst k. cbn [rem cbuf returned ctx_done future bufc].
      destruct Hck as (H1 & H2 & H3 & H4 & H5). repeat split; try assumption; intros; discriminate.
    + exact Hq.
  - (* CtxReturn *)
    destruct (Nat.ltb w (ncallers st) && negb (returned (callers st w)) && ctx_done (callers st w)) eqn:E1; [|discriminate]. injection H as <-. split.
    + intros k Hk. cbn [ncallers] in Hk. pose proof (Hc k Hk) as Hck. unfold caller_ok in *. cbn [callers queues]. unfold upd.
      destruct (Nat.eqb k w) eqn:E; [|exact Hck].
      apply Nat.eqb_eq in E. subst k. cbn [rem cbuf returned ctx_done future bufc].
      destruct Hck as (H1 & H2 & H3 & H4 & H5). repeat split; try assumption; intros; discriminate.
    + exact Hq.
Qed.

Lemma rrun_inv : forall evs st st1, RInv st -> rrun st evs = Some st1 -> RInv st1.
Proof.
  induction evs as [|e tl IH]; intros st st1 HI H; cbn [rrun] in H.
  - injection H as <-. exact HI.
  - destruct (rstep st e) as [s1|] eqn:E; [|discriminate]. eapply IH; [eapply rstep_inv; eassumption|exact H].
Qed.

(* ------------------------------------------------------------------ no deadlock *)
Lemma contrib_head_le w c tl : Forall (fun t : tup => 0 < snd t) tl -> c <= contrib w ((w, c) :: tl).
Proof. intros H. rewrite contrib_cons, Nat.eqb_refl. pose proof (contrib_nonneg w tl H). lia. Qed.

Lemma undeliv_ge_contrib k n : forall qs i q,
  Forall (fun q => Forall (fun t : tup => (fst t < n)%nat /\ 0 < snd t) q) qs ->
  nth_error qs i = Some q -> contrib k q <= undeliv k qs.
Proof.
  unfold undeliv. induction qs as [|a l IH]; intros i q Hq H; destruct i; cbn in H; try discriminate.
  - injection H as ->. cbn [map fold_right]. inversion Hq; subst.
    assert (0 <= fold_right Z.add 0 (map (contrib k) l)).
    { clear -H2. induction l as [|b l IHl]; cbn; [lia|]. inversion H2; subst. specialize (IHl H3).
      assert (0 <= contrib k b) by (apply contrib_nonneg; eapply Forall_impl; [|exact H1]; intros t [_ Ht]; exact Ht). lia. }
    lia.
  - cbn [map fold_right]. inversion Hq; subst. specialize (IH i q H3 H).
    assert (0 <= contrib k a) by (apply contrib_nonneg; eapply Forall_impl; [|exact H2]; intros t [_ Ht]; exact Ht). lia.
Qed.

(* An export that still has a tuple to answer is never stuck: it can deliver (slot free), or skip (the
   caller's context is done), or — slot full, context alive — the caller has not left and can receive,
   which frees the slot.  "The export goroutine never blocks for ever on a departed waiter." *)
Theorem export_not_stuck st i w c tl :
  RInv st -> nth_error (queues st) i = Some ((w, c) :: tl) ->
  (exists s1, rstep st (Deliver i) = Some s1) \/
  (exists s1, rstep st (Skip i) = Some s1) \/
  (exists s1, rstep st (Receive w) = Some s1).
Proof.
  intros [Hc Hq] En. cbn [rstep]. rewrite En.
  pose proof (nth_error_Forall _ _ _ _ Hq En) as Hq0. inversion Hq0 as [|? ? [Hw Hcpos] Htl]; subst. cbn [fst snd] in *.
  destruct (cbuf (callers st w)) as [x|] eqn:Eb; [|left; eexists; reflexivity].
  destruct (ctx_done (callers st w)) eqn:Ed; [right; left; eexists; reflexivity|].
  right; right. assert (Hlt : Nat.ltb w (ncallers st) = true) by (apply Nat.ltb_lt; exact Hw). rewrite Hlt.
  destruct (returned (callers st w)) eqn:Er; [|eexists; reflexivity].
  exfalso. destruct (Hc w Hw) as (H1 & H2 & H3 & H4 & H5). specialize (H4 Ed). specialize (H5 Er Ed).
  pose proof (undeliv_ge_contrib w _ _ _ _ Hq En) as Hu.
  assert (c <= contrib w ((w, c) :: tl)) by (apply contrib_head_le; eapply Forall_impl; [|exact Htl]; intros t [_ Ht]; exact Ht).
  unfold bufc in H4. rewrite Eb in H4. specialize (H3 x Eb). lia.
Qed.

(* ------------------------------------------------------------------ termination of the response phase *)
Definition full_slots (st : rstate) : nat :=
  length (filter (fun k => match cbuf (callers st k) with Some _ => true | None => false end) (seq 0 (ncallers st))).
Definition todo (st : rstate) : nat := fold_right Nat.add 0%nat (map (@length tup) (queues st)).
Definition measure (st : rstate) : nat := (2 * todo st + full_slots st)%nat.

Definition resp_event (e : rev) : bool := match e with Deliver _ | Skip _ | Receive _ => true | _ => false end.

Lemma todo_set_q : forall qs i (q q0 : list tup), nth_error qs i = Some q0 ->
  (fold_right Nat.add 0 (map (@length tup) (set_q i q qs)) + length q0 = fold_right Nat.add 0 (map (@length tup) qs) + length q)%nat.
Proof.
  induction qs as [|a l IH]; intros i q q0 H; destruct i; cbn in H; try discriminate.
  - injection H as ->. cbn [set_q map fold_right]. lia.
  - cbn [set_q map fold_right]. specialize (IH i q q0 H). lia.
Qed.

Lemma filter_length_ext (f g : nat -> bool) l : (forall k, In k l -> g k = f k) -> length (filter g l) = length (filter f l).
Proof.
  induction l as [|x l IH]; intros H; cbn [filter]; [reflexivity|].
  rewrite (H x (or_introl eq_refl)). specialize (IH (fun k Hk => H k (or_intror Hk))).
  destruct (f x); cbn [length]; rewrite IH; reflexivity.
Qed.

Lemma filter_upd_count (f g : nat -> bool) n w :
  (w < n)%nat -> (forall k, k <> w -> g k = f k) ->
  (length (filter g (seq 0 n)) + (if f w then 1 else 0) = length (filter f (seq 0 n)) + (if g w then 1 else 0))%nat.
Proof.
  intros Hw Hs.
  assert (Hn : n = (w + S (n - S w))%nat) by lia. rewrite Hn, seq_app. cbn [seq plus].
  rewrite !filter_app. cbn [filter]. rewrite !app_length.
  rewrite (filter_length_ext f g (seq 0 w)) by (intros k Hk; apply Hs; apply in_seq in Hk; lia).
  pose proof (filter_length_ext f g (seq (S w) (n - S w)) ltac:(intros k Hk; apply Hs; apply in_seq in Hk; lia)) as Hr.
  destruct (g w), (f w); cbn [length]; lia.
Qed.

Lemma resp_step_decreases st e st1 :
  RInv st -> resp_event e = true -> rstep st e = Some st1 -> (measure st1 < measure st)%nat.
Proof.
  intros [Hc Hq] He H. destruct e as [n|ts|i|i|w|w|w]; try discriminate; cbn [rstep] in H.
  - (* Deliver: one tuple fewer, one slot more *)
    destruct (nth_error (queues st) i) as [[|[w c] tl]|] eqn:En; try discriminate.
    destruct (cbuf (callers st w)) eqn:Eb; [discriminate|]. injection H as <-.
    pose proof (nth_error_Forall _ _ _ _ Hq En) as Hq0. inversion Hq0 as [|? ? [Hw _] _]; subst. cbn [fst] in Hw.
    unfold measure, todo, full_slots. cbn [queues ncallers callers].
    pose proof (todo_set_q (queues st) i tl _ En) as Ht. cbn [length] in Ht.
    pose proof (filter_upd_count (fun k => match cbuf (callers st k) with Some _ => true | None => false end)
                  (fun k => match cbuf (upd (callers st) w {| rem := rem (callers st w); cbuf := Some c; returned := returned (callers st w); ctx_done := ctx_done (callers st w); future := future (callers st w) |} k) with Some _ => true | None => false end)
                  (ncallers st) w Hw) as Hf.
    specialize (Hf ltac:(intros k Hk; cbn beta; rewrite (upd_other _ _ _ _ Hk); reflexivity)).
    cbn beta in Hf. rewrite upd_same in Hf. cbn [cbuf] in Hf. rewrite Eb in Hf.
    lia.
  - (* Skip *)
    destruct (nth_error (queues st) i) as [[|[w c] tl]|] eqn:En; try discriminate.
    destruct (ctx_done (callers st w)); [|discriminate]. injection H as <-.
    unfold measure, todo, full_slots. cbn [queues ncallers callers].
    pose proof (todo_set_q (queues st) i tl _ En) as Ht. cbn [length] in Ht. lia.
  - (* Receive: one slot fewer *)
    destruct (Nat.ltb w (ncallers st) && negb (returned (callers st w))) eqn:E; [|discriminate].
    destruct (cbuf (callers st w)) as [c|] eqn:Eb; [|discriminate]. injection H as <-.
    apply andb_true_iff in E. destruct E as [E1 _]. apply Nat.ltb_lt in E1.
    unfold measure, todo, full_slots. cbn [queues ncallers callers].
    pose proof (filter_upd_count (fun k => match cbuf (callers st k) with Some _ => true | None => false end)
                  (fun k => match cbuf (upd (callers st) w {| rem := rem (callers st w) - c; cbuf := None; returned := (rem (callers st w) - c =? 0); ctx_done := ctx_done (callers st w); future := future (callers st w) |} k) with Some _ => true | None => false end)
                  (ncallers st) w E1) as Hf.
    specialize (Hf ltac:(intros k Hk; cbn beta; rewrite (upd_other _ _ _ _ Hk); reflexivity)).
    cbn beta in Hf. rewrite upd_same in Hf. cbn [cbuf] in Hf. rewrite Eb in Hf.
    lia.
Qed.

Definition all_answered (st : rstate) : Prop := Forall (fun q => q = []) (queues st).

Lemma not_answered_has_head st : ~ all_answered st -> exists i w c tl, nth_error (queues st) i = Some ((w, c) :: tl).
Proof.
  unfold all_answered. induction (queues st) as [|q l IH]; intros H.
  - exfalso. apply H. constructor.
  - destruct q as [|[w c] tl].
    + destruct IH as (i & w & c & tl & Hn).
      * intros Hl. apply H. constructor; [reflexivity|exact Hl].
      * exists (S i), w, c, tl. exact Hn.
    + exists 0%nat, w, c, tl. reflexivity.
Qed.

Lemma all_answered_dec st : {all_answered st} + {~ all_answered st}.
Proof.
  unfold all_answered. induction (queues st) as [|q l IH].
  - left. constructor.
  - destruct q; [|right; intros H; inversion H; discriminate].
    destruct IH as [IH|IH]; [left; constructor; [reflexivity|exact IH]|right; intros H; inversion H; contradiction].
Qed.

(* From every reachable state, with no further input from the shard and whatever the contexts do, the
   response phase can always be completed, in at most [measure] steps: every export goroutine finishes. *)
Theorem responses_complete : forall n st, RInv st -> (measure st <= n)%nat ->
  exists evs st1, forallb resp_event evs = true /\ rrun st evs = Some st1 /\ all_answered st1 /\ RInv st1.
Proof.
  induction n as [|n IH]; intros st HI Hm.
  - destruct (all_answered_dec st) as [Ha|Hna]; [exists [], st; split; [reflexivity|split; [reflexivity|split; assumption]]|].
    exfalso. destruct (not_answered_has_head st Hna) as (i & w & c & tl & Hn).
    unfold measure, todo in Hm. clear -Hm Hn. revert i Hn Hm. induction (queues st) as [|q l IHl]; intros i Hn Hm; destruct i; cbn in Hn; try discriminate.
    + injection Hn as ->. cbn in Hm. lia.
    + cbn [map fold_right] in Hm. apply (IHl i Hn). lia.
  - destruct (all_answered_dec st) as [Ha|Hna]; [exists [], st; split; [reflexivity|split; [reflexivity|split; assumption]]|].
    destruct (not_answered_has_head st Hna) as (i & w & c & tl & Hn).
    destruct (export_not_stuck st i w c tl HI Hn) as [[s1 Hs]|[[s1 Hs]|[s1 Hs]]].
    + pose proof (resp_step_decreases st (Deliver i) s1 HI eq_refl Hs) as Hd.
      destruct (IH s1 (rstep_inv _ _ _ HI Hs) ltac:(lia)) as (evs & st1 & H1 & H2 & H3 & H4).
      exists (Deliver i :: evs), st1. cbn [forallb resp_event rrun]. rewrite Hs. split; [exact H1|split; [exact H2|split; assumption]].
    + pose proof (resp_step_decreases st (Skip i) s1 HI eq_refl Hs) as Hd.
      destruct (IH s1 (rstep_inv _ _ _ HI Hs) ltac:(lia)) as (evs & st1 & H1 & H2 & H3 & H4).
      exists (Skip i :: evs), st1. cbn [forallb resp_event rrun]. rewrite Hs. split; [exact H1|split; [exact H2|split; assumption]].
    + pose proof (resp_step_decreases st (Receive w) s1 HI eq_refl Hs) as Hd.
      destruct (IH s1 (rstep_inv _ _ _ HI Hs) ltac:(lia)) as (evs & st1 & H1 & H2 & H3 & H4).
      exists (Receive w :: evs), st1. cbn [forallb resp_event rrun]. rewrite Hs. split; [exact H1|split; [exact H2|split; assumption]].
Qed.

(* and no scheduler can make the response phase run for ever: any sequence of response steps is bounded *)
Theorem response_phase_bounded : forall evs st st1,
  RInv st -> forallb resp_event evs = true -> rrun st evs = Some st1 -> (length evs + measure st1 <= measure st)%nat.
Proof.
  induction evs as [|e tl IH]; intros st st1 HI He H; cbn [rrun] in H.
  - injection H as <-. cbn. lia.
  - cbn [forallb] in He. apply andb_true_iff in He. destruct He as [He1 He2].
    destruct (rstep st e) as [s1|] eqn:E; [|discriminate].
    pose proof (resp_step_decreases st e s1 HI He1 E) as Hd.
    specialize (IH s1 st1 (rstep_inv _ _ _ HI E) He2 H). cbn [length]. lia.
Qed.

(* a caller whose context stays alive and that has received everything has returned, and vice versa:
   once everything addressed to it has been cut, delivered and received, it is gone — never earlier *)
Theorem caller_returns_exactly_when_done st w :
  RInv st -> (w < ncallers st)%nat -> ctx_done (callers st w) = false ->
  (returned (callers st w) = true -> cbuf (callers st w) = None /\ undeliv w (queues st) = 0 /\ future (callers st w) = 0).
Proof.
  intros [Hc _] Hw Hd Hr. destruct (Hc w Hw) as (H1 & H2 & H3 & H4 & H5). specialize (H4 Hd). specialize (H5 Hr Hd).
  destruct (cbuf (callers st w)) as [x|] eqn:Eb.
  - specialize (H3 x eq_refl). unfold bufc in H4. rewrite Eb in H4. lia.
  - unfold bufc in H4. rewrite Eb in H4. repeat split; lia.
Qed.

(* ------------------------------------------------------------------ executable trace check *)
(* The hooks log Spawn (send), Deliver / Skip (respond) and NewCaller (recv); the callers' own steps are not
   logged.  A logged trace is accepted when it is a trace of the model with the callers' steps filled in
   where the logged step needs them: a Deliver onto a full slot is preceded by the caller's Receive, a Skip
   is preceded by the Cancel of that caller's context. *)
Definition step_filled (st : rstate) (e : rev) : option rstate :=
  match e with
  | Deliver i =>
      match nth_error (queues st) i with
      | Some ((w, _) :: _) =>
          match cbuf (callers st w) with
          | Some _ => match rstep st (Receive w) with Some s1 => rstep s1 e | None => None end
          | None => rstep st e
          end
      | _ => None
      end
  | Skip i =>
      match nth_error (queues st) i with
      | Some ((w, _) :: _) => match rstep st (Cancel w) with Some s1 => rstep s1 e | None => None end
      | _ => None
      end
  | _ => rstep st e
  end.

Fixpoint run_filled (st : rstate) (evs : list rev) : option rstate :=
  match evs with
  | [] => Some st
  | e :: tl => match step_filled st e with Some s1 => run_filled s1 tl | None => None end
  end.

Definition raccepts (evs : list rev) : bool := match run_filled rinit evs with Some _ => true | None => false end.

Lemma step_filled_sound st e s1 : step_filled st e = Some s1 -> exists evs, rrun st evs = Some s1.
Proof.
  destruct e as [n|ts|i|i|w|w|w]; cbn [step_filled]; intros H;
    try (eexists [_]; cbn [rrun]; rewrite H; reflexivity).
  - destruct (nth_error (queues st) i) as [[|[w c] tl]|]; try discriminate.
    destruct (cbuf (callers st w)).
    + destruct (rstep st (Receive w)) as [s0|] eqn:E; [|discriminate]. exists [Receive w; Deliver i]. cbn [rrun]. rewrite E, H. reflexivity.
    + exists [Deliver i]. cbn [rrun]. rewrite H. reflexivity.
  - destruct (nth_error (queues st) i) as [[|[w c] tl]|]; try discriminate.
    destruct (rstep st (Cancel w)) as [s0|] eqn:E; [|discriminate]. exists [Cancel w; Skip i]. cbn [rrun]. rewrite E, H. reflexivity.
Qed.

Lemma rrun_app st a b : rrun st (a ++ b) = match rrun st a with Some s1 => rrun s1 b | None => None end.
Proof. revert st. induction a as [|e tl IH]; intros st; cbn [app rrun]; [reflexivity|]. destruct (rstep st e); [apply IH|reflexivity]. Qed.

Lemma run_filled_sound : forall evs st s1, run_filled st evs = Some s1 -> exists full, rrun st full = Some s1.
Proof.
  induction evs as [|e tl IH]; intros st s1 H; cbn [run_filled] in H.
  - injection H as <-. exists []. reflexivity.
  - destruct (step_filled st e) as [s0|] eqn:E; [|discriminate].
    destruct (step_filled_sound _ _ _ E) as [a Ha]. destruct (IH _ _ H) as [b Hb].
    exists (a ++ b). rewrite rrun_app, Ha. exact Hb.
Qed.

Example resp_example :
  (* two callers (3 and 2 items) over three exports; caller 0 gets two responses while its slot is full *)
  raccepts [NewCaller 3; NewCaller 2; Spawn [(0%nat, 2)]; Spawn [(0%nat, 1); (1%nat, 1)]; Spawn [(1%nat, 1)];
            Deliver 0; Deliver 1; Deliver 1; Deliver 2] = true /\
  (* an export answering more than the caller submitted is not a trace of the model *)
  raccepts [NewCaller 3; Spawn [(0%nat, 2)]; Spawn [(0%nat, 2)]] = false.
Proof. split; vm_compute; reflexivity. Qed.
