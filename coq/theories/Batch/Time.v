(* Batch/Time.v — the shard loop of Shard.v with a clock (C09, deadline half).

   The code (batch_processor.go): the shard owns one time.Timer, created in startLoop when
   timeout != 0 && send_batch_size != 0.  It is re-armed to now+timeout
     - in the timer case of the select, after the (possible) send      (resetTimer), and
     - at the end of flushItems when at least one batch was sent        (stopTimer; resetTimer),
   and nowhere else.  Every event of the shard loop therefore carries the time at which the loop
   handled it; [dl] is the expiry of the timer.

   What the runtime decides and the model cannot: how long after [dl] the loop gets to run the
   timer case (goroutine scheduling, the random choice of select among ready cases, a send
   blocked on the concurrency semaphore).  That is the parameter [delta]: a trace is well timed
   when no event is handled later than dl + delta.  The property's proviso "provided the
   concurrency limit is not holding exports back" is exactly this hypothesis.

   Times are N (the harness uses microseconds). *)
From Verif Require Import Base.ListX Batch.Split Batch.Shard.

Local Arguments s_sent {d}. Local Arguments s_trigger {d}. Local Arguments s_req {d}. Local Arguments s_tuples {d}.
Local Arguments cnt {d}. Local Arguments buf {d}. Local Arguments pending {d}. Local Arguments total_sent {d}.

Section Time.
  Variable d : nat.
  Variable timeout : N.
  Variable delta : N.

  Definition chunk := (N * N)%type.                 (* accept time, number of items *)
  Definition chunk_sum (a : list chunk) : N := sumN (map snd a).

  Record tstate := { sh : shard d; ages : list chunk; dl : N; now : N }.
  Record tsend := { ts_time : N; ts_send : send d; ts_carried : list chunk }.

  (* the first n buffered items, oldest first, and what stays behind *)
  Fixpoint take_items (n : N) (a : list chunk) : list chunk * list chunk :=
    match a with
    | [] => ([], [])
    | (t, k) :: tl =>
        if n =? 0 then ([], a)
        else if n <? k then ([(t, n)], (t, k - n) :: tl)
        else let '(c, r) := take_items (n - k) tl in ((t, k) :: c, r)
    end.

  Fixpoint carry (t : N) (out : list (send d)) (a : list chunk) : list tsend * list chunk :=
    match out with
    | [] => ([], a)
    | e :: tl =>
        let '(c, r) := take_items (s_sent e) a in
        let '(os, r') := carry t tl r in
        ({| ts_time := t; ts_send := e; ts_carried := c |} :: os, r')
    end.

  Definition ev_count (e : ev d) : N :=
    match e with Recv data _ _ => count_list (S d) data | _ => 0 end.

  Definition tstep (c : cfg) (st : tstate) (te : N * ev d) : tstate * list tsend :=
    let '(t, e) := te in
    let '(s1, out) := step d c (sh st) e in
    let n := ev_count e in
    let a0 := if n =? 0 then ages st else ages st ++ [(t, n)] in
    let '(touts, a1) := carry t out a0 in
    let dl1 := match e with
               | Timer => t + timeout                                   (* resetTimer in the timer case *)
               | Recv _ _ _ => match out with [] => dl st | _ => t + timeout end  (* flushItems: if sent *)
               | Final => dl st
               end in
    ({| sh := s1; ages := a1; dl := dl1; now := t |}, touts).

  Fixpoint trun (c : cfg) (st : tstate) (tes : list (N * ev d)) : tstate * list tsend :=
    match tes with
    | [] => (st, [])
    | te :: tl => let '(s1, o1) := tstep c st te in let '(s2, o2) := trun c s1 tl in (s2, o1 ++ o2)
    end.

  (* the shard is created (and its timer armed) at time t0 *)
  Definition tinit (t0 : N) : tstate := {| sh := init d; ages := []; dl := t0 + timeout; now := t0 |}.

  (* a trace the runtime may produce: time does not run backwards, the timer case runs only after
     the expiry, and (when there is a timer) the loop is never later than delta behind the expiry *)
  Definition well_timed_ev (c : cfg) (st : tstate) (te : N * ev d) : Prop :=
    now st <= fst te /\
    (timer c = true -> fst te <= dl st + delta) /\
    (match snd te with Timer => timer c = true /\ dl st <= fst te | _ => True end).

  Fixpoint well_timed (c : cfg) (st : tstate) (tes : list (N * ev d)) : Prop :=
    match tes with
    | [] => True
    | te :: tl => well_timed_ev c st te /\ well_timed c (fst (tstep c st te)) tl
    end.

  (* ------------------------------------------------------------------ take_items *)
  Definition pos_chunks (a : list chunk) : Prop := Forall (fun x => 0 < snd x) a.
  Definition times_ok (P : N -> Prop) (a : list chunk) : Prop := Forall (fun x => P (fst x)) a.

  Lemma chunk_sum_cons x a : chunk_sum (x :: a) = snd x + chunk_sum a.
  Proof. unfold chunk_sum. cbn [map]. apply sumN_cons. Qed.

  Lemma chunk_sum_app a b : chunk_sum (a ++ b) = chunk_sum a + chunk_sum b.
  Proof. unfold chunk_sum. rewrite map_app. apply sumN_app. Qed.

  Lemma take_items_spec P : forall a n c r,
    take_items n a = (c, r) -> n <= chunk_sum a -> pos_chunks a -> times_ok P a ->
    chunk_sum c = n /\ chunk_sum r = chunk_sum a - n /\
    pos_chunks c /\ pos_chunks r /\ times_ok P c /\ times_ok P r.
  Proof.
    induction a as [|[t k] tl IH]; intros n c r H Hn Hp Ht; cbn [take_items] in H.
    - injection H as <- <-. unfold chunk_sum in *. cbn in *. repeat split; try constructor; lia.
    - rewrite chunk_sum_cons in *. cbn [snd] in *.
      inversion Hp as [|? ? Hk Hp']; subst. inversion Ht as [|? ? Htk Ht']; subst. cbn [fst snd] in *.
      destruct (n =? 0) eqn:E0.
      + apply N.eqb_eq in E0. injection H as <- <-. rewrite chunk_sum_cons. cbn [snd].
        unfold chunk_sum at 1. cbn. repeat split; try constructor; try assumption; lia.
      + apply N.eqb_neq in E0. destruct (n <? k) eqn:E1.
        * apply N.ltb_lt in E1. injection H as <- <-. rewrite !chunk_sum_cons. cbn [snd].
          unfold chunk_sum at 1. cbn [map sumN fold_right].
          repeat split; try lia; repeat constructor; cbn [fst snd]; try assumption; lia.
        * apply N.ltb_ge in E1. destruct (take_items (n - k) tl) as [c1 r1] eqn:E2.
          injection H as <- <-. apply IH in E2; [|lia|assumption|assumption].
          destruct E2 as (H1 & H2 & H3 & H4 & H5 & H6). rewrite chunk_sum_cons. cbn [snd].
          repeat split; try lia; try assumption; constructor; assumption.
  Qed.

  (* when the old chunks are all taken, what stays behind comes from the new ones *)
  Lemma take_items_rest_new P : forall old new n c r,
    take_items n (old ++ new) = (c, r) -> chunk_sum old <= n -> pos_chunks old ->
    times_ok P new -> times_ok P r.
  Proof.
    induction old as [|[t k] tl IH]; intros new n c r H Hn Hp Ht; cbn [app] in H.
    - clear Hn Hp. revert n c r H. induction new as [|[t k] tl IH]; intros n c r H; cbn [take_items] in H.
      + injection H as <- <-. constructor.
      + inversion Ht as [|? ? Htk Ht']; subst. destruct (n =? 0).
        * injection H as <- <-. exact Ht.
        * destruct (n <? k).
          -- injection H as <- <-. constructor; assumption.
          -- destruct (take_items (n - k) tl) as [c1 r1] eqn:E. injection H as <- <-.
             eapply IH; [exact Ht'|exact E].
    - rewrite chunk_sum_cons in Hn. cbn [snd] in Hn. inversion Hp as [|? ? Hk Hp']; subst. cbn [snd] in Hk.
      cbn [take_items] in H. destruct (n =? 0) eqn:E0; [apply N.eqb_eq in E0; lia|].
      destruct (n <? k) eqn:E1; [apply N.ltb_lt in E1; lia|].
      destruct (take_items (n - k) (tl ++ new)) as [c1 r1] eqn:E. injection H as <- <-.
      eapply IH; [exact E|lia|exact Hp'|exact Ht].
  Qed.

  Lemma pos_sum0_nil a : pos_chunks a -> chunk_sum a = 0 -> a = [].
  Proof.
    destruct a as [|x tl]; [reflexivity|]. intros Hp Hs. inversion Hp; subst.
    rewrite chunk_sum_cons in Hs. lia.
  Qed.

  (* ------------------------------------------------------------------ carry *)
  Definition sent_sum (out : list (send d)) : N := sumN (map (@s_sent d) out).
  Definition carried_ok (P : N -> Prop) (o : tsend) : Prop := times_ok P (ts_carried o).

  Lemma carry_spec P t : forall out a os r,
    carry t out a = (os, r) -> sent_sum out <= chunk_sum a -> pos_chunks a -> times_ok P a ->
    chunk_sum r = chunk_sum a - sent_sum out /\ pos_chunks r /\ times_ok P r /\
    Forall (carried_ok P) os /\ Forall (fun o => ts_time o = t) os /\
    Forall (fun o => chunk_sum (ts_carried o) = s_sent (ts_send o)) os /\ map ts_send os = out.
  Proof.
    induction out as [|e tl IH]; intros a os r H Hs Hp Ht; cbn [carry] in H.
    - injection H as <- <-. unfold sent_sum. cbn. repeat split; try constructor; try assumption; lia.
    - unfold sent_sum in *. cbn [map] in *. rewrite sumN_cons in *.
      destruct (take_items (s_sent e) a) as [c1 r1] eqn:E1.
      destruct (carry t tl r1) as [os1 r2] eqn:E2. injection H as <- <-.
      apply (take_items_spec P) in E1; [|lia|assumption|assumption].
      destruct E1 as (H1 & H2 & H3 & H4 & H5 & H6).
      apply IH in E2; [|lia|assumption|assumption].
      destruct E2 as (G1 & G2 & G3 & G4 & G5 & G6 & G7).
      repeat split; try assumption; try lia; try (constructor; [|assumption]); cbn; try assumption; try reflexivity.
      f_equal. exact G7.
  Qed.

  (* the chunks left after the first send has taken all the old ones come from the new ones *)
  Lemma carry_rest_new P t : forall out old new os r,
    carry t out (old ++ new) = (os, r) -> out <> [] ->
    (forall e tl, out = e :: tl -> chunk_sum old <= s_sent e) ->
    sent_sum out <= chunk_sum (old ++ new) -> pos_chunks (old ++ new) ->
    times_ok P new -> times_ok P r.
  Proof.
    intros out old new os r H Hne Hfirst Hs Hp Ht.
    destruct out as [|e tl]; [congruence|]. cbn [carry] in H.
    destruct (take_items (s_sent e) (old ++ new)) as [c1 r1] eqn:E1.
    destruct (carry t tl r1) as [os1 r2] eqn:E2. injection H as <- <-.
    assert (Hr1 : times_ok P r1).
    { eapply take_items_rest_new; [exact E1|apply (Hfirst e tl eq_refl)| |exact Ht].
      unfold pos_chunks in *. apply Forall_app in Hp. apply Hp. }
    unfold sent_sum in Hs. cbn [map] in Hs. rewrite sumN_cons in Hs.
    apply (take_items_spec (fun _ => True)) in E1; [|lia|assumption|apply Forall_forall; intros; exact I].
    destruct E1 as (H1 & H2 & H3 & H4 & _ & _).
    apply (carry_spec P) in E2; [|unfold sent_sum; lia|assumption|assumption].
    apply E2.
  Qed.

  (* ------------------------------------------------------------------ counts of a step *)
  Lemma send_items_sent c trig s s1 e :
    send_items d c trig s = (s1, e) ->
    s_sent e = (if (0 <? max_size c) && (max_size c <? cnt s) then max_size c else cnt s) /\
    cnt s1 = cnt s - s_sent e /\ s_sent e <= cnt s.
  Proof.
    unfold send_items, split_batch. destruct ((0 <? max_size c) && (max_size c <? cnt s)) eqn:E.
    - destruct (split copy_ident (max_size c) d (buf s)) as [dst rst].
      destruct (apportion _ _ _) as [ts pd']. intros H. injection H as <- <-. cbn.
      apply andb_true_iff in E. destruct E as [_ E]. apply N.ltb_lt in E. repeat split; lia.
    - destruct (apportion _ _ _) as [ts pd']. intros H. injection H as <- <-. cbn. repeat split; lia.
  Qed.

  Lemma flush_counts c : forall fuel s s1 es,
    flush d fuel c s = (s1, es) -> sent_sum es + cnt s1 = cnt s.
  Proof.
    induction fuel as [|f IH]; intros s s1 es H; cbn [flush] in H.
    - injection H as <- <-. unfold sent_sum. cbn. lia.
    - destruct (must_flush d c s).
      + destruct (send_items d c 1 s) as [sa e] eqn:Es. destruct (flush d f c sa) as [sb es'] eqn:Ef.
        injection H as <- <-. apply send_items_sent in Es. apply IH in Ef.
        unfold sent_sum in *. cbn [map]. rewrite sumN_cons. lia.
      + injection H as <- <-. unfold sent_sum. cbn. lia.
  Qed.

  Lemma flush_first c fuel s s1 e es :
    flush d fuel c s = (s1, e :: es) ->
    s_sent e = (if (0 <? max_size c) && (max_size c <? cnt s) then max_size c else cnt s).
  Proof.
    destruct fuel as [|f]; cbn [flush]; [discriminate|].
    destruct (must_flush d c s); [|discriminate].
    destruct (send_items d c 1 s) as [sa e1] eqn:Es. destruct (flush d f c sa) as [sb es'].
    intros H. injection H as _ <- _. apply send_items_sent in Es. apply Es.
  Qed.

  Lemma step_counts c s e s1 es :
    step d c s e = (s1, es) -> sent_sum es + cnt s1 = cnt s + ev_count e.
  Proof.
    destruct e as [data ctx w| |]; cbn [step ev_count].
    - unfold process_item. intros H. apply flush_counts in H. cbn [cnt] in H. exact H.
    - destruct (0 <? cnt s).
      + destruct (send_items d c 0 s) as [sa x] eqn:Es. intros H. injection H as <- <-.
        apply send_items_sent in Es. unfold sent_sum. cbn. lia.
      + intros H. injection H as <- <-. unfold sent_sum. cbn. lia.
    - destruct (0 <? cnt s).
      + destruct (send_items d c 0 s) as [sa x] eqn:Es. intros H. injection H as <- <-.
        apply send_items_sent in Es. unfold sent_sum. cbn. lia.
      + intros H. injection H as <- <-. unfold sent_sum. cbn. lia.
  Qed.

  (* ------------------------------------------------------------------ the invariant *)
  Definition TInv (c : cfg) (st : tstate) : Prop :=
    Inv d (sh st) /\ quiescent d c (sh st) /\
    chunk_sum (ages st) = cnt (sh st) /\ pos_chunks (ages st) /\
    dl st <= now st + timeout /\
    times_ok (fun ta => dl st <= ta + timeout /\ ta <= now st) (ages st).

  Lemma TInv_init c t0 : valid c -> TInv c (tinit t0).
  Proof.
    intros Hv. unfold TInv, tinit. cbn [sh ages dl now].
    repeat split; try apply Inv_init; try apply quiescent_init; try assumption; try constructor. lia.
  Qed.

  Lemma times_ok_weaken (P Q : N -> Prop) a : (forall x, P x -> Q x) -> times_ok P a -> times_ok Q a.
  Proof. intros H Ha. unfold times_ok in *. eapply Forall_impl; [|exact Ha]. intros x; apply H. Qed.

  (* what a send exported at time t must satisfy *)
  Definition on_time (c : cfg) (o : tsend) : Prop :=
    times_ok (fun ta => ta <= ts_time o /\
                        if timer c then ts_time o <= ta + timeout + delta else ts_time o = ta)
             (ts_carried o).

  Lemma tstep_spec c st te st1 os :
    valid c -> TInv c st -> well_timed_ev c st te -> tstep c st te = (st1, os) ->
    TInv c st1 /\ Forall (on_time c) os /\ map ts_send os = snd (step d c (sh st) (snd te)) /\
    Forall (fun o => chunk_sum (ts_carried o) = s_sent (ts_send o)) os /\
    (timer c = false -> ages st1 = []).
  Proof.
    intros Hv (HI & Hq & Hsum & Hpos & Hdl & Hta) (Hnow & Hlate & Hev). destruct te as [t e].
    cbn [fst snd] in *. unfold tstep.
    destruct (step d c (sh st) e) as [s1 out] eqn:Es.
    pose proof (step_counts _ _ _ _ _ Es) as Hcnt.
    pose proof (step_spec d _ _ _ _ _ Hv HI Hq Es) as (HI1 & Hok & Hq1 & _).
    set (n := ev_count e) in *.
    set (a0 := if n =? 0 then ages st else ages st ++ [(t, n)]) in *.
    assert (Hsum0 : chunk_sum a0 = cnt (sh st) + n).
    { unfold a0. destruct (n =? 0) eqn:En; [apply N.eqb_eq in En; lia|].
      rewrite chunk_sum_app. unfold chunk_sum at 2. cbn. lia. }
    assert (Hpos0 : pos_chunks a0).
    { unfold a0. destruct (n =? 0) eqn:En; [exact Hpos|]. apply N.eqb_neq in En.
      apply Forall_app. split; [exact Hpos|]. repeat constructor. cbn. lia. }
    (* every buffered item, old or new, is young enough at time t *)
    set (P := fun ta => ta <= t /\ if timer c then t <= ta + timeout + delta else t = ta).
    assert (HP0 : times_ok P a0).
    { assert (Hold : times_ok P (ages st)).
      { destruct (timer c) eqn:Et.
        - eapply times_ok_weaken; [|exact Hta]. intros x [Hx1 Hx2]. unfold P.
          specialize (Hlate eq_refl). lia.
        - unfold quiescent in Hq. rewrite Et in Hq. rewrite Hq in Hsum.
          rewrite (pos_sum0_nil _ Hpos Hsum). constructor. }
      unfold a0. destruct (n =? 0); [exact Hold|]. apply Forall_app. split; [exact Hold|].
      repeat constructor; cbn [fst]; unfold P; destruct (timer c); lia. }
    destruct (carry t out a0) as [touts a1] eqn:Ec.
    intros H. injection H as <- <-.
    pose proof (carry_spec P t _ _ _ _ Ec ltac:(lia) Hpos0 HP0) as (Hs1 & Hp1 & Ht1 & Hc1 & Htime & Hcs & Hmap).
    assert (Hon : Forall (on_time c) touts).
    { apply Forall_forall. intros o Ho. rewrite Forall_forall in Hc1, Htime.
      specialize (Hc1 o Ho). specialize (Htime o Ho). unfold on_time, carried_ok in *. rewrite Htime. exact Hc1. }
    assert (Hsum1 : chunk_sum a1 = cnt s1) by lia.
    assert (Hnt : timer c = false -> a1 = []).
    { intros Et. unfold quiescent in Hq1. rewrite Et in Hq1. apply pos_sum0_nil; [exact Hp1|lia]. }
    split; [|split; [exact Hon|split; [exact Hmap|split; [exact Hcs|exact Hnt]]]].
    unfold TInv. cbn [sh ages dl now].
    split; [exact HI1|]. split; [exact Hq1|]. split; [exact Hsum1|]. split; [exact Hp1|].
    destruct (timer c) eqn:Et.
    2:{ rewrite (Hnt eq_refl). split; [|constructor]. destruct e; try destruct out; try lia. }
    destruct e as [data ctx w| |].
    - (* Recv *)
      destruct out as [|e1 tl] eqn:Eo.
      + (* nothing sent: deadline unchanged, the new chunk was accepted after the last reset *)
        split; [lia|]. cbn [carry] in Ec. injection Ec as _ <-.
        unfold a0. assert (Hold : times_ok (fun ta => dl st <= ta + timeout /\ ta <= t) (ages st)).
        { eapply times_ok_weaken; [|exact Hta]. intros x [Hx1 Hx2]. lia. }
        destruct (n =? 0); [exact Hold|]. apply Forall_app. split; [exact Hold|].
        repeat constructor; cbn [fst]; lia.
      + (* a size-triggered flush: the first batch takes every older item, the timer is re-armed *)
        split; [lia|].
        assert (Hfirst : chunk_sum (ages st) <= s_sent e1).
        { cbn [step] in Es. unfold process_item in Es. apply flush_first in Es. cbn [cnt] in Es.
          change (count_list (S d) data) with n in Es.
          rewrite Es. unfold quiescent in Hq. rewrite Et in Hq. destruct Hv as [Hm _].
          destruct ((0 <? max_size c) && (max_size c <? cnt (sh st) + n)) eqn:Eb.
          - apply andb_true_iff in Eb. destruct Eb as [Eb1 _]. apply N.ltb_lt in Eb1. lia.
          - lia. }
        destruct (n =? 0) eqn:En.
        * (* a request without items sends nothing *)
          apply N.eqb_eq in En. exfalso. cbn [step] in Es. unfold process_item in Es. change (count_list (S d) data) with n in Es.
          rewrite En in Es. cbn [flush] in Es.
          assert (Hmf : must_flush d c {| buf := if 0 =? 0 then buf (sh st) else buf (sh st) ++ data;
                                        cnt := cnt (sh st) + 0; pending := pending (sh st) ++ [{| pd_ctx := ctx; pd_num := 0; pd_waiter := w |}];
                                        total_sent := total_sent (sh st) |} = false).
          { unfold must_flush. cbn [cnt]. unfold quiescent in Hq. rewrite Et in Hq. rewrite Et. cbn [negb orb].
            apply andb_false_iff. right. apply N.leb_gt. lia. }
          rewrite Hmf in Es. discriminate.
        * unfold a0 in Ec.
          eapply (carry_rest_new (fun ta => t + timeout <= ta + timeout /\ ta <= t)); [exact Ec|discriminate| | | |].
          -- intros e' tl' Heq. injection Heq as <- _. exact Hfirst.
          -- unfold a0 in Hsum0. lia.
          -- unfold a0 in Hpos0. exact Hpos0.
          -- repeat constructor; cbn [fst]; lia.
    - (* Timer: everything buffered goes, the timer is re-armed *)
      split; [lia|].
      assert (Hz : cnt s1 = 0).
      { cbn [step] in Es. destruct (0 <? cnt (sh st)) eqn:E.
        - destruct (send_items d c 0 (sh st)) as [sa x] eqn:Ex. injection Es as <- <-.
          apply send_items_sent in Ex. destruct Ex as (Hx1 & Hx2 & _).
          unfold quiescent in Hq. rewrite Et in Hq. destruct Hv as [Hm _].
          destruct ((0 <? max_size c) && (max_size c <? cnt (sh st))) eqn:Eb; [|lia].
          apply andb_true_iff in Eb. destruct Eb as [Eb1 Eb2]. apply N.ltb_lt in Eb1, Eb2. lia.
        - injection Es as <- <-. apply N.ltb_ge in E. lia. }
      rewrite (pos_sum0_nil _ Hp1 ltac:(lia)). constructor.
    - (* Final *)
      split; [lia|].
      assert (Hz : cnt s1 = 0) by (eapply final_drains; [exact HI|exact Es|exact Hv|exact Hq]).
      rewrite (pos_sum0_nil _ Hp1 ltac:(lia)). constructor.
  Qed.

  Lemma trun_spec c : forall tes st st1 os,
    valid c -> TInv c st -> well_timed c st tes -> trun c st tes = (st1, os) ->
    TInv c st1 /\ Forall (on_time c) os.
  Proof.
    induction tes as [|te tl IH]; intros st st1 os Hv HI Hw H; cbn [trun] in H.
    - injection H as <- <-. split; [exact HI|constructor].
    - destruct (tstep c st te) as [sa o1] eqn:E1. destruct (trun c sa tl) as [sb o2] eqn:E2.
      injection H as <- <-. cbn [well_timed] in Hw. destruct Hw as [Hw1 Hw2]. rewrite E1 in Hw2. cbn [fst] in Hw2.
      apply tstep_spec in E1; try assumption. destruct E1 as (HIa & Hon & _).
      apply IH in E2; try assumption. destruct E2 as (HIb & Hon2).
      split; [exact HIb|apply Forall_app; split; assumption].
  Qed.

  (* C09, deadline half: on every well-timed trace from the creation of the shard, every export
     carries only items accepted at most timeout (+ the runtime's lateness delta) earlier; without a
     timer every item leaves in the very step that accepted it. *)
  Lemma deadline c t0 tes st1 os :
    valid c -> well_timed c (tinit t0) tes -> trun c (tinit t0) tes = (st1, os) ->
    Forall (on_time c) os.
  Proof. intros Hv Hw H. eapply trun_spec; [exact Hv|apply TInv_init; exact Hv|exact Hw|exact H]. Qed.

  (* and nothing stays buffered beyond its deadline: whatever is still buffered was accepted less
     than timeout before the timer's expiry *)
  Lemma buffered_young c t0 tes st1 os :
    valid c -> well_timed c (tinit t0) tes -> trun c (tinit t0) tes = (st1, os) ->
    times_ok (fun ta => dl st1 <= ta + timeout) (ages st1) /\ (timer c = false -> ages st1 = []).
  Proof.
    intros Hv Hw H.
    assert (HT : TInv c st1) by (eapply trun_spec; [exact Hv|apply TInv_init; exact Hv|exact Hw|exact H]).
    destruct HT as (_ & Hq & Hsum & Hpos & _ & Hta). split.
    - eapply times_ok_weaken; [|exact Hta]. intros x [Hx _]. exact Hx.
    - intros Et. unfold quiescent in Hq. rewrite Et in Hq. apply pos_sum0_nil; [exact Hpos|lia].
  Qed.

  (* the untimed projection of a timed run is the run of Shard.v *)
  Lemma trun_untimed c : forall tes st,
    map ts_send (snd (trun c st tes)) = snd (run d c (sh st) (map snd tes)) /\
    sh (fst (trun c st tes)) = fst (run d c (sh st) (map snd tes)).
  Proof.
    induction tes as [|[t e] tl IH]; intros st; cbn [trun run map snd]; [split; reflexivity|].
    destruct (tstep c st (t, e)) as [sa o1] eqn:E1.
    assert (Hs : sh sa = fst (step d c (sh st) e) /\ map ts_send o1 = snd (step d c (sh st) e)).
    { unfold tstep in E1. destruct (step d c (sh st) e) as [s1 out].
      destruct (carry t out _) as [touts a1] eqn:Ec. injection E1 as <- <-. cbn [sh fst snd]. split; [reflexivity|].
      clear -Ec. revert touts a1 Ec. generalize (if ev_count e =? 0 then ages st else ages st ++ [(t, ev_count e)]).
      induction out as [|x xs IHx]; intros a touts a1 Ec; cbn [carry] in Ec.
      - injection Ec as <- _. reflexivity.
      - destruct (take_items (s_sent x) a) as [c1 r1]. destruct (carry t xs r1) as [os1 r2] eqn:E.
        injection Ec as <- _. cbn [map ts_send]. f_equal. eapply IHx. exact E. }
    destruct Hs as [Hs1 Hs2]. destruct (step d c (sh st) e) as [s1 out]. cbn [fst snd] in *.
    destruct (trun c sa tl) as [sb o2] eqn:E2. specialize (IH sa). rewrite E2 in IH. cbn [fst snd] in IH.
    rewrite Hs1 in IH. destruct (run d c s1 (map snd tl)) as [s2 out2]. cbn [fst snd] in *.
    destruct IH as [IH1 IH2]. split; [rewrite map_app, Hs2, IH1; reflexivity|exact IH2].
  Qed.

  (* ------------------------------------------------------------------ executable acceptance check *)
  (* used by the correspondence check: a logged trace (time, event) of one shard is accepted when the
     real timer fired where the model's timer expires: never before dl - eps, and no event is handled
     later than dl + delta *)
  Definition accepts_ev (c : cfg) (eps : N) (st : tstate) (te : N * ev d) : bool :=
    (now st <=? fst te) &&
    (negb (timer c) || (fst te <=? dl st + delta)) &&
    (match snd te with Timer => timer c && (dl st <=? fst te + eps) | _ => true end).

  Fixpoint taccepts (c : cfg) (eps : N) (st : tstate) (tes : list (N * ev d)) : bool :=
    match tes with
    | [] => true
    | te :: tl => accepts_ev c eps st te && taccepts c eps (fst (tstep c st te)) tl
    end.

  Lemma taccepts_well_timed c : forall tes st, taccepts c 0 st tes = true -> well_timed c st tes.
  Proof.
    induction tes as [|te tl IH]; intros st H; cbn [taccepts well_timed] in *; [exact I|].
    apply andb_true_iff in H. destruct H as [H1 H2]. split; [|apply IH; exact H2].
    unfold accepts_ev in H1. apply andb_true_iff in H1. destruct H1 as [H1 H3].
    apply andb_true_iff in H1. destruct H1 as [H1 H4]. unfold well_timed_ev.
    split; [apply N.leb_le; exact H1|]. split.
    - intros Et. rewrite Et in H4. cbn in H4. apply N.leb_le. exact H4.
    - destruct (snd te); try exact I. apply andb_true_iff in H3. destruct H3 as [H3 H5].
      split; [exact H3|]. apply N.leb_le in H5. lia.
  Qed.
End Time.

Arguments ts_time {d}. Arguments ts_send {d}. Arguments ts_carried {d}.

(* the premises are satisfiable: a trickle of single items, timeout 20, lateness 3; the size-triggered
   flush at time 30 re-arms the timer to 50 *)
Definition ex_cfg := {| send_size := 3; max_size := 0; timer := true |}.
Definition ex_item (i : N) : list (T 2) := [((1, 0), [((2, 0), [i])])].
Definition ex_trace : list (N * ev 1) :=
  [(5, Recv (ex_item 10) 1 1); (12, Recv (ex_item 11) 1 2); (21, Timer); (25, Recv (ex_item 12) 1 3);
   (28, Recv (ex_item 13) 1 4); (30, Recv (ex_item 14) 1 5); (44, Recv (ex_item 15) 1 6); (52, Timer); (60, Final)].
Example ex_trace_accepted : taccepts 1 20 3 ex_cfg 0 (tinit 1 20 0) ex_trace = true.
Proof. vm_compute. reflexivity. Qed.
Example ex_trace_sends :
  map (fun o => (ts_time o, ts_carried o)) (snd (trun 1 20 ex_cfg (tinit 1 20 0) ex_trace))
  = [(21, [(5, 1); (12, 1)]); (30, [(25, 1); (28, 1); (30, 1)]); (52, [(44, 1)])].
Proof. vm_compute. reflexivity. Qed.
(* a trace on which the timer is handled too late is not well timed *)
Example ex_late_rejected : taccepts 1 20 3 ex_cfg 0 (tinit 1 20 0) [(5, Recv (ex_item 10) 1 1); (40, Timer)] = false.
Proof. vm_compute. reflexivity. Qed.
