(* Batch/Wait.v — model of shard.waitForItems (the caller side of the response protocol) and of
   the error value it builds.

   Errors: waitForItems accumulates `err = errors.Join(err, cntErr)` for every countedError whose
   err is non-nil, and returns `errors.Join(err, ctx.Err())` when the context ends.  With
   errors.Join dropping nils, countedError.Unwrap returning the export error and errors.Is walking
   Unwrap()/Unwrap() []error, `errors.Is(result, e)` holds exactly for the export errors e collected
   so far (and the context error).  The model therefore represents a caller's result by the list of
   failing export ids it wraps (+ a flag for the context error); the result is nil iff the list is
   empty and the flag is off.  (Go's errors package itself is trusted, not modelled further.) *)
From Verif Require Import Base.ListX.
Open Scope Z_scope.

Record resp := { r_err : option N; r_count : Z }.          (* countedError{err, count} *)
Inductive input := GotResp (r : resp) | CtxDone.
Inductive wstate :=
| Waiting (n : Z) (errs : list N)
| Returned (errs : list N) (ctx_err : bool).

Definition add_err (errs : list N) (e : option N) : list N :=
  match e with Some k => errs ++ [k] | None => errs end.

(* one iteration of the for/select loop *)
Definition wait_step (st : wstate) (i : input) : wstate :=
  match st with
  | Returned _ _ => st
  | Waiting n errs =>
      match i with
      | GotResp r =>
          let errs' := add_err errs (r_err r) in
          let n' := n - r_count r in
          if n' =? 0 then Returned errs' false else Waiting n' errs'
      | CtxDone => Returned errs true
      end
  end.

Definition wait_run (n : Z) (ins : list input) : wstate := fold_left wait_step ins (Waiting n []).

Definition failures (rs : list resp) : list N :=
  flat_map (fun r => match r_err r with Some k => [k] | None => [] end) rs.
Definition total (rs : list resp) : Z := fold_right Z.add 0 (map r_count rs).

Lemma fold_returned ins errs b : fold_left wait_step ins (Returned errs b) = Returned errs b.
Proof. induction ins as [|i tl IH]; [reflexivity|exact IH]. Qed.

Lemma add_err_failures errs r : add_err errs (r_err r) = errs ++ failures [r].
Proof. unfold add_err, failures. cbn. destruct (r_err r); [reflexivity|rewrite app_nil_r; reflexivity]. Qed.

Lemma failures_cons r tl : failures (r :: tl) = failures [r] ++ failures tl.
Proof. unfold failures. cbn [flat_map]. rewrite app_nil_r. reflexivity. Qed.

(* While fewer than n items have been answered for, the caller keeps waiting; the moment the
   answered counts reach n it returns, with exactly the failures seen. *)
Lemma wait_all : forall rs n errs,
  Forall (fun r => 0 < r_count r) rs -> total rs = n -> 0 < n ->
  fold_left wait_step (map GotResp rs) (Waiting n errs) = Returned (errs ++ failures rs) false.
Proof.
  induction rs as [|r tl IH]; intros n errs Hpos Ht Hn.
  - cbn in Ht. lia.
  - cbn [map fold_left wait_step]. inversion Hpos as [|? ? Hr Htl]; subst.
    unfold total in *. cbn [map fold_right] in Hn.
    rewrite add_err_failures.
    destruct (fold_right Z.add 0 (map r_count (r :: tl)) - r_count r =? 0) eqn:E.
    + cbn [map fold_right] in E. apply Z.eqb_eq in E.
      assert (tl = []) as ->.
      { destruct tl as [|r2 tl2]; [reflexivity|]. exfalso. inversion Htl as [|? ? Hr2 Htl2]; subst.
        cbn [map fold_right] in E.
        assert (0 <= fold_right Z.add 0 (map r_count tl2)).
        { clear -Htl2. induction tl2 as [|x l IHl]; cbn; [lia|]. inversion Htl2; subst. specialize (IHl H2). lia. }
        lia. }
      cbn [map fold_left]. reflexivity.
    + cbn [map fold_right] in E. apply Z.eqb_neq in E.
      rewrite IH; [|exact Htl|cbn [map fold_right]; lia|].
      * rewrite (failures_cons r tl), app_assoc. reflexivity.
      * cbn [map fold_right].
        assert (0 <= fold_right Z.add 0 (map r_count tl)).
        { clear -Htl. induction tl as [|x l IHl]; cbn; [lia|]. inversion Htl; subst. specialize (IHl H2). lia. }
        lia.
Qed.

Lemma wait_prefix_waits : forall rs n errs,
  Forall (fun r => 0 < r_count r) rs -> total rs < n ->
  fold_left wait_step (map GotResp rs) (Waiting n errs) = Waiting (n - total rs) (errs ++ failures rs).
Proof.
  induction rs as [|r tl IH]; intros n errs Hpos Ht.
  - cbn. rewrite Z.sub_0_r, app_nil_r. reflexivity.
  - cbn [map fold_left wait_step]. inversion Hpos as [|? ? Hr Htl]; subst.
    unfold total in *. cbn [map fold_right] in *.
    assert (0 <= fold_right Z.add 0 (map r_count tl)).
    { clear -Htl. induction tl as [|x l IHl]; cbn; [lia|]. inversion Htl; subst. specialize (IHl H2). lia. }
    destruct (n - r_count r =? 0) eqn:E; [apply Z.eqb_eq in E; lia|].
    rewrite add_err_failures, IH; [|exact Htl|lia].
    rewrite (failures_cons r tl), app_assoc. f_equal. lia.
Qed.

(* the context ending is honoured at the very next iteration, whatever has been received *)
Lemma wait_cancel n errs ins :
  fold_left wait_step (CtxDone :: ins) (Waiting n errs) = Returned errs true.
Proof. cbn [fold_left wait_step]. apply fold_returned. Qed.

(* boolean summary of a caller's result, for the case files *)
Definition result_nil (st : wstate) : option bool :=
  match st with Returned errs c => Some (match errs with [] => negb c | _ => false end) | Waiting _ _ => None end.
