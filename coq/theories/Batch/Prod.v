(* Batch/Prod.v — the product of the two protocol models: Lts.v (shard loops, semaphore, WaitGroup, export
   goroutine life cycle) and Resp.v (response delivery to the callers).  In Lts.v the event [Finish i]
   abstracts the whole response phase of export i; here it is enabled only when export i has answered (or
   skipped) every tuple of its batch, and the Deliver / Skip steps of Resp.v belong to an export that is in
   its responding phase.  An [Acquire] carries the tuples of the batch that was cut (the Spawn of Resp.v).

   Theorems: both invariants hold in every reachable product state, an export that is done has an empty
   queue, Shutdown returns only when every export has answered all its callers, and — no deadlock — as long as
   Shutdown has been called and has not returned some step of the processor itself (not of the environment:
   no new request, no cancellation needed) is enabled. *)
From Verif Require Import Base.ListX Batch.Lts Batch.Resp.
Local Open Scope N_scope.

Record pst := { pl : lts; pr : rstate }.

Inductive pev :=
| PL (e : lev)                       (* NewShard, Decide, ExportEnd, CallShutdown, LoopExit, ShutdownReturn *)
| PAcquire (j : nat) (ts : list tup) (* permit obtained, export goroutine spawned with the batch's tuples *)
| PFinish (i : nat)                  (* export i has nothing left to answer: deferred Done() and Release(1) *)
| PR (e : rev).                      (* NewCaller, Deliver, Skip, Receive, Cancel, CtxReturn *)

Definition pinit (lim : N) : pst := {| pl := linit lim; pr := rinit |}.

Definition pstep (s : pst) (e : pev) : option pst :=
  match e with
  | PL (Acquire _) | PL (Finish _) => None
  | PL e' => match lstep (pl s) e' with Some l => Some {| pl := l; pr := pr s |} | None => None end
  | PAcquire j ts =>
      match lstep (pl s) (Acquire j), rstep (pr s) (Spawn ts) with
      | Some l, Some r => Some {| pl := l; pr := r |}
      | _, _ => None
      end
  | PFinish i =>
      match nth_error (queues (pr s)) i with
      | Some [] => match lstep (pl s) (Finish i) with Some l => Some {| pl := l; pr := pr s |} | None => None end
      | _ => None
      end
  | PR (Spawn _) => None
  | PR (Deliver i) | PR (Skip i) =>
      match nth_error (exports (pl s)) i with
      | Some EResponding =>
          match rstep (pr s) (match e with PR e' => e' | _ => Deliver i end) with
          | Some r => Some {| pl := pl s; pr := r |} | None => None end
      | _ => None
      end
  | PR e' => match rstep (pr s) e' with Some r => Some {| pl := pl s; pr := r |} | None => None end
  end.

Fixpoint prun (s : pst) (evs : list pev) : option pst :=
  match evs with
  | [] => Some s
  | e :: tl => match pstep s e with Some s1 => prun s1 tl | None => None end
  end.

Definition PInv (s : pst) : Prop :=
  LInv (pl s) /\ RInv (pr s) /\ length (exports (pl s)) = length (queues (pr s)) /\
  (forall i, nth_error (exports (pl s)) i = Some EDone -> nth_error (queues (pr s)) i = Some []).

Lemma PInv_init lim : PInv (pinit lim).
Proof.
  unfold PInv, pinit. cbn [pl pr]. split; [apply LInv_init|]. split; [apply RInv_init|]. split; [reflexivity|].
  intros i H. destruct i; discriminate.
Qed.

Lemma set_nth_length {A} (l : list A) : forall i x, length (set_nth i x l) = length l.
Proof. induction l as [|a l IH]; intros [|i] x; cbn [set_nth length]; try reflexivity. rewrite IH. reflexivity. Qed.

Lemma set_q_length (qs : list (list tup)) : forall i q, length (set_q i q qs) = length qs.
Proof. induction qs as [|a l IH]; intros [|i] q; cbn [set_q length]; try reflexivity. rewrite IH. reflexivity. Qed.

Lemma nth_set_nth {A} (l : list A) : forall i j x, nth_error (set_nth i x l) j = if Nat.eqb i j then (match nth_error l j with Some _ => Some x | None => None end) else nth_error l j.
Proof.
  induction l as [|a l IH]; intros i j x.
  - destruct i, j; cbn [set_nth nth_error Nat.eqb]; try reflexivity. destruct (Nat.eqb i j); reflexivity.
  - destruct i, j; cbn [set_nth nth_error Nat.eqb]; try reflexivity. apply IH.
Qed.

Lemma nth_set_q (qs : list (list tup)) : forall i j q, nth_error (set_q i q qs) j = if Nat.eqb i j then (match nth_error qs j with Some _ => Some q | None => None end) else nth_error qs j.
Proof.
  induction qs as [|a l IH]; intros i j q.
  - destruct i, j; cbn [set_q nth_error Nat.eqb]; try reflexivity. destruct (Nat.eqb i j); reflexivity.
  - destruct i, j; cbn [set_q nth_error Nat.eqb]; try reflexivity. apply IH.
Qed.

(* what each component step does to the shape of the other component's index space *)
Lemma lstep_exports_shape s e s1 : lstep s e = Some s1 ->
  match e with
  | Acquire _ => exports s1 = exports s ++ [ERunning]
  | ExportEnd i => exports s1 = set_nth i EResponding (exports s)
  | Finish i => exports s1 = set_nth i EDone (exports s)
  | _ => exports s1 = exports s
  end.
Proof.
  destruct e; cbn [lstep]; intros H.
  - destruct (shutdown_returned s); [discriminate|]. injection H as <-. reflexivity.
  - destruct (nth_error (loops s) j) as [[| |]|]; try discriminate. injection H as <-. reflexivity.
  - destruct (nth_error (loops s) j) as [[| |]|]; try discriminate.
    destruct ((limit s =? 0) || (0 <? permits s)); [|discriminate]. injection H as <-. reflexivity.
  - destruct (nth_error (exports s) i) as [[| |]|]; try discriminate. injection H as <-. reflexivity.
  - destruct (nth_error (exports s) i) as [[| |]|]; try discriminate. injection H as <-. reflexivity.
  - injection H as <-. reflexivity.
  - destruct (nth_error (loops s) j) as [[| |]|]; try discriminate. destruct (shutdown_called s); [|discriminate]. injection H as <-. reflexivity.
  - destruct (shutdown_called s && (wg s =? 0)); [|discriminate]. injection H as <-. reflexivity.
Qed.

Lemma rstep_queues_shape st e st1 : rstep st e = Some st1 ->
  match e with
  | Spawn ts => queues st1 = queues st ++ [ts]
  | Deliver i | Skip i => exists t tl, nth_error (queues st) i = Some (t :: tl) /\ queues st1 = set_q i tl (queues st)
  | _ => queues st1 = queues st
  end.
Proof.
  destruct e as [n|ts|i|i|w|w|w]; cbn [rstep]; intros H.
  - destruct (0 <? n)%Z; [|discriminate]. injection H as <-. reflexivity.
  - destruct (tuples_ok (ncallers st) ts && within_future st ts); [|discriminate]. injection H as <-. reflexivity.
  - destruct (nth_error (queues st) i) as [[|[w c] tl]|] eqn:En; try discriminate.
    destruct (cbuf (callers st w)); [discriminate|]. injection H as <-. exists (w, c), tl. split; reflexivity.
  - destruct (nth_error (queues st) i) as [[|[w c] tl]|] eqn:En; try discriminate.
    destruct (ctx_done (callers st w)); [|discriminate]. injection H as <-. exists (w, c), tl. split; reflexivity.
  - destruct (Nat.ltb w (ncallers st) && negb (returned (callers st w))); [|discriminate].
    destruct (cbuf (callers st w)); [|discriminate]. injection H as <-. reflexivity.
  - destruct (Nat.ltb w (ncallers st)); [|discriminate]. injection H as <-. reflexivity.
  - destruct (Nat.ltb w (ncallers st) && negb (returned (callers st w)) && ctx_done (callers st w)); [|discriminate]. injection H as <-. reflexivity.
Qed.

Lemma nth_error_app_last {A} (l : list A) x i : nth_error (l ++ [x]) i = if Nat.ltb i (length l) then nth_error l i else if Nat.eqb i (length l) then Some x else None.
Proof.
  revert i. induction l as [|a l IH]; intros [|i]; cbn [app nth_error length]; try reflexivity.
  - destruct i; reflexivity.
  - rewrite IH. reflexivity.
Qed.

Lemma pstep_inv s e s1 : PInv s -> pstep s e = Some s1 -> PInv s1.
Proof.
  intros (HL & HR & Hlen & Hdone) H. destruct e as [e|j ts|i|e]; cbn [pstep] in H.
  - (* PL *)
    assert (Hne : match e with Acquire _ | Finish _ => False | _ => True end) by (destruct e; try exact I; discriminate).
    assert (H' : match lstep (pl s) e with Some l => Some {| pl := l; pr := pr s |} | None => None end = Some s1) by (destruct e; try exact H; contradiction).
    clear H. destruct (lstep (pl s) e) as [l|] eqn:E; [|discriminate]. injection H' as <-. unfold PInv. cbn [pl pr].
    pose proof (lstep_exports_shape _ _ _ E) as Hsh. destruct (lstep_inv _ _ _ HL E) as [HL1 _].
    split; [exact HL1|]. split; [exact HR|].
    destruct e; try contradiction; try (rewrite Hsh; split; [exact Hlen|exact Hdone]).
    (* ExportEnd *)
    rewrite Hsh, set_nth_length. split; [exact Hlen|]. intros k Hk. rewrite nth_set_nth in Hk.
    destruct (Nat.eqb i k); [destruct (nth_error (exports (pl s)) k); discriminate|apply Hdone; exact Hk].
  - (* PAcquire *)
    destruct (lstep (pl s) (Acquire j)) as [l|] eqn:El; [|discriminate].
    destruct (rstep (pr s) (Spawn ts)) as [r|] eqn:Er; [|discriminate]. injection H as <-. unfold PInv. cbn [pl pr].
    pose proof (lstep_exports_shape _ _ _ El) as Hsh. pose proof (rstep_queues_shape _ _ _ Er) as Hq. cbn in Hsh, Hq.
    destruct (lstep_inv _ _ _ HL El) as [HL1 _]. pose proof (rstep_inv _ _ _ HR Er) as HR1.
    split; [exact HL1|]. split; [exact HR1|]. rewrite Hsh, Hq, !app_length. cbn [length]. split; [lia|].
    intros k Hk. rewrite (nth_error_app_last (exports (pl s)) ERunning k) in Hk. rewrite (nth_error_app_last (queues (pr s)) ts k). rewrite <- Hlen.
    destruct (Nat.ltb k (length (exports (pl s)))); [apply Hdone; exact Hk|].
    destruct (Nat.eqb k (length (exports (pl s)))); discriminate.
  - (* PFinish *)
    destruct (nth_error (queues (pr s)) i) as [[|t tl]|] eqn:Eq; try discriminate.
    destruct (lstep (pl s) (Finish i)) as [l|] eqn:El; [|discriminate]. injection H as <-. unfold PInv. cbn [pl pr].
    pose proof (lstep_exports_shape _ _ _ El) as Hsh. cbn in Hsh. destruct (lstep_inv _ _ _ HL El) as [HL1 _].
    split; [exact HL1|]. split; [exact HR|]. rewrite Hsh, set_nth_length. split; [exact Hlen|].
    intros k Hk. rewrite nth_set_nth in Hk. destruct (Nat.eqb i k) eqn:E.
    + apply Nat.eqb_eq in E. subst k. exact Eq.
    + apply Hdone. exact Hk.
  - (* PR *)
    destruct e as [n|ts|i|i|w|w|w]; try discriminate.
    + destruct (rstep (pr s) (NewCaller n)) as [r|] eqn:Er; [|discriminate]. injection H as <-. unfold PInv. cbn [pl pr].
      pose proof (rstep_queues_shape _ _ _ Er) as Hq. cbn in Hq. rewrite Hq.
      split; [exact HL|]. split; [exact (rstep_inv _ _ _ HR Er)|]. split; [exact Hlen|exact Hdone].
    + destruct (nth_error (exports (pl s)) i) as [[| |]|] eqn:Ee; try discriminate.
      destruct (rstep (pr s) (Deliver i)) as [r|] eqn:Er; [|discriminate]. injection H as <-. unfold PInv. cbn [pl pr].
      destruct (rstep_queues_shape _ _ _ Er) as (t & tl & Hn & Hq). rewrite Hq, set_q_length.
      split; [exact HL|]. split; [exact (rstep_inv _ _ _ HR Er)|]. split; [exact Hlen|].
      intros k Hk. rewrite nth_set_q. destruct (Nat.eqb i k) eqn:E; [apply Nat.eqb_eq in E; subst k; congruence|apply Hdone; exact Hk].
    + destruct (nth_error (exports (pl s)) i) as [[| |]|] eqn:Ee; try discriminate.
      destruct (rstep (pr s) (Skip i)) as [r|] eqn:Er; [|discriminate]. injection H as <-. unfold PInv. cbn [pl pr].
      destruct (rstep_queues_shape _ _ _ Er) as (t & tl & Hn & Hq). rewrite Hq, set_q_length.
      split; [exact HL|]. split; [exact (rstep_inv _ _ _ HR Er)|]. split; [exact Hlen|].
      intros k Hk. rewrite nth_set_q. destruct (Nat.eqb i k) eqn:E; [apply Nat.eqb_eq in E; subst k; congruence|apply Hdone; exact Hk].
    + destruct (rstep (pr s) (Receive w)) as [r|] eqn:Er; [|discriminate]. injection H as <-. unfold PInv. cbn [pl pr].
      pose proof (rstep_queues_shape _ _ _ Er) as Hq. cbn in Hq. rewrite Hq.
      split; [exact HL|]. split; [exact (rstep_inv _ _ _ HR Er)|]. split; [exact Hlen|exact Hdone].
    + destruct (rstep (pr s) (Cancel w)) as [r|] eqn:Er; [|discriminate]. injection H as <-. unfold PInv. cbn [pl pr].
      pose proof (rstep_queues_shape _ _ _ Er) as Hq. cbn in Hq. rewrite Hq.
      split; [exact HL|]. split; [exact (rstep_inv _ _ _ HR Er)|]. split; [exact Hlen|exact Hdone].
    + destruct (rstep (pr s) (CtxReturn w)) as [r|] eqn:Er; [|discriminate]. injection H as <-. unfold PInv. cbn [pl pr].
      pose proof (rstep_queues_shape _ _ _ Er) as Hq. cbn in Hq. rewrite Hq.
      split; [exact HL|]. split; [exact (rstep_inv _ _ _ HR Er)|]. split; [exact Hlen|exact Hdone].
Qed.

Lemma prun_inv : forall evs s s1, PInv s -> prun s evs = Some s1 -> PInv s1.
Proof.
  induction evs as [|e tl IH]; intros s s1 HI H; cbn [prun] in H.
  - injection H as <-. exact HI.
  - destruct (pstep s e) as [sa|] eqn:E; [|discriminate]. eapply IH; [eapply pstep_inv; eassumption|exact H].
Qed.

(* steps of the processor itself: everything except new requests, Shutdown being called, a shard deciding to send
   (that is driven by requests and timers) and a caller's context ending *)
Definition pinternal (e : pev) : Prop :=
  match e with
  | PL NewShard | PL CallShutdown | PL (Decide _) => False
  | PR (NewCaller _) | PR (Cancel _) => False
  | _ => True
  end.

Lemma spawn_nil_enabled st : RInv st -> exists r, rstep st (Spawn []) = Some r.
Proof.
  intros [Hc _]. cbn [rstep]. cbn [tuples_ok forallb andb].
  assert (Hw : within_future st [] = true).
  { unfold within_future. apply forallb_forall. intros k Hk. apply in_seq in Hk. apply Z.leb_le. cbn.
    destruct (Hc k ltac:(lia)) as (H1 & _). exact H1. }
  rewrite Hw. eexists. reflexivity.
Qed.

(* no deadlock in the product: Shutdown called and not yet returned => a step of the processor is enabled *)
Theorem prod_progress lim evs s :
  prun (pinit lim) evs = Some s -> shutdown_called (pl s) = true -> shutdown_returned (pl s) = false ->
  exists e, pstep s e <> None /\ pinternal e.
Proof.
  intros H Hc Hr. pose proof (prun_inv _ _ _ (PInv_init lim) H) as (HL & HR & Hlen & Hdone).
  pose proof HL as (Hp & Hw & Hs & Hd).
  unfold in_flight, alive in *.
  destruct (N.eq_dec (lenN (filter e_live (exports (pl s)))) 0) as [Hz|Hnz].
  - destruct (N.eq_dec (lenN (filter l_live (loops (pl s)))) 0) as [Ha|Ha].
    + exists (PL ShutdownReturn). split; [|exact I]. cbn [pstep lstep]. rewrite Hc.
      assert (E : wg (pl s) =? 0 = true) by lia. rewrite E. cbn. discriminate.
    + destruct (exists_live l_live (loops (pl s)) ltac:(lia)) as (j & p & Hj & Hlive).
      destruct p; cbn in Hlive; try discriminate.
      * exists (PL (LoopExit j)). split; [|exact I]. cbn [pstep lstep]. rewrite Hj, Hc. discriminate.
      * destruct (spawn_nil_enabled _ HR) as [r Hsp].
        exists (PAcquire j []). split; [|exact I]. cbn [pstep]. rewrite Hsp. cbn [lstep]. rewrite Hj.
        destruct (limit (pl s) =? 0) eqn:E0; cbn [orb]; [discriminate|].
        assert (Hl : 0 < limit (pl s)) by lia. specialize (Hp Hl).
        assert (E : 0 <? permits (pl s) = true) by lia. rewrite E. discriminate.
  - destruct (exists_live e_live (exports (pl s)) ltac:(lia)) as (i & p & Hi & Hlive).
    destruct p; cbn in Hlive; try discriminate.
    + exists (PL (ExportEnd i)). split; [|exact I]. cbn [pstep lstep]. rewrite Hi. discriminate.
    + (* responding: either nothing left to answer, or Resp.v's no-deadlock theorem applies *)
      assert (Hq : exists q, nth_error (queues (pr s)) i = Some q).
      { destruct (nth_error (queues (pr s)) i) as [q|] eqn:E; [eexists; reflexivity|].
        apply nth_error_None in E. assert (nth_error (exports (pl s)) i <> None) by congruence.
        apply nth_error_Some in H0. lia. }
      destruct Hq as [[|[w c] tl] Hq].
      * exists (PFinish i). split; [|exact I]. cbn [pstep]. rewrite Hq. cbn [lstep]. rewrite Hi. discriminate.
      * destruct (export_not_stuck _ _ _ _ _ HR Hq) as [[r Hd1]|[[r Hd1]|[r Hd1]]].
        -- exists (PR (Deliver i)). split; [|exact I]. cbn [pstep]. rewrite Hi, Hd1. discriminate.
        -- exists (PR (Skip i)). split; [|exact I]. cbn [pstep]. rewrite Hi, Hd1. discriminate.
        -- exists (PR (Receive w)). split; [|exact I]. cbn [pstep]. rewrite Hd1. discriminate.
Qed.

(* Shutdown returns only when every shard loop has returned, every export goroutine is done and has answered
   (or skipped, for callers whose context ended) every tuple of its batch *)
Theorem prod_drain lim evs s :
  prun (pinit lim) evs = Some s -> shutdown_returned (pl s) = true ->
  alive (pl s) = 0 /\ in_flight (pl s) = 0 /\ Forall (fun q => q = []) (queues (pr s)).
Proof.
  intros H Hr. pose proof (prun_inv _ _ _ (PInv_init lim) H) as ((Hp & Hw & Hs & Hd) & HR & Hlen & Hdone).
  destruct (Hs Hr) as [Hz _]. assert (Ha : alive (pl s) = 0) by lia. assert (Hi : in_flight (pl s) = 0) by lia.
  split; [exact Ha|]. split; [exact Hi|].
  apply Forall_forall. intros q Hin. apply In_nth_error in Hin. destruct Hin as [i Hq].
  assert (He : exists p, nth_error (exports (pl s)) i = Some p).
  { destruct (nth_error (exports (pl s)) i) as [p|] eqn:E; [eexists; reflexivity|].
    apply nth_error_None in E. assert (nth_error (queues (pr s)) i <> None) by congruence. apply nth_error_Some in H0. lia. }
  destruct He as [p He]. destruct p.
  - exfalso. unfold in_flight in Hi. pose proof (nth_live e_live _ _ _ He eq_refl). lia.
  - exfalso. unfold in_flight in Hi. pose proof (nth_live e_live _ _ _ He eq_refl). lia.
  - specialize (Hdone i He). congruence.
Qed.

Example prod_example :
  let evs := [PL NewShard; PR (NewCaller 3%Z); PL (Decide 0); PAcquire 0%nat [(0%nat, 3%Z)]; PL CallShutdown;
              PL (ExportEnd 0); PR (Deliver 0); PFinish 0; PR (Receive 0); PL (LoopExit 0); PL ShutdownReturn] in
  match prun (pinit 1) evs with Some s => shutdown_returned (pl s) | None => false end = true /\
  (* an export cannot finish while it still owes an answer *)
  prun (pinit 1) [PL NewShard; PR (NewCaller 3%Z); PL (Decide 0); PAcquire 0%nat [(0%nat, 3%Z)]; PL (ExportEnd 0); PFinish 0] = None.
Proof. split; vm_compute; reflexivity. Qed.
