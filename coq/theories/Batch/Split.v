(* Batch/Split.v — model of splitTraces / splitLogs / splitMetrics (+ splitMetric and the
   four split*DataPoints) of the concurrent batch processor.

   A batch is a forest of fixed depth: depth 2 for traces/logs (resource > scope > item),
   depth 3 for metrics (resource > scope > metric > data point).  Every container carries an
   identity (ident): for a resource its attributes, dropped count AND schema URL; for a scope
   name, version, attributes, dropped count AND schema URL; for a metric name, description,
   unit, type, temporality, monotonicity AND metadata.  The harness interns the identity into
   two numbers: `core` = what Resource().CopyTo / Scope().CopyTo / SetName.. copy, `extra` =
   the rest (schema URL; metric metadata).  Leaves are item ids. *)
From Verif Require Import Base.ListX.

Definition ident := (N * N)%type.

Fixpoint T (d : nat) : Type :=
  match d with
  | O => N
  | S d' => (ident * list (T d'))%type
  end.

Fixpoint count (d : nat) : T d -> N :=
  match d with
  | O => fun _ => 1
  | S d' => fun t => sumN (map (count d') (snd t))
  end.

Definition count_list (d : nat) (l : list (T d)) : N := sumN (map (count d) l).

(* items with the identities of the containers above them, outermost first *)
Fixpoint flat (d : nat) : T d -> list (list ident * N) :=
  match d with
  | O => fun x => [([], x)]
  | S d' => fun t => map (fun pi => (fst t :: fst pi, snd pi)) (flat_map (flat d') (snd t))
  end.

Definition flat_list (d : nat) (l : list (T d)) : list (list ident * N) := flat_map (flat d) l.

(* How a partially moved container's identity is re-created in the destination.
   After the `fix:` commit every identity field is copied.  `copy_ident_v0` is the code
   before the fix (Resource()/Scope() CopyTo only; metric metadata not copied). *)
Definition copy_ident (i : ident) : ident := i.
Definition copy_ident_v0 (i : ident) : ident := (fst i, 0).

Section Split.
  Variable cp : ident -> ident.
  Variable size : N.

  (* RemoveIf over the children at one level with the running counter `total`.
     Returns (moved to dest, kept in src, new total). *)
  Fixpoint split_list (d : nat) (top : bool) : N -> list (T d) -> (list (T d) * list (T d) * N) :=
    match d as d0 return N -> list (T d0) -> (list (T d0) * list (T d0) * N) with
    | O => fix go (total : N) (l : list (T O)) {struct l} :=
        match l with
        | [] => ([], [], total)
        | x :: tl =>
            if total =? size then
              let '(dst, rst, t) := go total tl in (dst, x :: rst, t)
            else
              let '(dst, rst, t) := go (total + 1) tl in (x :: dst, rst, t)
        end
    | S d' => fix go (total : N) (l : list (T (S d'))) {struct l} :=
        match l with
        | [] => ([], [], total)
        | c :: tl =>
            if total =? size then
              let '(dst, rst, t) := go total tl in (dst, c :: rst, t)
            else
              let n := count (S d') c in
              if total + n <=? size then
                let '(dst, rst, t) := go (total + n) tl in (c :: dst, rst, t)
              else
                let '(dk, rk, t1) := split_list d' false total (snd c) in
                let '(dst, rst, t) := go t1 tl in
                let keep := if top then negb (match rk with [] => true | _ => false end) else true in
                ((cp (fst c), dk) :: dst, (if keep then (fst c, rk) :: rst else rst), t)
        end
    end.

  (* split{Traces,Logs,Metrics}: when everything fits the source itself is returned (and the
     caller, splitBatch, never calls it in that case). *)
  Definition split (d : nat) (src : list (T (S d))) : list (T (S d)) * list (T (S d)) :=
    if count_list (S d) src <=? size then (src, [])
    else let '(dst, rst, _) := split_list (S d) true 0 src in (dst, rst).
End Split.

(* ---------------------------------------------------------------- proofs *)

Lemma count_flat d (t : T d) : count d t = lenN (flat d t).
Proof.
  induction d as [|d IH]; [reflexivity|]. destruct t as [i kids]. cbn [count flat fst snd].
  unfold lenN. rewrite map_length. induction kids as [|k kids IHk]; [reflexivity|].
  cbn [map flat_map]. rewrite sumN_cons, app_length, IH, IHk. unfold lenN. lia.
Qed.

Lemma count_list_flat d l : count_list d l = lenN (flat_list d l).
Proof.
  unfold count_list, flat_list. induction l as [|a l IH]; [reflexivity|].
  cbn [map flat_map]. rewrite sumN_cons, lenN_app, IH, count_flat. reflexivity.
Qed.

Lemma flat_node d (i : ident) (kids : list (T d)) :
  flat (S d) (i, kids) = map (fun pi => (i :: fst pi, snd pi)) (flat_list d kids).
Proof. reflexivity. Qed.

Lemma count_node d (i : ident) (kids : list (T d)) : count (S d) (i, kids) = count_list d kids.
Proof. reflexivity. Qed.

Lemma count_list_cons d a l : count_list d (a :: l) = count d a + count_list d l.
Proof. reflexivity. Qed.
Lemma count_list_nil d : count_list d [] = 0.
Proof. reflexivity. Qed.
Lemma flat_list_cons d a l : flat_list d (a :: l) = flat d a ++ flat_list d l.
Proof. reflexivity. Qed.
Lemma flat_list_nil d : flat_list d [] = [].
Proof. reflexivity. Qed.
Lemma count_leaf (x : T 0) : count 0 x = 1.
Proof. reflexivity. Qed.
Lemma count0_flat_nil d l : count_list d l = 0 -> flat_list d l = [].
Proof.
  rewrite count_list_flat. destruct (flat_list d l); [reflexivity|]. rewrite lenN_cons. lia.
Qed.

(* The split at one level, specified: with free = size - total slots left,
   - the counter ends at min size (total + count l),
   - with every identity copied (cp = id) the items of dest followed by the items of rest are
     exactly the items of l, with all their container identities, in the original order. *)
Section SplitProofs.
  Variable size : N.

  Lemma split_leaf_eq top total (x : T 0) tl :
    split_list copy_ident size 0 top total (x :: tl) =
      if total =? size then
        let '(dst, rst, t) := split_list copy_ident size 0 top total tl in (dst, x :: rst, t)
      else
        let '(dst, rst, t) := split_list copy_ident size 0 top (total + 1) tl in (x :: dst, rst, t).
  Proof. reflexivity. Qed.

  Lemma split_node_eq d top total (c : T (S d)) tl :
    split_list copy_ident size (S d) top total (c :: tl) =
      if total =? size then
        let '(dst, rst, t) := split_list copy_ident size (S d) top total tl in (dst, c :: rst, t)
      else
        let n := count (S d) c in
        if total + n <=? size then
          let '(dst, rst, t) := split_list copy_ident size (S d) top (total + n) tl in (c :: dst, rst, t)
        else
          let '(dk, rk, t1) := split_list copy_ident size d false total (snd c) in
          let '(dst, rst, t) := split_list copy_ident size (S d) top t1 tl in
          let keep := if top then negb (match rk with [] => true | _ => false end) else true in
          ((copy_ident (fst c), dk) :: dst, (if keep then (fst c, rk) :: rst else rst), t).
  Proof. reflexivity. Qed.

  Lemma split_nil_eq d top total : split_list copy_ident size d top total [] = ([], [], total).
  Proof. destruct d; reflexivity. Qed.

  Lemma split_list_spec d : forall top total l dst rst t,
    total <= size ->
    split_list copy_ident size d top total l = (dst, rst, t) ->
    t = N.min size (total + count_list d l) /\
    flat_list d dst ++ flat_list d rst = flat_list d l /\
    count_list d dst = t - total.
  Proof.
    induction d as [|d IHd]; intros top total l; revert total.
    - induction l as [|x tl IH]; intros total dst rst t Hle H.
      + rewrite split_nil_eq in H. injection H as <- <- <-.
        rewrite !count_list_nil, !flat_list_nil. split; [lia|]. split; [reflexivity|lia].
      + rewrite split_leaf_eq in H. destruct (total =? size) eqn:E.
        * destruct (split_list copy_ident size 0 top total tl) as [[d1 r1] t1] eqn:E1.
          injection H as <- <- <-.
          apply IH in E1; [|exact Hle]. destruct E1 as (Ht & Hf & Hc).
          apply N.eqb_eq in E. subst total.
          assert (Hd1 : flat_list 0 d1 = []) by (apply count0_flat_nil; lia).
          rewrite !count_list_cons, !flat_list_cons, count_leaf. rewrite Hd1 in *. cbn [app] in *.
          rewrite Hf. split; [lia|]. split; [reflexivity|lia].
        * destruct (split_list copy_ident size 0 top (total + 1) tl) as [[d1 r1] t1] eqn:E1.
          injection H as <- <- <-.
          apply N.eqb_neq in E.
          apply IH in E1; [|lia]. destruct E1 as (Ht & Hf & Hc).
          rewrite !count_list_cons, !flat_list_cons, !count_leaf.
          rewrite <- app_assoc, Hf. split; [lia|]. split; [reflexivity|lia].
    - induction l as [|c tl IH]; intros total dst rst t Hle H.
      + rewrite split_nil_eq in H. injection H as <- <- <-.
        rewrite !count_list_nil, !flat_list_nil. split; [lia|]. split; [reflexivity|lia].
      + rewrite split_node_eq in H. destruct (total =? size) eqn:E.
        * destruct (split_list copy_ident size (S d) top total tl) as [[d1 r1] t1] eqn:E1.
          injection H as <- <- <-.
          apply IH in E1; [|exact Hle]. destruct E1 as (Ht & Hf & Hc).
          apply N.eqb_eq in E. subst total.
          assert (Hd1 : flat_list (S d) d1 = []) by (apply count0_flat_nil; lia).
          rewrite !count_list_cons, !flat_list_cons. rewrite Hd1 in *. cbn [app] in *.
          rewrite Hf. split; [lia|]. split; [reflexivity|lia].
        * apply N.eqb_neq in E. cbv zeta in H.
          destruct (total + count (S d) c <=? size) eqn:E2.
          -- destruct (split_list copy_ident size (S d) top (total + count (S d) c) tl) as [[d1 r1] t1] eqn:E1.
             injection H as <- <- <-.
             apply N.leb_le in E2.
             apply IH in E1; [|exact E2]. destruct E1 as (Ht & Hf & Hc).
             rewrite !count_list_cons, !flat_list_cons.
             rewrite <- app_assoc, Hf. split; [lia|]. split; [reflexivity|lia].
          -- apply N.leb_gt in E2.
             destruct c as [i kids]. cbn [fst snd] in H.
             destruct (split_list copy_ident size d false total kids) as [[dk rk] tk] eqn:Ek.
             destruct (split_list copy_ident size (S d) top tk tl) as [[d1 r1] t1] eqn:E1.
             apply IHd in Ek; [|exact Hle]. destruct Ek as (Htk & Hfk & Hck).
             rewrite count_node in E2.
             assert (Htk' : tk = size) by lia.
             apply IH in E1; [|lia]. destruct E1 as (Ht1 & Hf1 & Hc1).
             assert (Hd1 : flat_list (S d) d1 = []) by (apply count0_flat_nil; lia).
             assert (Hrk : rk <> []).
             { intros ->. rewrite flat_list_nil, app_nil_r in Hfk.
               pose proof (count_list_flat d kids) as H1. pose proof (count_list_flat d dk) as H2.
               rewrite <- Hfk in H1. lia. }
             assert (Hkeep : (if top then negb (match rk with [] => true | _ => false end) else true) = true).
             { destruct top; [|reflexivity]. destruct rk; [congruence|reflexivity]. }
             rewrite Hkeep in H. injection H as <- <- <-.
             rewrite !count_list_cons, !flat_list_cons, !count_node.
             split; [lia|]. split; [|lia].
             unfold copy_ident. rewrite !flat_node, Hd1. cbn [app]. rewrite Hd1 in Hf1. cbn [app] in Hf1.
             rewrite Hf1, app_nil_r, app_assoc, <- map_app, Hfk. reflexivity.
  Qed.

  (* splitTraces/Logs/Metrics: dest holds exactly min(size, count) items, nothing is lost,
     duplicated or re-parented, and order is kept. *)
  Lemma split_conserves d src dst rst :
    split copy_ident size d src = (dst, rst) ->
    size < count_list (S d) src ->
    flat_list (S d) dst ++ flat_list (S d) rst = flat_list (S d) src /\
    count_list (S d) dst = size /\
    count_list (S d) rst = count_list (S d) src - size.
  Proof.
    unfold split. intros H Hlt. destruct (count_list (S d) src <=? size) eqn:E; [apply N.leb_le in E; lia|].
    destruct (split_list copy_ident size (S d) true 0 src) as [[d1 r1] t1] eqn:E1.
    injection H as <- <-. apply split_list_spec in E1; [|lia]. destruct E1 as (Ht & Hf & Hc).
    split; [exact Hf|]. split; [lia|].
    pose proof (count_list_flat (S d) src) as H1. pose proof (count_list_flat (S d) d1) as H2.
    pose proof (count_list_flat (S d) r1) as H3. rewrite <- Hf, lenN_app in H1. lia.
  Qed.
End SplitProofs.

(* The legacy code loses the schema URL / metadata of a container that is split. *)
Lemma split_v0_refuted :
  exists size src dst rst,
    split copy_ident_v0 size 1 src = (dst, rst) /\ size < count_list 2 src /\
    flat_list 2 dst ++ flat_list 2 rst <> flat_list 2 src.
Proof.
  exists 1, [((1, 5), [((2, 6), [10; 11])])].
  eexists. eexists. split; [vm_compute; reflexivity|]. split; [vm_compute; reflexivity|].
  vm_compute. discriminate.
Qed.

(* boolean equality on forests, for the case files *)
Definition ident_eqb (a b : ident) : bool := N.eqb (fst a) (fst b) && N.eqb (snd a) (snd b).
Fixpoint T_eqb (d : nat) : T d -> T d -> bool :=
  match d with
  | O => N.eqb
  | S d' => fun a b => ident_eqb (fst a) (fst b) && list_eqb (T_eqb d') (snd a) (snd b)
  end.
Definition forest_eqb (d : nat) := list_eqb (T_eqb d).
