(* Batch/Ctx.v — model of allSameContext / parentSpans / the choice of the export
   context in shard.sendItems' goroutine (batch_processor.go).
   A caller context is an abstract label (N); two pendingTuples carry the same label
   iff they carry the same context.Context value. *)
From Verif Require Import Base.ListX.

(* Go:  for idx := range x[1:] { if x[idx+1].ctx != x[0].ctx { return false } }; return true
   x[1:] panics on an empty slice: None models that panic. *)
Definition all_same_context (x : list N) : option bool :=
  match x with
  | [] => None
  | c0 :: tl => Some (forallb (N.eqb c0) tl)
  end.

(* The code as it stood before the fix (`x[idx]` instead of `x[idx+1]`): it compares
   x[0..n-2] with x[0] and never looks at the last contributor. Kept as the recorded finding. *)
Definition all_same_context_v0 (x : list N) : option bool :=
  match x with
  | [] => None
  | c0 :: _ => Some (forallb (N.eqb c0) (removelast x))
  end.

Definition parent_spans (x : list N) : list N := uniq x.

Inductive export_ctx := FromCaller (c : N) | FromShard.

Record plan := { p_ctx : export_ctx; p_links : list N (* contexts whose spans are linked, both ways *) }.

Definition export_plan (x : list N) : option plan :=
  match all_same_context x with
  | None => None
  | Some true => Some {| p_ctx := FromCaller (hd 0 x); p_links := [] |}
  | Some false => Some {| p_ctx := FromShard; p_links := parent_spans x |}
  end.

Definition export_plan_v0 (x : list N) : option plan :=
  match all_same_context_v0 x with
  | None => None
  | Some true => Some {| p_ctx := FromCaller (hd 0 x); p_links := [] |}
  | Some false => Some {| p_ctx := FromShard; p_links := parent_spans x |}
  end.

(* An export is at the mercy of caller context d exactly when it runs under d. *)
Definition depends_on (d : N) (p : plan) : Prop := p_ctx p = FromCaller d.

Lemma forallb_eqb_all c l : forallb (N.eqb c) l = true <-> (forall y, In y l -> y = c).
Proof.
  rewrite forallb_forall. split; intros H y Hy.
  - apply H in Hy. apply N.eqb_eq in Hy. auto.
  - apply N.eqb_eq. symmetry. auto.
Qed.

Lemma all_same_spec c0 tl :
  all_same_context (c0 :: tl) = Some true <-> (forall y, In y (c0 :: tl) -> y = c0).
Proof.
  cbn [all_same_context]. split.
  - intros H. injection H as H. rewrite forallb_eqb_all in H. intros y [Hy|Hy]; auto.
  - intros H. f_equal. apply forallb_eqb_all. intros y Hy. apply H. right. exact Hy.
Qed.

Lemma all_same_total x : x <> [] -> exists b, all_same_context x = Some b.
Proof. destruct x; [congruence|]. intros _. eexists. reflexivity. Qed.

(* single context: exported as a child of that request *)
Lemma plan_single c0 tl :
  (forall y, In y (c0 :: tl) -> y = c0) ->
  export_plan (c0 :: tl) = Some {| p_ctx := FromCaller c0; p_links := [] |}.
Proof.
  intros H. unfold export_plan. rewrite (proj2 (all_same_spec c0 tl) H). reflexivity.
Qed.

(* more than one context, at ANY position: exported under the shard's own context with a
   link to every contributing request, each exactly once *)
Lemma plan_multi x :
  x <> [] -> (exists y, In y x /\ y <> hd 0 x) ->
  exists links, export_plan x = Some {| p_ctx := FromShard; p_links := links |}
     /\ NoDup links /\ (forall c, In c links <-> In c x).
Proof.
  intros Hne [y [Hy Hd]]. destruct x as [|c0 tl]; [congruence|]. cbn [hd] in Hd.
  unfold export_plan. destruct (all_same_context (c0 :: tl)) as [[|]|] eqn:E.
  - apply (proj1 (all_same_spec c0 tl) E) in Hy. congruence.
  - exists (parent_spans (c0 :: tl)). split; [reflexivity|]. split; [apply uniq_NoDup|].
    intros c. apply uniq_In.
  - cbn in E. discriminate.
Qed.

(* the isolation statement: an export depends on caller context d only if every
   contributor of the batch submitted under d *)
Lemma plan_isolation x p d :
  export_plan x = Some p -> depends_on d p -> forall c, In c x -> c = d.
Proof.
  unfold export_plan, depends_on. destruct x as [|c0 tl]; [discriminate|].
  destruct (all_same_context (c0 :: tl)) as [[|]|] eqn:E; intros Hp Hd; try discriminate.
  - injection Hp as <-. cbn in Hd. injection Hd as <-. apply (proj1 (all_same_spec c0 tl) E).
  - injection Hp as <-. cbn in Hd. discriminate.
Qed.

(* The legacy code violates it: contributors [a; b] are exported under a. *)
Lemma plan_v0_refuted :
  exists x p d c, export_plan_v0 x = Some p /\ depends_on d p /\ In c x /\ c <> d.
Proof.
  exists [1; 2], {| p_ctx := FromCaller 1; p_links := [] |}, 1, 2.
  split; [reflexivity|]. split; [reflexivity|]. split; [right; left; reflexivity|discriminate].
Qed.

(* boolean checkers used by the case files *)
Definition export_ctx_eqb (a b : export_ctx) : bool :=
  match a, b with
  | FromCaller x, FromCaller y => N.eqb x y
  | FromShard, FromShard => true
  | _, _ => false
  end.

Definition plan_eqb (a b : plan) : bool :=
  export_ctx_eqb (p_ctx a) (p_ctx b) && list_eqb N.eqb (p_links a) (p_links b).

Definition oplan_eqb (a b : option plan) : bool :=
  match a, b with
  | Some x, Some y => plan_eqb x y
  | None, None => true
  | _, _ => false
  end.

(* the isolation predicate in boolean form, evaluated on the implementation's real output *)
Definition isolation_okb (x : list N) (p : plan) : bool :=
  match p_ctx p with
  | FromCaller d => forallb (N.eqb d) x
  | FromShard => forallb (fun c => existsb (N.eqb c) (p_links p)) x
  end.

Lemma isolation_okb_sound x p d :
  isolation_okb x p = true -> depends_on d p -> forall c, In c x -> c = d.
Proof.
  unfold isolation_okb, depends_on. intros H Hd. rewrite Hd in H.
  apply forallb_eqb_all. exact H.
Qed.
