(* Batch/Shard.v — model of one shard of the concurrent batch processor:
   processItem / flushItems / sendItems (incl. the apportioning loop) / splitBatch / add,
   the timer branch and the final flush of startLoop (batch_processor.go).
   The shard goroutine is sequential: its behaviour is a deterministic function of the
   sequence of inputs it receives (items from the channel, timer fires, the final flush after
   shutdown).  Every interleaving of concurrent callers, timers and Shutdown is some such
   sequence, so a statement for all event lists is a statement for all schedules (the export
   goroutines and the callers are modelled in Lts.v).

   totalSent is a uint64 in the code; the model uses unbounded N (no shard sends 2^64 items). *)
From Verif Require Import Base.ListX Batch.Split.

Section Shard.
  Variable d : nat.              (* 1: traces/logs (resource>scope>item); 2: metrics *)
  Notation forest := (list (T (S d))).

  Record cfg := { send_size : N; max_size : N; timer : bool }.
  (* timer = (timeout != 0 && send_batch_size != 0); Config.Validate: max = 0 \/ send_size <= max *)
  Definition valid (c : cfg) : Prop :=
    (max_size c = 0 \/ send_size c <= max_size c) /\ (timer c = true -> 0 < send_size c).

  Record pend := { pd_ctx : N; pd_num : N; pd_waiter : N }.
  Record tuple := { tp_waiter : N; tp_count : N; tp_ctx : N }.
  Record shard := { buf : forest; cnt : N; pending : list pend; total_sent : N }.
  Record send := { s_trigger : N; s_sent : N; s_req : forest; s_tuples : list tuple }.

  Definition init : shard := {| buf := []; cnt := 0; pending := []; total_sent := 0 |}.

  (* the loop `for len(b.pending) > 0 && numItemsBefore < numItemsAfter` of sendItems *)
  Fixpoint apportion (pd : list pend) (before after : N) : list tuple * list pend :=
    match pd with
    | [] => ([], [])
    | p :: tl =>
        if before <? after then
          if after <? before + pd_num p then
            let partial := after - before in
            ([{| tp_waiter := pd_waiter p; tp_count := partial; tp_ctx := pd_ctx p |}],
             {| pd_ctx := pd_ctx p; pd_num := pd_num p - partial; pd_waiter := pd_waiter p |} :: tl)
          else
            let '(ts, rest) := apportion tl (before + pd_num p) after in
            ({| tp_waiter := pd_waiter p; tp_count := pd_num p; tp_ctx := pd_ctx p |} :: ts, rest)
        else ([], pd)
    end.

  (* splitBatch *)
  Definition split_batch (c : cfg) (s : shard) : N * forest * forest * N :=
    if (0 <? max_size c) && (max_size c <? cnt s) then
      let '(dst, rst) := split copy_ident (max_size c) d (buf s) in
      (max_size c, dst, rst, cnt s - max_size c)
    else (cnt s, buf s, [], 0).

  Definition send_items (c : cfg) (trig : N) (s : shard) : shard * send :=
    let '(sent, req, buf', cnt') := split_batch c s in
    let '(ts, pd') := apportion (pending s) (total_sent s) (total_sent s + sent) in
    ({| buf := buf'; cnt := cnt'; pending := pd'; total_sent := total_sent s + sent |},
     {| s_trigger := trig; s_sent := sent; s_req := req; s_tuples := ts |}).

  Definition must_flush (c : cfg) (s : shard) : bool :=
    (0 <? cnt s) && (negb (timer c) || (send_size c <=? cnt s)).

  (* flushItems; the fuel only bounds the loop syntactically: flush_fuel_enough shows the loop
     condition is false when it stops *)
  Fixpoint flush (fuel : nat) (c : cfg) (s : shard) : shard * list send :=
    match fuel with
    | O => (s, [])
    | S f =>
        if must_flush c s then
          let '(s1, e) := send_items c 1 s in
          let '(s2, es) := flush f c s1 in (s2, e :: es)
        else (s, [])
    end.

  Definition process_item (c : cfg) (s : shard) (data : forest) (ctx waiter : N) : shard * list send :=
    let n := count_list (S d) data in
    let s1 := {| buf := if n =? 0 then buf s else buf s ++ data;
                 cnt := cnt s + n;
                 pending := pending s ++ [{| pd_ctx := ctx; pd_num := n; pd_waiter := waiter |}];
                 total_sent := total_sent s |} in
    flush (S (N.to_nat (cnt s1))) c s1.

  Inductive ev :=
  | Recv (data : forest) (ctx waiter : N)   (* case item := <-b.newItem  (also inside the shutdown drain) *)
  | Timer                                    (* case <-timerCh *)
  | Final.                                   (* after the shutdown drain: if itemCount > 0 sendItems *)

  Definition step (c : cfg) (s : shard) (e : ev) : shard * list send :=
    match e with
    | Recv data ctx w => process_item c s data ctx w
    | Timer | Final => if 0 <? cnt s then let '(s1, x) := send_items c 0 s in (s1, [x]) else (s, [])
    end.

  Fixpoint run (c : cfg) (s : shard) (evs : list ev) : shard * list send :=
    match evs with
    | [] => (s, [])
    | e :: tl => let '(s1, out1) := step c s e in let '(s2, out2) := run c s1 tl in (s2, out1 ++ out2)
    end.

  (* ------------------------------------------------------------ invariants *)

  Definition pend_sum (pd : list pend) : N := sumN (map pd_num pd).
  Definition tuple_sum (ts : list tuple) : N := sumN (map tp_count ts).

  Definition Inv (s : shard) : Prop :=
    cnt s = count_list (S d) (buf s) /\ pend_sum (pending s) = cnt s.

  Lemma Inv_init : Inv init.
  Proof. split; reflexivity. Qed.

  Lemma apportion_spec pd : forall before after ts rest,
    apportion pd before after = (ts, rest) ->
    before <= after -> after - before <= pend_sum pd ->
    tuple_sum ts = after - before /\ pend_sum rest = pend_sum pd - (after - before).
  Proof.
    induction pd as [|p tl IH]; intros before after ts rest H Hle Hs; cbn [apportion] in H.
    - injection H as <- <-. unfold pend_sum, tuple_sum in *. cbn in *. lia.
    - unfold pend_sum in *. cbn [map] in *. rewrite sumN_cons in *.
      destruct (before <? after) eqn:E1.
      + destruct (after <? before + pd_num p) eqn:E2.
        * injection H as <- <-. unfold tuple_sum. cbn [map tp_count pd_num]. rewrite !sumN_cons. cbn [sumN fold_right]. lia.
        * destruct (apportion tl (before + pd_num p) after) as [ts1 r1] eqn:E3.
          injection H as <- <-. apply IH in E3; [|lia|lia].
          unfold tuple_sum in *. cbn [map tp_count]. rewrite sumN_cons. lia.
      + injection H as <- <-. unfold tuple_sum. cbn [map]. rewrite sumN_cons. cbn. lia.
  Qed.

  Lemma apportion_nonempty pd before after ts rest :
    apportion pd before after = (ts, rest) -> before < after -> pd <> [] -> ts <> [].
  Proof.
    destruct pd as [|p tl]; [congruence|]. cbn [apportion]. intros H Hlt _.
    assert (E : before <? after = true) by lia. rewrite E in H.
    destruct (after <? before + pd_num p); [injection H as <- <-; discriminate|].
    destruct (apportion tl (before + pd_num p) after). injection H as <- <-. discriminate.
  Qed.

  (* what one send must satisfy *)
  Definition send_ok (c : cfg) (e : send) : Prop :=
    1 <= s_sent e /\ (0 < max_size c -> s_sent e <= max_size c) /\
    s_sent e = count_list (S d) (s_req e) /\ tuple_sum (s_tuples e) = s_sent e /\ s_tuples e <> [].

  Lemma pend_sum_pos_nonempty pd : 0 < pend_sum pd -> pd <> [].
  Proof. destruct pd; [cbn; lia|congruence]. Qed.

  Lemma send_items_spec c trig s s1 e :
    Inv s -> 0 < cnt s -> send_items c trig s = (s1, e) ->
    Inv s1 /\ send_ok c e /\ cnt s1 = cnt s - s_sent e /\
    flat_list (S d) (s_req e) ++ flat_list (S d) (buf s1) = flat_list (S d) (buf s) /\
    total_sent s1 = total_sent s + s_sent e.
  Proof.
    intros [Hc Hp] Hpos. unfold send_items, split_batch.
    destruct ((0 <? max_size c) && (max_size c <? cnt s)) eqn:E.
    - apply andb_true_iff in E. destruct E as [E1 E2]. apply N.ltb_lt in E1, E2.
      destruct (split copy_ident (max_size c) d (buf s)) as [dst rst] eqn:Es.
      apply split_conserves in Es; [|lia]. destruct Es as (Hf & Hcd & Hcr).
      destruct (apportion (pending s) (total_sent s) (total_sent s + max_size c)) as [ts pd'] eqn:Ea.
      intros H. injection H as <- <-. cbn [buf cnt pending total_sent s_sent s_req s_tuples].
      assert (Hpne : pending s <> []) by (apply pend_sum_pos_nonempty; lia).
      assert (Hne : ts <> []) by (eapply apportion_nonempty; [exact Ea|lia|exact Hpne]).
      apply apportion_spec in Ea; [|lia|lia]. destruct Ea as [Ht Hr].
      unfold Inv, send_ok. cbn [buf cnt pending total_sent s_sent s_req s_tuples].
      repeat split; try lia; try assumption.
    - destruct (apportion (pending s) (total_sent s) (total_sent s + cnt s)) as [ts pd'] eqn:Ea.
      intros H. injection H as <- <-. cbn [buf cnt pending total_sent s_sent s_req s_tuples].
      assert (Hpne : pending s <> []) by (apply pend_sum_pos_nonempty; lia).
      assert (Hne : ts <> []) by (eapply apportion_nonempty; [exact Ea|lia|exact Hpne]).
      apply apportion_spec in Ea; [|lia|lia]. destruct Ea as [Ht Hr].
      unfold Inv, send_ok. cbn [buf cnt pending total_sent s_sent s_req s_tuples].
      rewrite flat_list_nil, app_nil_r.
      assert (Hmax : 0 < max_size c -> cnt s <= max_size c).
      { intros Hm. apply andb_false_iff in E. destruct E as [E|E]; [apply N.ltb_ge in E; lia|apply N.ltb_ge in E; exact E]. }
      repeat split; try lia; try assumption; try reflexivity.
  Qed.

  Definition sends_flat (es : list send) : list (list ident * N) :=
    flat_map (fun e => flat_list (S d) (s_req e)) es.

  Lemma flush_spec c : forall fuel s s1 es,
    Inv s -> flush fuel c s = (s1, es) ->
    Inv s1 /\ Forall (send_ok c) es /\
    sends_flat es ++ flat_list (S d) (buf s1) = flat_list (S d) (buf s) /\
    (N.to_nat (cnt s) < fuel -> must_flush c s1 = false)%nat.
  Proof.
    induction fuel as [|f IH]; intros s s1 es HI H; cbn [flush] in H.
    - injection H as <- <-. repeat split; try apply HI; [constructor|lia].
    - destruct (must_flush c s) eqn:Em.
      + destruct (send_items c 1 s) as [sa e] eqn:Es.
        destruct (flush f c sa) as [sb es'] eqn:Ef.
        injection H as <- <-.
        assert (Hpos : 0 < cnt s) by (unfold must_flush in Em; lia).
        apply send_items_spec in Es; [|exact HI|exact Hpos].
        destruct Es as (HIa & Hok & Hcnt & Hfl & _).
        apply IH in Ef; [|exact HIa]. destruct Ef as (HIb & Hoks & Hfl2 & Hfuel).
        split; [exact HIb|]. split; [constructor; assumption|]. split.
        * unfold sends_flat in *. cbn [flat_map]. rewrite <- app_assoc, Hfl2. exact Hfl.
        * intros Hlt. apply Hfuel. destruct Hok as (H1 & _). lia.
      + injection H as <- <-. repeat split; try apply HI; [constructor|].
        intros _. exact Em.
  Qed.

  Lemma count_list_app l1 l2 : count_list (S d) (l1 ++ l2) = count_list (S d) l1 + count_list (S d) l2.
  Proof. unfold count_list. rewrite map_app, sumN_app. reflexivity. Qed.

  Lemma flat_list_app l1 l2 : flat_list (S d) (l1 ++ l2) = flat_list (S d) l1 ++ flat_list (S d) l2.
  Proof. unfold flat_list. apply flat_map_app. Qed.

  Definition ev_flat (e : ev) : list (list ident * N) :=
    match e with Recv data _ _ => flat_list (S d) data | _ => [] end.

  (* after a step: timer => fewer than send_size items buffered; no timer => nothing buffered *)
  Definition quiescent (c : cfg) (s : shard) : Prop :=
    if timer c then cnt s < send_size c else cnt s = 0.

  Lemma step_spec c s e s1 es :
    valid c -> Inv s -> quiescent c s -> step c s e = (s1, es) ->
    Inv s1 /\ Forall (send_ok c) es /\ quiescent c s1 /\
    sends_flat es ++ flat_list (S d) (buf s1) = flat_list (S d) (buf s) ++ ev_flat e.
  Proof.
    intros Hv HI Hq. destruct e as [data ctx w| |]; cbn [step ev_flat].
    - unfold process_item. intros H.
      set (n := count_list (S d) data) in *.
      set (s0 := {| buf := if n =? 0 then buf s else buf s ++ data; cnt := cnt s + n;
                    pending := pending s ++ [{| pd_ctx := ctx; pd_num := n; pd_waiter := w |}];
                    total_sent := total_sent s |}) in *.
      assert (HI0 : Inv s0).
      { destruct HI as [Hc Hp]. unfold Inv, s0. cbn [buf cnt pending]. split.
        - destruct (n =? 0) eqn:En; [apply N.eqb_eq in En; lia|]. rewrite count_list_app. fold n. lia.
        - unfold pend_sum in *. rewrite map_app, sumN_app. cbn. lia. }
      assert (Hfl0 : flat_list (S d) (buf s0) = flat_list (S d) (buf s) ++ flat_list (S d) data).
      { unfold s0. cbn [buf]. destruct (n =? 0) eqn:En; [|apply flat_list_app].
        apply N.eqb_eq in En. rewrite (count0_flat_nil _ _ En), app_nil_r. reflexivity. }
      apply flush_spec in H; [|exact HI0]. destruct H as (HI1 & Hoks & Hfl & Hfuel).
      split; [exact HI1|]. split; [exact Hoks|]. split; [|rewrite Hfl; exact Hfl0].
      specialize (Hfuel ltac:(lia)). unfold must_flush in Hfuel. unfold quiescent.
      destruct (timer c) eqn:Et; cbn [negb orb] in Hfuel; [|lia].
      destruct Hv as [_ Hv2]. specialize (Hv2 Et). lia.
    - destruct (0 <? cnt s) eqn:E.
      + destruct (send_items c 0 s) as [sa x] eqn:Es. intros H. injection H as <- <-.
        apply N.ltb_lt in E. apply send_items_spec in Es; [|exact HI|exact E].
        destruct Es as (HIa & Hok & Hcnt & Hfl & _).
        split; [exact HIa|]. split; [constructor; [exact Hok|constructor]|]. split.
        * unfold quiescent in *. destruct (timer c); lia.
        * unfold sends_flat. cbn [flat_map]. rewrite !app_nil_r. exact Hfl.
      + intros H. injection H as <- <-. split; [exact HI|]. split; [constructor|]. split; [exact Hq|].
        cbn. rewrite app_nil_r. reflexivity.
    - destruct (0 <? cnt s) eqn:E.
      + destruct (send_items c 0 s) as [sa x] eqn:Es. intros H. injection H as <- <-.
        apply N.ltb_lt in E. apply send_items_spec in Es; [|exact HI|exact E].
        destruct Es as (HIa & Hok & Hcnt & Hfl & _).
        split; [exact HIa|]. split; [constructor; [exact Hok|constructor]|]. split.
        * unfold quiescent in *. destruct (timer c); lia.
        * unfold sends_flat. cbn [flat_map]. rewrite !app_nil_r. exact Hfl.
      + intros H. injection H as <- <-. split; [exact HI|]. split; [constructor|]. split; [exact Hq|].
        cbn. rewrite app_nil_r. reflexivity.
  Qed.

  Lemma sends_flat_app a b : sends_flat (a ++ b) = sends_flat a ++ sends_flat b.
  Proof. unfold sends_flat. apply flat_map_app. Qed.

  (* every reachable state, every event sequence *)
  Lemma run_spec c : forall evs s s1 es,
    valid c -> Inv s -> quiescent c s -> run c s evs = (s1, es) ->
    Inv s1 /\ Forall (send_ok c) es /\ quiescent c s1 /\
    sends_flat es ++ flat_list (S d) (buf s1) = flat_list (S d) (buf s) ++ flat_map ev_flat evs.
  Proof.
    induction evs as [|e tl IH]; intros s s1 es Hv HI Hq H; cbn [run] in H.
    - injection H as <- <-. split; [exact HI|]. split; [constructor|]. split; [exact Hq|].
      cbn. rewrite app_nil_r. reflexivity.
    - destruct (step c s e) as [sa out1] eqn:E1. destruct (run c sa tl) as [sb out2] eqn:E2.
      injection H as <- <-.
      apply step_spec in E1; try assumption. destruct E1 as (HIa & Hok1 & Hqa & Hfl1).
      apply IH in E2; try assumption. destruct E2 as (HIb & Hok2 & Hqb & Hfl2).
      split; [exact HIb|]. split; [apply Forall_app; split; assumption|]. split; [exact Hqb|].
      rewrite sends_flat_app, <- app_assoc, Hfl2, app_assoc, Hfl1. cbn [flat_map].
      rewrite <- !app_assoc. reflexivity.
  Qed.

  Lemma quiescent_init c : valid c -> quiescent c init.
  Proof. intros [_ Hv]. unfold quiescent, init. cbn. destruct (timer c); [apply Hv; reflexivity|reflexivity]. Qed.

  (* a Final event leaves nothing behind *)
  Lemma final_drains c s s1 es : Inv s -> step c s Final = (s1, es) -> valid c -> quiescent c s -> cnt s1 = 0.
  Proof.
    intros HI H Hv Hq. cbn [step] in H. destruct (0 <? cnt s) eqn:E.
    - destruct (send_items c 0 s) as [sa x] eqn:Es. injection H as <- <-.
      apply N.ltb_lt in E. unfold send_items, split_batch in Es.
      assert (E2 : (0 <? max_size c) && (max_size c <? cnt s) = false).
      { apply andb_false_iff. destruct Hv as [[Hm|Hm] Ht]; [left; lia|].
        right. apply N.ltb_ge. unfold quiescent in Hq. destruct (timer c); lia. }
      rewrite E2 in Es. destruct (apportion _ _ _). injection Es as <- _. reflexivity.
    - injection H as <- <-. lia.
  Qed.
  Lemma run_app c : forall evs1 evs2 s,
    run c s (evs1 ++ evs2) =
      let '(s1, o1) := run c s evs1 in let '(s2, o2) := run c s1 evs2 in (s2, o1 ++ o2).
  Proof.
    induction evs1 as [|e tl IH]; intros evs2 s; cbn [run app].
    - destruct (run c s evs2). reflexivity.
    - destruct (step c s e) as [sa o1]. rewrite IH.
      destruct (run c sa tl) as [sb o2]. destruct (run c sb evs2) as [sc o3].
      rewrite app_assoc. reflexivity.
  Qed.

  (* From the initial state: what has been exported so far, followed by what is still buffered,
     is exactly what was received — same items, same order, same container identities. *)
  Lemma exactly_once c evs s1 es :
    valid c -> run c init evs = (s1, es) ->
    Inv s1 /\ Forall (send_ok c) es /\ quiescent c s1 /\
    sends_flat es ++ flat_list (S d) (buf s1) = flat_map ev_flat evs.
  Proof.
    intros Hv H. apply run_spec in H; [|exact Hv|exact Inv_init|apply quiescent_init; exact Hv].
    exact H.
  Qed.

  (* The final flush after Shutdown leaves nothing behind. *)
  Lemma shutdown_complete c evs s1 es :
    valid c -> run c init (evs ++ [Final]) = (s1, es) ->
    cnt s1 = 0 /\ sends_flat es = flat_map ev_flat evs.
  Proof.
    intros Hv H. rewrite run_app in H.
    destruct (run c init evs) as [sa o1] eqn:E1.
    destruct (run c sa [Final]) as [sb o2] eqn:E2. injection H as <- <-.
    pose proof (exactly_once _ _ _ _ Hv E1) as (HIa & _ & Hqa & Hfl).
    cbn [run] in E2. destruct (step c sa Final) as [sc o3] eqn:E3. injection E2 as <- <-.
    pose proof (final_drains _ _ _ _ HIa E3 Hv Hqa) as Hz.
    apply step_spec in E3; try assumption. destruct E3 as (HIc & _ & _ & Hfl3).
    split; [exact Hz|].
    assert (Hb : flat_list (S d) (buf sc) = []).
    { apply count0_flat_nil. destruct HIc as [Hc _]. lia. }
    rewrite Hb, app_nil_r in Hfl3. cbn [ev_flat] in Hfl3. rewrite app_nil_r in Hfl3.
    rewrite app_nil_r, sends_flat_app, Hfl3. exact Hfl.
  Qed.
  (* ---------------------------------------------------- per-waiter accounting (C06) *)
  Definition pend_for (w : N) (pd : list pend) : N :=
    sumN (map pd_num (filter (fun p => N.eqb (pd_waiter p) w) pd)).
  Definition tuples_for (w : N) (ts : list tuple) : N :=
    sumN (map tp_count (filter (fun t => N.eqb (tp_waiter t) w) ts)).
  Definition sent_for (w : N) (es : list send) : N := sumN (map (fun e => tuples_for w (s_tuples e)) es).
  Definition ev_for (w : N) (e : ev) : N :=
    match e with Recv data _ w' => if N.eqb w' w then count_list (S d) data else 0 | _ => 0 end.
  Definition recv_for (w : N) (evs : list ev) : N := sumN (map (ev_for w) evs).

  Lemma pend_for_le w pd : pend_for w pd <= pend_sum pd.
  Proof.
    unfold pend_for, pend_sum. induction pd as [|p tl IH]; cbn [filter map]; [cbn; lia|].
    destruct (N.eqb (pd_waiter p) w); cbn [map]; rewrite ?sumN_cons; lia.
  Qed.

  Lemma apportion_for w pd : forall before after ts rest,
    apportion pd before after = (ts, rest) ->
    before <= after -> after - before <= pend_sum pd ->
    tuples_for w ts + pend_for w rest = pend_for w pd.
  Proof.
    induction pd as [|p tl IH]; intros before after ts rest H Hle Hs; cbn [apportion] in H.
    - injection H as <- <-. reflexivity.
    - unfold pend_sum in Hs. cbn [map] in Hs. rewrite sumN_cons in Hs.
      destruct (before <? after) eqn:E1.
      + destruct (after <? before + pd_num p) eqn:E2.
        * injection H as <- <-. unfold tuples_for, pend_for. cbn [filter map tp_waiter pd_waiter].
          destruct (N.eqb (pd_waiter p) w); cbn [map tp_count pd_num]; rewrite ?sumN_cons; cbn [sumN fold_right]; lia.
        * destruct (apportion tl (before + pd_num p) after) as [ts1 r1] eqn:E3.
          injection H as <- <-. apply IH in E3; [|lia|unfold pend_sum; lia].
          unfold tuples_for, pend_for in *. cbn [filter map tp_waiter].
          destruct (N.eqb (pd_waiter p) w); cbn [map tp_count]; rewrite ?sumN_cons; lia.
      + injection H as <- <-. unfold tuples_for. cbn. lia.
  Qed.

  Lemma send_items_for w c trig s s1 e :
    Inv s -> 0 < cnt s -> send_items c trig s = (s1, e) ->
    tuples_for w (s_tuples e) + pend_for w (pending s1) = pend_for w (pending s).
  Proof.
    intros [Hc Hp] Hpos. unfold send_items, split_batch.
    destruct ((0 <? max_size c) && (max_size c <? cnt s)) eqn:E.
    - apply andb_true_iff in E. destruct E as [E1 E2]. apply N.ltb_lt in E1, E2.
      destruct (split copy_ident (max_size c) d (buf s)) as [dst rst].
      destruct (apportion (pending s) (total_sent s) (total_sent s + max_size c)) as [ts pd'] eqn:Ea.
      intros H. injection H as <- <-. cbn [pending s_tuples].
      eapply apportion_for; [exact Ea|lia|lia].
    - destruct (apportion (pending s) (total_sent s) (total_sent s + cnt s)) as [ts pd'] eqn:Ea.
      intros H. injection H as <- <-. cbn [pending s_tuples].
      eapply apportion_for; [exact Ea|lia|lia].
  Qed.

  Lemma flush_for w c : forall fuel s s1 es,
    Inv s -> flush fuel c s = (s1, es) ->
    sent_for w es + pend_for w (pending s1) = pend_for w (pending s).
  Proof.
    induction fuel as [|f IH]; intros s s1 es HI H; cbn [flush] in H.
    - injection H as <- <-. reflexivity.
    - destruct (must_flush c s) eqn:Em.
      + destruct (send_items c 1 s) as [sa e] eqn:Es. destruct (flush f c sa) as [sb es'] eqn:Ef.
        injection H as <- <-.
        assert (Hpos : 0 < cnt s) by (unfold must_flush in Em; lia).
        pose proof (send_items_for w _ _ _ _ _ HI Hpos Es) as H1.
        apply send_items_spec in Es; [|exact HI|exact Hpos]. destruct Es as (HIa & _).
        apply IH in Ef; [|exact HIa]. unfold sent_for in *. cbn [map]. rewrite sumN_cons. lia.
      + injection H as <- <-. reflexivity.
  Qed.

  Lemma step_for w c s e s1 es :
    Inv s -> step c s e = (s1, es) ->
    sent_for w es + pend_for w (pending s1) = pend_for w (pending s) + ev_for w e.
  Proof.
    intros HI. destruct e as [data ctx w'| |]; cbn [step ev_for].
    - unfold process_item. intros H.
      set (n := count_list (S d) data) in *.
      set (s0 := {| buf := if n =? 0 then buf s else buf s ++ data; cnt := cnt s + n;
                    pending := pending s ++ [{| pd_ctx := ctx; pd_num := n; pd_waiter := w' |}];
                    total_sent := total_sent s |}) in *.
      assert (HI0 : Inv s0).
      { destruct HI as [Hc Hp]. unfold Inv, s0. cbn [buf cnt pending]. split.
        - destruct (n =? 0) eqn:En; [apply N.eqb_eq in En; lia|]. rewrite count_list_app. fold n. lia.
        - unfold pend_sum in *. rewrite map_app, sumN_app. cbn. lia. }
      apply (flush_for w) in H; [|exact HI0]. rewrite H. unfold s0. cbn [pending].
      unfold pend_for. rewrite filter_app, map_app, sumN_app. cbn [filter pd_waiter].
      destruct (N.eqb w' w); cbn; lia.
    - destruct (0 <? cnt s) eqn:E.
      + destruct (send_items c 0 s) as [sa x] eqn:Es. intros H. injection H as <- <-.
        apply N.ltb_lt in E. pose proof (send_items_for w _ _ _ _ _ HI E Es) as H1.
        unfold sent_for. cbn. lia.
      + intros H. injection H as <- <-. cbn. lia.
    - destruct (0 <? cnt s) eqn:E.
      + destruct (send_items c 0 s) as [sa x] eqn:Es. intros H. injection H as <- <-.
        apply N.ltb_lt in E. pose proof (send_items_for w _ _ _ _ _ HI E Es) as H1.
        unfold sent_for. cbn. lia.
      + intros H. injection H as <- <-. cbn. lia.
  Qed.

  Lemma sent_for_app w a b : sent_for w (a ++ b) = sent_for w a + sent_for w b.
  Proof. unfold sent_for. rewrite map_app, sumN_app. reflexivity. Qed.

  Lemma run_for w c : forall evs s s1 es,
    valid c -> Inv s -> quiescent c s -> run c s evs = (s1, es) ->
    sent_for w es + pend_for w (pending s1) = pend_for w (pending s) + recv_for w evs.
  Proof.
    induction evs as [|e tl IH]; intros s s1 es Hv HI Hq H; cbn [run] in H.
    - injection H as <- <-. cbn. lia.
    - destruct (step c s e) as [sa o1] eqn:E1. destruct (run c sa tl) as [sb o2] eqn:E2.
      injection H as <- <-.
      pose proof (step_for w _ _ _ _ _ HI E1) as H1.
      apply step_spec in E1; try assumption. destruct E1 as (HIa & _ & Hqa & _).
      apply IH in E2; try assumption.
      rewrite sent_for_app. unfold recv_for in *. cbn [map]. rewrite sumN_cons. lia.
  Qed.

  (* Every waiter is told about exactly the items it submitted: never more along the way,
     and all of them once the final flush has happened. *)
  Lemma waiter_accounting w c evs s1 es :
    valid c -> run c init evs = (s1, es) ->
    sent_for w es + pend_for w (pending s1) = recv_for w evs.
  Proof.
    intros Hv H. apply (run_for w) in H; [|exact Hv|exact Inv_init|apply quiescent_init; exact Hv].
    cbn in H. lia.
  Qed.

  Lemma waiter_accounting_final w c evs s1 es :
    valid c -> run c init (evs ++ [Final]) = (s1, es) -> sent_for w es = recv_for w evs.
  Proof.
    intros Hv H. pose proof (waiter_accounting w _ _ _ _ Hv H) as Ha.
    pose proof (shutdown_complete _ _ _ _ Hv H) as [Hz _].
    pose proof (exactly_once _ _ _ _ Hv H) as ([_ Hp] & _).
    pose proof (pend_for_le w (pending s1)) as Hle.
    unfold recv_for in *. rewrite map_app, sumN_app in Ha. cbn in Ha. lia.
  Qed.
End Shard.

Arguments Recv {d}. Arguments Timer {d}. Arguments Final {d}.
