(* Batch/Chan.v — the shard's input channel during the shutdown drain of startLoop.

   `newItem` is a buffered channel (capacity runtime.NumCPU()); a producer that finds it full parks on it.  Go's channel
   semantics: a receive from a full buffer with parked senders takes the head of the buffer and moves the first parked
   sender's item into the buffer in the same step (that sender is released — with early_return it is acknowledged).
   The drain loop after Shutdown is `for { select { case item := <-newItem: processItem(item); default: break } }`:
   it receives until the buffer is empty.  Proved: it processes everything that was queued or parked when it started,
   in order, and leaves nothing behind; a drain bounded by a snapshot of the queue length (a plausible "tidy-up") does
   not. *)
From Verif Require Import Base.ListX.

Section Chan.
  Variable item : Type.
  Record chan := { queued : list item; parked : list item }.

  (* senders park only on a full (in particular non-empty) buffer *)
  Definition wf (c : chan) : Prop := parked c <> [] -> queued c <> [].

  Definition recv (c : chan) : option (item * chan) :=
    match queued c with
    | [] => None                                   (* select takes the default arm *)
    | x :: tl =>
        Some (x, match parked c with
                 | [] => {| queued := tl; parked := [] |}
                 | p :: ps => {| queued := tl ++ [p]; parked := ps |}
                 end)
    end.

  Lemma recv_wf c x c1 : recv c = Some (x, c1) -> wf c1.
  Proof.
    unfold recv, wf. destruct (queued c) as [|y tl]; [discriminate|]. destruct (parked c) as [|p ps]; intros H; injection H as _ <-; cbn.
    - intros Hp. congruence.
    - intros _. destruct tl; discriminate.
  Qed.

  (* the drain loop; the fuel only bounds it syntactically *)
  Fixpoint drain (fuel : nat) (c : chan) : list item * chan :=
    match fuel with
    | O => ([], c)
    | S f => match recv c with
             | None => ([], c)
             | Some (x, c1) => let '(xs, c2) := drain f c1 in (x :: xs, c2)
             end
    end.

  Lemma drain_S f c : drain (S f) c =
    match recv c with None => ([], c) | Some (x, c1) => let '(xs, c2) := drain f c1 in (x :: xs, c2) end.
  Proof. reflexivity. Qed.

  Lemma drain_spec : forall n c, wf c -> (length (queued c) + length (parked c) <= n)%nat ->
    drain n c = (queued c ++ parked c, {| queued := []; parked := [] |}).
  Proof.
    induction n as [|n IH]; intros [q p] Hwf H; unfold wf in Hwf; cbn [queued parked] in *.
    - destruct q; [|cbn in H; lia]. destruct p; [reflexivity|cbn in H; lia].
    - rewrite drain_S. unfold recv. cbn [queued parked]. destruct q as [|x tl].
      + destruct p as [|y ps]; [reflexivity|]. exfalso. apply Hwf; [discriminate|reflexivity].
      + destruct p as [|y ps].
        * rewrite IH; [|intros Hp; cbn in Hp; congruence|cbn [queued parked length] in *; lia].
          cbn [queued parked]. rewrite !app_nil_r. reflexivity.
        * rewrite IH; [|intros _; cbn; destruct tl; discriminate|cbn [queued parked length] in *; rewrite app_length; cbn [length]; lia].
          cbn [queued parked]. rewrite <- app_assoc. reflexivity.
  Qed.

  (* the loop as the code has it: everything queued or parked is processed, nothing stays behind *)
  Theorem drain_complete c : wf c ->
    drain (length (queued c) + length (parked c)) c = (queued c ++ parked c, {| queued := []; parked := [] |}).
  Proof. intros H. apply drain_spec; [exact H|lia]. Qed.

  (* a drain bounded by a snapshot of the queue length stops early: the parked senders' items (moved into the buffer
     and acknowledged by the receives) stay behind *)
  Definition drain_snapshot (c : chan) : list item * chan := drain (length (queued c)) c.
End Chan.

Example drain_snapshot_refuted :
  let c := {| queued := [1; 2]%N; parked := [3; 4; 5]%N |} in
  drain N (length (queued N c) + length (parked N c)) c = ([1; 2; 3; 4; 5]%N, {| queued := []; parked := [] |}) /\
  drain_snapshot N c = ([1; 2]%N, {| queued := [3; 4]%N; parked := [5]%N |}).
Proof. split; vm_compute; reflexivity. Qed.
