(* Batch/EndToEnd.v — the caller's side composed with the shard (C06).

   Shard.v gives, for every event sequence of a shard, the batches it sends and, per batch, the
   tuples (waiter, count) that the export goroutine will answer.  Wait.v gives the caller's loop.
   Here the two are composed: the k-th export finishes with outcome [err k] (None = success) and
   then sends countedError{err k, count} to every tuple's waiter; the exports run concurrently, so
   the responses of a waiter arrive in ANY order (a permutation of the order in which the batches
   were cut).  For every shard history, every outcome assignment and every arrival order, a caller
   whose context stays alive returns exactly when its last response arrives — which is after every
   export carrying one of its items has returned — and its result wraps exactly the failures of
   those exports.

   consumeBatch returns nil at once for a request without items (it never reaches the shard), so
   every Recv event carries at least one item: hypothesis [all_pos]. *)
From Coq Require Import Permutation.
From Verif Require Import Base.ListX Batch.Split Batch.Shard Batch.Wait.

Local Arguments s_sent {d}. Local Arguments s_tuples {d}. Local Arguments s_req {d}.
Local Arguments cnt {d}. Local Arguments buf {d}. Local Arguments pending {d}. Local Arguments total_sent {d}.

Section EndToEnd.
  Variable d : nat.
  Open Scope N_scope.

  Definition ev_pos (e : ev d) : Prop :=
    match e with Recv data _ _ => 0 < count_list (S d) data | _ => True end.
  Definition all_pos (evs : list (ev d)) : Prop := Forall ev_pos evs.

  Definition pend_pos (pd : list pend) : Prop := Forall (fun p => 0 < pd_num p) pd.
  Definition tuples_pos (ts : list tuple) : Prop := Forall (fun t => 0 < tp_count t) ts.
  Definition sends_pos (es : list (send d)) : Prop := Forall (fun e => tuples_pos (s_tuples e)) es.

  Lemma apportion_pos pd : forall before after ts rest,
    apportion pd before after = (ts, rest) -> pend_pos pd -> tuples_pos ts /\ pend_pos rest.
  Proof.
    induction pd as [|p tl IH]; intros before after ts rest H Hp; cbn [apportion] in H.
    - injection H as <- <-. split; constructor.
    - inversion Hp as [|? ? Hp1 Hp2]; subst. destruct (before <? after) eqn:E1.
      + destruct (after <? before + pd_num p) eqn:E2.
        * injection H as <- <-. apply N.ltb_lt in E1, E2. split.
          -- repeat constructor. cbn. lia.
          -- constructor; [cbn; lia|exact Hp2].
        * destruct (apportion tl (before + pd_num p) after) as [ts1 r1] eqn:E3. injection H as <- <-.
          apply IH in E3; [|exact Hp2]. destruct E3 as [H1 H2]. split; [constructor; [exact Hp1|exact H1]|exact H2].
      + injection H as <- <-. split; [constructor|exact Hp].
  Qed.

  Lemma send_items_pos c trig s s1 e :
    send_items d c trig s = (s1, e) -> pend_pos (pending s) -> tuples_pos (s_tuples e) /\ pend_pos (pending s1).
  Proof.
    unfold send_items. destruct (split_batch d c s) as [[[sent req] buf'] cnt'].
    destruct (apportion (pending s) (total_sent s) (total_sent s + sent)) as [ts pd'] eqn:Ea.
    intros H Hp. injection H as <- <-. cbn. eapply apportion_pos; [exact Ea|exact Hp].
  Qed.

  Lemma flush_pos c : forall fuel s s1 es,
    flush d fuel c s = (s1, es) -> pend_pos (pending s) -> sends_pos es /\ pend_pos (pending s1).
  Proof.
    induction fuel as [|f IH]; intros s s1 es H Hp; cbn [flush] in H.
    - injection H as <- <-. split; [constructor|exact Hp].
    - destruct (must_flush d c s).
      + destruct (send_items d c 1 s) as [sa e] eqn:Es. destruct (flush d f c sa) as [sb es'] eqn:Ef.
        injection H as <- <-. apply send_items_pos in Es; [|exact Hp]. destruct Es as [H1 H2].
        apply IH in Ef; [|exact H2]. destruct Ef as [H3 H4]. split; [constructor; assumption|exact H4].
      + injection H as <- <-. split; [constructor|exact Hp].
  Qed.

  Lemma step_pos c s e s1 es :
    step d c s e = (s1, es) -> ev_pos e -> pend_pos (pending s) -> sends_pos es /\ pend_pos (pending s1).
  Proof.
    destruct e as [data ctx w| |]; cbn [step ev_pos]; intros H He Hp.
    - unfold process_item in H. apply flush_pos in H; [exact H|]. cbn [pending].
      apply Forall_app. split; [exact Hp|]. repeat constructor. cbn. exact He.
    - destruct (0 <? cnt s).
      + destruct (send_items d c 0 s) as [sa x] eqn:Es. injection H as <- <-.
        apply send_items_pos in Es; [|exact Hp]. destruct Es as [H1 H2]. split; [repeat constructor; exact H1|exact H2].
      + injection H as <- <-. split; [constructor|exact Hp].
    - destruct (0 <? cnt s).
      + destruct (send_items d c 0 s) as [sa x] eqn:Es. injection H as <- <-.
        apply send_items_pos in Es; [|exact Hp]. destruct Es as [H1 H2]. split; [repeat constructor; exact H1|exact H2].
      + injection H as <- <-. split; [constructor|exact Hp].
  Qed.

  Lemma run_pos c : forall evs s s1 es,
    run d c s evs = (s1, es) -> all_pos evs -> pend_pos (pending s) -> sends_pos es /\ pend_pos (pending s1).
  Proof.
    induction evs as [|e tl IH]; intros s s1 es H He Hp; cbn [run] in H.
    - injection H as <- <-. split; [constructor|exact Hp].
    - destruct (step d c s e) as [sa o1] eqn:E1. destruct (run d c sa tl) as [sb o2] eqn:E2.
      injection H as <- <-. inversion He as [|? ? He1 He2]; subst.
      apply step_pos in E1; [|exact He1|exact Hp]. destruct E1 as [H1 H2].
      apply IH in E2; [|exact He2|exact H2]. destruct E2 as [H3 H4].
      split; [apply Forall_app; split; assumption|exact H4].
  Qed.

  (* ------------------------------------------------------------ responses *)
  Variable err : nat -> option N.        (* outcome of the k-th export of the shard *)

  Definition resps_of (w : N) (k : nat) (e : send d) : list resp :=
    map (fun t => {| r_err := err k; r_count := Z.of_N (tp_count t) |})
        (filter (fun t => N.eqb (tp_waiter t) w) (s_tuples e)).

  Fixpoint responses_from (w : N) (k : nat) (es : list (send d)) : list resp :=
    match es with
    | [] => []
    | e :: tl => resps_of w k e ++ responses_from w (S k) tl
    end.
  Definition responses (w : N) (es : list (send d)) : list resp := responses_from w 0 es.

  Lemma total_app a b : total (a ++ b) = (total a + total b)%Z.
  Proof. unfold total. induction a as [|x a IH]; cbn [app map fold_right]; [lia|]. rewrite IH. lia. Qed.

  Lemma total_resps_of w k e : total (resps_of w k e) = Z.of_N (tuples_for w (s_tuples e)).
  Proof.
    unfold resps_of, tuples_for, total. induction (s_tuples e) as [|t tl IH]; cbn [filter map fold_right]; [reflexivity|].
    destruct (N.eqb (tp_waiter t) w); cbn [map fold_right r_count]; [|exact IH].
    rewrite sumN_cons, IH. lia.
  Qed.

  Lemma total_responses w : forall es k, total (responses_from w k es) = Z.of_N (sent_for d w es).
  Proof.
    induction es as [|e tl IH]; intros k; cbn [responses_from]; [reflexivity|].
    rewrite total_app, total_resps_of, IH. unfold sent_for. cbn [map]. rewrite sumN_cons. lia.
  Qed.

  Lemma responses_pos w : forall es k, sends_pos es -> Forall (fun r => (0 < r_count r)%Z) (responses_from w k es).
  Proof.
    induction es as [|e tl IH]; intros k Hp; cbn [responses_from]; [constructor|].
    inversion Hp as [|? ? H1 H2]; subst. apply Forall_app. split; [|apply IH; exact H2].
    unfold resps_of. apply Forall_forall. intros r Hr. apply in_map_iff in Hr. destruct Hr as (t & <- & Ht).
    apply filter_In in Ht. destruct Ht as [Ht _]. unfold tuples_pos in H1. rewrite Forall_forall in H1.
    specialize (H1 t Ht). cbn. lia.
  Qed.

  (* which exports carry items of w, and whether they all succeeded *)
  Fixpoint all_ok_from (w : N) (k : nat) (es : list (send d)) : Prop :=
    match es with
    | [] => True
    | e :: tl => (0 < tuples_for w (s_tuples e) -> err k = None) /\ all_ok_from w (S k) tl
    end.

  Lemma failures_app a b : failures (a ++ b) = failures a ++ failures b.
  Proof. unfold failures. apply flat_map_app. Qed.

  Lemma failures_resps_of w k e :
    tuples_pos (s_tuples e) -> (failures (resps_of w k e) = [] <-> (0 < tuples_for w (s_tuples e) -> err k = None)).
  Proof.
    unfold resps_of, tuples_for, tuples_pos. intros Hp.
    induction (s_tuples e) as [|t tl IH]; cbn [filter map].
    - cbn. split; [intros _ H; lia|reflexivity].
    - inversion Hp as [|? ? Ht Htl]; subst. specialize (IH Htl).
      destruct (N.eqb (tp_waiter t) w); [|exact IH].
      cbn [map tp_count]. rewrite sumN_cons. unfold failures in *. cbn [flat_map r_err].
      destruct (err k) as [x|] eqn:Ee.
      + split; [discriminate|]. intros H. specialize (H ltac:(lia)). discriminate.
      + cbn [app]. split; [intros _ _; reflexivity|]. intros _. apply IH. intros _. reflexivity.
  Qed.

  Lemma failures_responses w : forall es k,
    sends_pos es -> (failures (responses_from w k es) = [] <-> all_ok_from w k es).
  Proof.
    induction es as [|e tl IH]; intros k Hp; cbn [responses_from all_ok_from]; [split; [intros _; exact I|reflexivity]|].
    inversion Hp as [|? ? H1 H2]; subst. rewrite failures_app. specialize (IH (S k) H2).
    pose proof (failures_resps_of w k e H1) as Hr. split.
    - intros H. apply app_eq_nil in H. destruct H as [Ha Hb]. split; [apply Hr; exact Ha|apply IH; exact Hb].
    - intros [Ha Hb]. apply Hr in Ha. apply IH in Hb. rewrite Ha, Hb. reflexivity.
  Qed.

  (* permutations *)
  Lemma total_perm a b : Permutation a b -> total a = total b.
  Proof. unfold total. intros H. induction H; cbn [map fold_right]; lia. Qed.

  Lemma failures_perm a b : Permutation a b -> Permutation (failures a) (failures b).
  Proof.
    intros H. induction H.
    - constructor.
    - rewrite (failures_cons x l), (failures_cons x l'). apply Permutation_app_head. exact IHPermutation.
    - rewrite (failures_cons y (x :: l)), (failures_cons x l), (failures_cons x (y :: l)), (failures_cons y l).
      rewrite !app_assoc. apply Permutation_app_tail. apply Permutation_app_comm.
    - eapply Permutation_trans; eassumption.
  Qed.

  (* ------------------------------------------------------------ the composition *)
  (* Early return off, caller context alive.  For every history of the shard that ends with the final
     flush, every assignment of outcomes to the exports, and every order in which the responses reach the
     caller: the call returns when its last response has arrived, never before; the error it returns wraps
     exactly the failures of the exports that carried its items, so it is nil iff all of them succeeded. *)
  Lemma end_to_end c w evs s1 es rs' :
    valid c -> all_pos evs -> run d c (init d) (evs ++ [Final]) = (s1, es) ->
    0 < recv_for d w evs ->
    Permutation (responses w es) rs' ->
    wait_run (Z.of_N (recv_for d w evs)) (map GotResp rs') = Returned (failures rs') false /\
    (failures rs' = [] <-> all_ok_from w 0 es) /\
    (forall part, Forall (fun r => (0 < r_count r)%Z) part -> (total part < Z.of_N (recv_for d w evs))%Z ->
       exists n errs, wait_run (Z.of_N (recv_for d w evs)) (map GotResp part) = Waiting n errs).
  Proof.
    intros Hv Hpos H Hn Hperm.
    assert (Hall : all_pos (evs ++ [Final])) by (apply Forall_app; split; [exact Hpos|repeat constructor]).
    pose proof (run_pos c _ _ _ _ H Hall ltac:(constructor)) as [Hsp _].
    pose proof (waiter_accounting_final d w c evs s1 es Hv H) as Hacc.
    assert (Htot : total rs' = Z.of_N (recv_for d w evs)).
    { rewrite <- (total_perm _ _ Hperm). unfold responses. rewrite total_responses, Hacc. reflexivity. }
    assert (Hrp : Forall (fun r => (0 < r_count r)%Z) rs').
    { eapply Permutation_Forall; [exact Hperm|]. apply responses_pos. exact Hsp. }
    split; [|split].
    - apply (wait_all rs' _ [] Hrp Htot). lia.
    - pose proof (failures_perm _ _ Hperm) as Hfp. pose proof (failures_responses w es 0%nat Hsp) as Hfr.
      unfold responses in Hfp. split.
      + intros Hnil. apply Hfr. rewrite Hnil in Hfp. apply Permutation_sym, Permutation_nil in Hfp. exact Hfp.
      + intros Hok. apply Hfr in Hok. rewrite Hok in Hfp. apply Permutation_nil in Hfp. exact Hfp.
    - intros part Hpp Hlt. eexists _, _. unfold wait_run. apply (wait_prefix_waits part _ [] Hpp Hlt).
  Qed.

  (* with early_return the shard is never asked to answer: waiter 0 (nil channel); see the harness *)
End EndToEnd.
