(* Batch/Multi.v — model of multiShardBatcher.consume: the per-request combination key and the
   admission of new combinations under metadata_cardinality_limit, with the race between the
   lock-free fast path (sync.Map Load) and the locked slow path (limit check, LoadOrStore, size++).

   Strings are interned as numbers by the harness (metadata keys lower-cased: client.NewMetadata
   and newBatchProcessor both lower-case).  attribute.NewSet is modelled as the list of per-key
   attributes in the (fixed, sorted, duplicate-free) order of the configured keys. *)
From Verif Require Import Base.ListX.

Definition metadata := list (N * list N).          (* client.Metadata: key -> values *)

Fixpoint get (md : metadata) (k : N) : list N :=
  match md with
  | [] => []                                       (* Get of a missing key: nil *)
  | (k', vs) :: tl => if N.eqb k' k then vs else get tl k
  end.

(* attribute.String(k, v) when exactly one value, attribute.StringSlice(k, vs) otherwise *)
Inductive attr := AString (k v : N) | ASlice (k : N) (vs : list N).

Definition attr_of (k : N) (vs : list N) : attr :=
  match vs with [v] => AString k v | _ => ASlice k vs end.

Definition aset (keys : list N) (md : metadata) : list attr := map (fun k => attr_of k (get md k)) keys.
(* the metadata the shard's export context is created with: md[k] = vs for every configured key *)
Definition shard_md (keys : list N) (md : metadata) : metadata := map (fun k => (k, get md k)) keys.

Lemma attr_of_inj k vs1 vs2 : attr_of k vs1 = attr_of k vs2 -> vs1 = vs2.
Proof.
  unfold attr_of. destruct vs1 as [|a [|b l1]]; destruct vs2 as [|c [|e l2]]; intros H; try discriminate; try reflexivity;
    injection H; intros; subst; reflexivity.
Qed.

(* Two requests fall into the same shard iff they agree on the value list of every configured key. *)
Lemma aset_eq_iff keys md1 md2 :
  aset keys md1 = aset keys md2 <-> (forall k, In k keys -> get md1 k = get md2 k).
Proof.
  unfold aset. induction keys as [|k tl IH]; cbn [map].
  - split; [intros _ k []|reflexivity].
  - split.
    + intros H. injection H as H1 H2. apply attr_of_inj in H1. intros k' [<-|Hin]; [exact H1|].
      apply IH; assumption.
    + intros H. f_equal.
      * rewrite (H k); [reflexivity|left; reflexivity].
      * apply IH. intros k' Hin. apply H. right. exact Hin.
Qed.

Lemma get_shard_md keys md k : NoDup keys -> In k keys -> get (shard_md keys md) k = get md k.
Proof.
  unfold shard_md. induction keys as [|k0 tl IH]; intros Hnd Hin; [destruct Hin|].
  cbn [map get]. destruct (N.eqb k0 k) eqn:E.
  - apply N.eqb_eq in E. subst. reflexivity.
  - apply N.eqb_neq in E. destruct Hin as [->|Hin]; [congruence|]. inversion Hnd; subst. apply IH; assumption.
Qed.

(* The client metadata visible to an export of the shard created by request `first` agrees, on every
   configured key, with the metadata of every request `r` routed to that shard. *)
Lemma export_metadata_agrees keys first r k :
  NoDup keys -> aset keys first = aset keys r -> In k keys -> get (shard_md keys first) k = get r k.
Proof.
  intros Hnd He Hin. rewrite get_shard_md by assumption. apply (proj1 (aset_eq_iff keys first r) He k Hin).
Qed.

(* ------------------------------------------------------------------ admission *)
(* A combination is abstracted to a number (equal numbers <-> equal attribute sets). *)
Record mstate := { batchers : list N; size : N; missed : list (N * N) (* goroutine -> key it missed on *) }.

Inductive outcome := Routed (k : N) | Refused | Pending.

Inductive mev :=
| FastLoad (g k : N)          (* sb.batchers.Load(aset) outside the lock *)
| LockSection (g : N).        (* lock; limit check; LoadOrStore; size++; unlock *)

Definition mem (k : N) (l : list N) : bool := existsb (N.eqb k) l.

Fixpoint lookup (g : N) (l : list (N * N)) : option N :=
  match l with [] => None | (g', k) :: tl => if N.eqb g' g then Some k else lookup g tl end.
Fixpoint remove_g (g : N) (l : list (N * N)) : list (N * N) :=
  match l with [] => [] | (g', k) :: tl => if N.eqb g' g then remove_g g tl else (g', k) :: remove_g g tl end.

Definition mstep (limit : N) (s : mstate) (e : mev) : mstate * outcome :=
  match e with
  | FastLoad g k =>
      if mem k (batchers s) then (s, Routed k)
      else ({| batchers := batchers s; size := size s; missed := (g, k) :: remove_g g (missed s) |}, Pending)
  | LockSection g =>
      match lookup g (missed s) with
      | None => (s, Pending)
      | Some k =>
          let s' := {| batchers := batchers s; size := size s; missed := remove_g g (missed s) |} in
          if negb (limit =? 0) && (limit <=? size s) then (s', Refused)
          else if mem k (batchers s) then (s', Routed k)           (* LoadOrStore: loaded *)
          else ({| batchers := batchers s ++ [k]; size := size s + 1; missed := remove_g g (missed s) |}, Routed k)
      end
  end.

Definition minit : mstate := {| batchers := []; size := 0; missed := [] |}.

Fixpoint mrun (limit : N) (s : mstate) (evs : list mev) : mstate * list outcome :=
  match evs with
  | [] => (s, [])
  | e :: tl => let '(s1, o) := mstep limit s e in let '(s2, os) := mrun limit s1 tl in (s2, o :: os)
  end.

Definition MInv (limit : N) (s : mstate) : Prop :=
  NoDup (batchers s) /\ size s = lenN (batchers s) /\ (0 < limit -> size s <= limit).

Lemma mem_In k l : mem k l = true <-> In k l.
Proof. unfold mem. apply existsb_eqb_In. Qed.

Lemma mstep_inv limit s e s1 o :
  MInv limit s -> mstep limit s e = (s1, o) ->
  MInv limit s1 /\ (forall k, In k (batchers s) -> In k (batchers s1)) /\
  (forall k, o = Routed k -> In k (batchers s1)) /\
  (o = Refused -> 0 < limit /\ limit <= size s1) /\ size s <= size s1.
Proof.
  intros (Hnd & Hsz & Hlim) H.
  assert (HI : MInv limit s) by (repeat split; assumption).
  destruct e as [g k|g]; cbn [mstep] in H.
  - destruct (mem k (batchers s)) eqn:E; injection H as <- <-; cbn [batchers size].
    + split; [exact HI|]. split; [auto|]. split; [|split; [discriminate|lia]].
      intros k' Hk. injection Hk as <-. apply mem_In. exact E.
    + split; [exact HI|]. split; [auto|]. split; [discriminate|]. split; [discriminate|lia].
  - destruct (lookup g (missed s)) as [k|].
    2:{ injection H as <- <-. split; [exact HI|]. split; [auto|]. split; [discriminate|]. split; [discriminate|lia]. }
    destruct (negb (limit =? 0) && (limit <=? size s)) eqn:El.
    + injection H as <- <-. cbn [batchers size]. split; [exact HI|]. split; [auto|]. split; [discriminate|].
      split; [|lia]. intros _. apply andb_true_iff in El. destruct El as [E1 E2]. lia.
    + destruct (mem k (batchers s)) eqn:E; injection H as <- <-; cbn [batchers size].
      * split; [exact HI|]. split; [auto|]. split; [|split; [discriminate|lia]].
        intros k' Hk. injection Hk as <-. apply mem_In. exact E.
      * assert (Hn : ~ In k (batchers s)) by (intro Hi; apply mem_In in Hi; congruence).
        split.
        -- unfold MInv. cbn [batchers size]. split; [|split].
           ++ apply NoDup_snoc; assumption.
           ++ rewrite lenN_app, lenN_cons, lenN_nil. lia.
           ++ intros Hpos. apply andb_false_iff in El. destruct El as [El|El]; lia.
        -- split; [intros k' Hk; apply in_or_app; left; exact Hk|]. split; [|split; [discriminate|lia]].
           intros k' Hk. injection Hk as <-. apply in_or_app. right. left. reflexivity.
Qed.

(* For every interleaving of fast-path loads and locked sections of any number of goroutines:
   the set of admitted combinations never exceeds the limit, never shrinks, a routed request's
   combination is admitted, and a request is refused only while the limit is reached. *)
Lemma mrun_inv limit : forall evs s s1 os,
  MInv limit s -> mrun limit s evs = (s1, os) ->
  MInv limit s1 /\ (forall k, In k (batchers s) -> In k (batchers s1)) /\
  (forall k, In (Routed k) os -> In k (batchers s1)) /\
  (In Refused os -> 0 < limit /\ limit <= size s1) /\ size s <= size s1.
Proof.
  induction evs as [|e tl IH]; intros s s1 os HI H; cbn [mrun] in H.
  - injection H as <- <-. split; [exact HI|]. split; [auto|]. split; [intros k []|]. split; [intros []|lia].
  - destruct (mstep limit s e) as [sa o] eqn:E1. destruct (mrun limit sa tl) as [sb os'] eqn:E2.
    injection H as <- <-.
    apply mstep_inv in E1; [|exact HI]. destruct E1 as (HIa & Hmono & Hrt & Hrf & Hle1).
    apply IH in E2; [|exact HIa]. destruct E2 as (HIb & Hmono2 & Hrt2 & Hrf2 & Hle2).
    split; [exact HIb|]. split; [auto|]. split; [|split; [|lia]].
    + intros k [Hk|Hk]; [apply Hmono2, Hrt; exact Hk|apply Hrt2; exact Hk].
    + intros [Hk|Hk]; [|apply Hrf2; exact Hk].
      destruct (Hrf Hk) as [Hp Hle]. split; [exact Hp|lia].
Qed.

Lemma MInv_init limit : MInv limit minit.
Proof. split; [constructor|]. split; [reflexivity|]. cbn. lia. Qed.

(* order-free consequences used by the case files: with a1..an the admitted combinations and
   some request refused, exactly `limit` combinations are in use at the end *)
Definition admission_okb (limit : N) (admitted : list N) (refused : bool) : bool :=
  let n := lenN (uniq admitted) in
  ((limit =? 0) || (n <=? limit)) && (negb refused || (negb (limit =? 0) && (n =? limit))).

(* ---- once the limit is reached the set of admitted combinations is frozen: a combination that is not admitted is never
   routed again, whatever the interleaving — a refused combination stays refused ---- *)
Lemma mstep_frozen limit s e s1 o :
  0 < limit -> limit <= size s -> mstep limit s e = (s1, o) ->
  batchers s1 = batchers s /\ size s1 = size s /\ (forall k, o = Routed k -> In k (batchers s)).
Proof.
  intros Hpos Hfull H. destruct e as [g k|g]; cbn [mstep] in H.
  - destruct (mem k (batchers s)) eqn:E; injection H as <- <-; cbn [batchers size].
    + split; [reflexivity|]. split; [reflexivity|]. intros k' Hk. injection Hk as <-. apply mem_In. exact E.
    + split; [reflexivity|]. split; [reflexivity|]. discriminate.
  - destruct (lookup g (missed s)) as [k|].
    2:{ injection H as <- <-. split; [reflexivity|]. split; [reflexivity|]. discriminate. }
    assert (El : negb (limit =? 0) && (limit <=? size s) = true).
    { apply andb_true_iff. split; [apply negb_true_iff; apply N.eqb_neq; lia|apply N.leb_le; exact Hfull]. }
    rewrite El in H. injection H as <- <-. cbn [batchers size]. split; [reflexivity|]. split; [reflexivity|]. discriminate.
Qed.

Theorem refused_stays_refused limit : forall evs s s1 os,
  0 < limit -> limit <= size s -> mrun limit s evs = (s1, os) ->
  batchers s1 = batchers s /\ forall k, In (Routed k) os -> In k (batchers s).
Proof.
  induction evs as [|e tl IH]; intros s s1 os Hpos Hfull H; cbn [mrun] in H.
  - injection H as <- <-. split; [reflexivity|]. intros k [].
  - destruct (mstep limit s e) as [sa o] eqn:E1. destruct (mrun limit sa tl) as [sb os'] eqn:E2. injection H as <- <-.
    destruct (mstep_frozen limit s e sa o Hpos Hfull E1) as (Hb & Hs & Hr).
    destruct (IH sa sb os' Hpos ltac:(rewrite Hs; exact Hfull) E2) as (Hb2 & Hr2).
    split; [rewrite Hb2; exact Hb|]. intros k [Hk|Hk]; [apply Hr; exact Hk|]. rewrite <- Hb. apply Hr2. exact Hk.
Qed.

(* the seeded variant: LoadOrStore before the limit check — the refused combination is left in the map and the next
   request with it is routed to a shard nobody started *)
Definition mstep_store_first (limit : N) (s : mstate) (e : mev) : mstate * outcome :=
  match e with
  | FastLoad g k => mstep limit s e
  | LockSection g =>
      match lookup g (missed s) with
      | None => (s, Pending)
      | Some k =>
          if mem k (batchers s) then ({| batchers := batchers s; size := size s; missed := remove_g g (missed s) |}, Routed k)
          else if negb (limit =? 0) && (limit <=? size s)
               then ({| batchers := batchers s ++ [k]; size := size s; missed := remove_g g (missed s) |}, Refused)
               else ({| batchers := batchers s ++ [k]; size := size s + 1; missed := remove_g g (missed s) |}, Routed k)
      end
  end.

Fixpoint mrun_store_first (limit : N) (s : mstate) (evs : list mev) : list outcome :=
  match evs with
  | [] => []
  | e :: tl => let '(s1, o) := mstep_store_first limit s e in o :: mrun_store_first limit s1 tl
  end.

Example store_first_refuted :
  let evs := [FastLoad 1 10; LockSection 1; FastLoad 2 20; LockSection 2; FastLoad 3 20] in
  mrun_store_first 1 minit evs = [Pending; Routed 10; Pending; Refused; Routed 20] /\
  snd (mrun 1 minit evs) = [Pending; Routed 10; Pending; Refused; Pending].
Proof. split; vm_compute; reflexivity. Qed.
