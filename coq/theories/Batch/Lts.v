(* Batch/Lts.v — the goroutine-level protocol of the processor as a labelled transition system:
   the shard loops (one per metadata combination), the processor-wide semaphore (max_concurrency),
   the WaitGroup that Shutdown waits on, and the life cycle of the export goroutines.  Contents of
   batches are irrelevant here (Shard.v); the state is counts and phases.  Every interleaving of the
   goroutines is a sequence of these atomic events (each touches one channel / the semaphore / the
   WaitGroup / shard-confined state only).

   Code points: shard.start: `goroutines.Add(1); go startLoop()`; sendItems: `sem.Acquire` (blocking,
   in the shard goroutine) then `goroutines.Add(1)` then
   `go func(){ defer sem.Release(1); defer goroutines.Done(); export; respond… }()`;
   startLoop: `defer goroutines.Done()`; Shutdown: `close(shutdownC); goroutines.Wait()`.
   The semaphore is per processor, so the bound holds a fortiori per metadata combination. *)
From Verif Require Import Base.ListX.

Inductive lphase := LRunning | LBlocked | LDone.      (* shard loop: running / inside Acquire / returned *)
Inductive ephase := ERunning | EResponding | EDone.   (* export goroutine *)

Record lts := {
  limit : N;                       (* max_concurrency; 0 = unlimited (no semaphore) *)
  permits : N;                     (* free permits (meaningful when limit > 0) *)
  exports : list ephase;           (* export i = nth i *)
  loops : list lphase;             (* shard j = nth j *)
  wg : N;                          (* WaitGroup counter *)
  shutdown_called : bool;
  shutdown_returned : bool;
}.

Inductive lev :=
| NewShard              (* a new combination is admitted: goroutines.Add(1); go startLoop() *)
| Decide (j : nat)      (* shard j decides to send (sendItems entered): LRunning -> LBlocked *)
| Acquire (j : nat)     (* permit obtained (or no semaphore), wg.Add(1), goroutine spawned: LBlocked -> LRunning *)
| ExportEnd (i : nat)   (* export call returned *)
| Finish (i : nat)      (* responses delivered or skipped; deferred Done() and Release(1) *)
| CallShutdown
| LoopExit (j : nat)    (* loop j returns after the drain and the final flush: only from LRunning, after shutdown *)
| ShutdownReturn.       (* goroutines.Wait() returns *)

Definition linit (lim : N) : lts :=
  {| limit := lim; permits := lim; exports := []; loops := []; wg := 0;
     shutdown_called := false; shutdown_returned := false |}.

Fixpoint set_nth {A} (i : nat) (x : A) (l : list A) : list A :=
  match l, i with
  | [], _ => []
  | _ :: tl, O => x :: tl
  | a :: tl, S j => a :: set_nth j x tl
  end.

Definition e_live (p : ephase) : bool := match p with EDone => false | _ => true end.
Definition l_live (p : lphase) : bool := match p with LDone => false | _ => true end.

Definition upd (s : lts) (pm : N) (ex : list ephase) (lp : list lphase) (w : N) (sc sr : bool) : lts :=
  {| limit := limit s; permits := pm; exports := ex; loops := lp; wg := w; shutdown_called := sc; shutdown_returned := sr |}.

(* None = the event is not enabled in this state (a real execution cannot take it) *)
Definition lstep (s : lts) (e : lev) : option lts :=
  match e with
  | NewShard =>   (* a Consume call that was already in flight when Shutdown was called may still create its shard while
                     Shutdown waits (goroutines.Add before the Wait returns); after Shutdown has returned it is outside the
                     property's domain *)
      if shutdown_returned s then None
      else Some (upd s (permits s) (exports s) (loops s ++ [LRunning]) (wg s + 1) (shutdown_called s) false)
  | Decide j =>
      match nth_error (loops s) j with
      | Some LRunning => Some (upd s (permits s) (exports s) (set_nth j LBlocked (loops s)) (wg s) (shutdown_called s) (shutdown_returned s))
      | _ => None end
  | Acquire j =>
      match nth_error (loops s) j with
      | Some LBlocked =>
          if (limit s =? 0) || (0 <? permits s) then
            Some (upd s (if limit s =? 0 then permits s else permits s - 1) (exports s ++ [ERunning])
                      (set_nth j LRunning (loops s)) (wg s + 1) (shutdown_called s) (shutdown_returned s))
          else None
      | _ => None end
  | ExportEnd i =>
      match nth_error (exports s) i with
      | Some ERunning => Some (upd s (permits s) (set_nth i EResponding (exports s)) (loops s) (wg s) (shutdown_called s) (shutdown_returned s))
      | _ => None end
  | Finish i =>
      match nth_error (exports s) i with
      | Some EResponding => Some (upd s (if limit s =? 0 then permits s else permits s + 1) (set_nth i EDone (exports s))
                                        (loops s) (wg s - 1) (shutdown_called s) (shutdown_returned s))
      | _ => None end
  | CallShutdown => Some (upd s (permits s) (exports s) (loops s) (wg s) true (shutdown_returned s))
  | LoopExit j =>
      match nth_error (loops s) j with
      | Some LRunning => if shutdown_called s then
            Some (upd s (permits s) (exports s) (set_nth j LDone (loops s)) (wg s - 1) true (shutdown_returned s))
          else None
      | _ => None end
  | ShutdownReturn =>
      if shutdown_called s && (wg s =? 0) then Some (upd s (permits s) (exports s) (loops s) (wg s) true true) else None
  end.

Fixpoint lrun (s : lts) (evs : list lev) : option lts :=
  match evs with
  | [] => Some s
  | e :: tl => match lstep s e with Some s1 => lrun s1 tl | None => None end
  end.

Definition in_flight (s : lts) : N := lenN (filter e_live (exports s)).
Definition alive (s : lts) : N := lenN (filter l_live (loops s)).

Definition LInv (s : lts) : Prop :=
  (0 < limit s -> permits s + in_flight s = limit s) /\
  wg s = alive s + in_flight s /\
  (shutdown_returned s = true -> wg s = 0 /\ shutdown_called s = true) /\
  (shutdown_called s = false -> Forall (fun p => p <> LDone) (loops s)).

Lemma LInv_init lim : LInv (linit lim).
Proof. unfold LInv, linit, in_flight, alive. cbn. repeat split; try lia; try discriminate. constructor. Qed.

Section Count.
  Context {A : Type} (live : A -> bool).
  Lemma count_snoc l x : lenN (filter live (l ++ [x])) = lenN (filter live l) + (if live x then 1 else 0).
  Proof. rewrite filter_app, lenN_app. cbn [filter]. destruct (live x); cbn; lia. Qed.

  Lemma count_set_nth l : forall i p q, nth_error l i = Some p ->
    lenN (filter live (set_nth i q l)) + (if live p then 1 else 0) = lenN (filter live l) + (if live q then 1 else 0).
  Proof.
    induction l as [|a l IH]; intros [|i] p q Hn; cbn [nth_error set_nth] in *; try discriminate.
    - injection Hn as ->. cbn [filter]. destruct (live p), (live q); rewrite ?lenN_cons; lia.
    - cbn [filter]. specialize (IH i p q Hn). destruct (live a); rewrite ?lenN_cons; lia.
  Qed.

  Lemma nth_live l : forall i p, nth_error l i = Some p -> live p = true -> 0 < lenN (filter live l).
  Proof.
    induction l as [|a l IH]; intros [|i] p Hn Hp; cbn [nth_error] in Hn; try discriminate.
    - injection Hn as ->. cbn [filter]. rewrite Hp, lenN_cons. lia.
    - cbn [filter]. specialize (IH i p Hn Hp). destruct (live a); rewrite ?lenN_cons; lia.
  Qed.

  Lemma exists_live l : 0 < lenN (filter live l) -> exists i p, nth_error l i = Some p /\ live p = true.
  Proof.
    induction l as [|a l IH]; cbn [filter]; [cbn; lia|].
    destruct (live a) eqn:E.
    - intros _. exists 0%nat, a. split; [reflexivity|exact E].
    - intros H. destruct (IH H) as (i & p & Hi & Hp). exists (S i), p. split; assumption.
  Qed.
End Count.

Lemma Forall_set_nth {A} (P : A -> Prop) l : forall i x, Forall P l -> P x -> Forall P (set_nth i x l).
Proof.
  induction l as [|a l IH]; intros [|i] x Hf Hx; cbn [set_nth]; try constructor; inversion Hf; subst; auto.
Qed.

Lemma lstep_inv s e s1 : LInv s -> lstep s e = Some s1 -> LInv s1 /\ limit s1 = limit s.
Proof.
  intros (Hp & Hw & Hs & Hd) H. unfold LInv, in_flight, alive in *. destruct e; cbn [lstep] in H.
  - destruct (shutdown_returned s) eqn:Esr; [discriminate|]. injection H as <-.
    cbn [upd limit permits exports loops wg shutdown_called shutdown_returned].
    rewrite (count_snoc l_live). cbn [l_live].
    split; [|reflexivity]. split; [exact Hp|]. split; [lia|]. split; [intros Hr; discriminate|].
    intros Hc. apply Forall_app. split; [auto|]. constructor; [discriminate|constructor].
  - destruct (nth_error (loops s) j) as [[| |]|] eqn:En; try discriminate. injection H as <-.
    cbn [upd limit permits exports loops wg shutdown_called shutdown_returned].
    pose proof (count_set_nth l_live _ _ _ LBlocked En) as Hc. cbn [l_live] in Hc.
    split; [|reflexivity]. split; [exact Hp|]. split; [lia|]. split; [exact Hs|].
    intros Hsc. apply Forall_set_nth; [auto|discriminate].
  - destruct (nth_error (loops s) j) as [[| |]|] eqn:En; try discriminate.
    destruct ((limit s =? 0) || (0 <? permits s)) eqn:E; [|discriminate]. injection H as <-.
    cbn [upd limit permits exports loops wg shutdown_called shutdown_returned].
    pose proof (count_set_nth l_live _ _ _ LRunning En) as Hc. cbn [l_live] in Hc.
    rewrite (count_snoc e_live). cbn [e_live].
    split; [|reflexivity]. split; [|split; [lia|split]].
    + intros Hl. destruct (limit s =? 0) eqn:E0; [lia|]. specialize (Hp Hl). cbn [orb] in E. lia.
    + intros Hr. destruct (Hs Hr) as [Hs1 Hs2]. pose proof (nth_live l_live _ _ _ En eq_refl). lia.
    + intros Hsc. apply Forall_set_nth; [auto|discriminate].
  - destruct (nth_error (exports s) i) as [[| |]|] eqn:En; try discriminate. injection H as <-.
    cbn [upd limit permits exports loops wg shutdown_called shutdown_returned].
    pose proof (count_set_nth e_live _ _ _ EResponding En) as Hc. cbn [e_live] in Hc.
    split; [|reflexivity]. split; [intros Hl; specialize (Hp Hl); lia|]. split; [lia|]. split; [exact Hs|exact Hd].
  - destruct (nth_error (exports s) i) as [[| |]|] eqn:En; try discriminate. injection H as <-.
    cbn [upd limit permits exports loops wg shutdown_called shutdown_returned].
    pose proof (count_set_nth e_live _ _ _ EDone En) as Hc. cbn [e_live] in Hc.
    split; [|reflexivity]. split; [|split; [lia|split]].
    + intros Hl. specialize (Hp Hl). destruct (limit s =? 0) eqn:E0; lia.
    + intros Hr. destruct (Hs Hr) as [Hs1 Hs2]. pose proof (nth_live e_live _ _ _ En eq_refl). lia.
    + exact Hd.
  - injection H as <-. cbn [upd limit permits exports loops wg shutdown_called shutdown_returned].
    split; [|reflexivity]. split; [exact Hp|]. split; [exact Hw|]. split; [intros Hr; destruct (Hs Hr); split; [assumption|reflexivity]|discriminate].
  - destruct (nth_error (loops s) j) as [[| |]|] eqn:En; try discriminate.
    destruct (shutdown_called s); [|discriminate]. injection H as <-.
    cbn [upd limit permits exports loops wg shutdown_called shutdown_returned].
    pose proof (count_set_nth l_live _ _ _ LDone En) as Hc. cbn [l_live] in Hc.
    split; [|reflexivity]. split; [exact Hp|]. split; [lia|]. split; [|discriminate]. intros Hr. destruct (Hs Hr) as [Hs1 Hs2]. pose proof (nth_live l_live _ _ _ En eq_refl). lia.
  - destruct (shutdown_called s && (wg s =? 0)) eqn:E; [|discriminate]. injection H as <-.
    cbn [upd limit permits exports loops wg shutdown_called shutdown_returned].
    split; [|reflexivity]. split; [exact Hp|]. split; [exact Hw|]. split; [intros _; split; [lia|reflexivity]|discriminate].
Qed.

Lemma lrun_inv : forall evs s s1, LInv s -> lrun s evs = Some s1 -> LInv s1 /\ limit s1 = limit s.
Proof.
  induction evs as [|e tl IH]; intros s s1 HI H; cbn [lrun] in H.
  - injection H as <-. split; [exact HI|reflexivity].
  - destruct (lstep s e) as [sa|] eqn:E; [|discriminate].
    apply lstep_inv in E; [|exact HI]. destruct E as [HIa Hl].
    apply IH in H; [|exact HIa]. destruct H as [HIb Hl2]. split; [exact HIb|congruence].
Qed.

(* never more than max_concurrency exports in flight, over all shards *)
Lemma sem_bound lim evs s1 : lrun (linit lim) evs = Some s1 -> 0 < lim -> in_flight s1 <= lim.
Proof.
  intros H Hl. apply lrun_inv in H; [|apply LInv_init]. destruct H as [(Hp & _) Hlim].
  cbn in Hlim. rewrite Hlim in Hp. specialize (Hp Hl). lia.
Qed.

(* Shutdown returns only when every loop has returned and every export goroutine is done *)
Lemma drain lim evs s1 :
  lrun (linit lim) evs = Some s1 -> shutdown_returned s1 = true -> alive s1 = 0 /\ in_flight s1 = 0.
Proof.
  intros H Hr. apply lrun_inv in H; [|apply LInv_init]. destruct H as [(_ & Hw & Hs & _) _].
  destruct (Hs Hr). lia.
Qed.

(* no deadlock: as long as Shutdown has been called and has not returned, an event other than the
   environment's (new requests, Shutdown) is enabled — an export call returning (downstream consumers
   are assumed to return), a goroutine finishing, a blocked Acquire succeeding, a loop taking its
   shutdown branch, or Shutdown's Wait returning.  Before Shutdown is called, a blocked Acquire always
   has an in-flight export that can finish and release a permit. *)
Definition enabled (s : lts) (e : lev) : Prop := lstep s e <> None.
Definition internal (e : lev) : Prop := match e with NewShard | CallShutdown | Decide _ => False | _ => True end.

Lemma progress lim evs s1 :
  lrun (linit lim) evs = Some s1 -> shutdown_called s1 = true -> shutdown_returned s1 = false ->
  exists e, enabled s1 e /\ internal e.
Proof.
  intros H Hc Hr. apply lrun_inv in H; [|apply LInv_init]. destruct H as [(Hp & Hw & Hs & Hd) Hlim].
  unfold in_flight, alive in *.
  destruct (N.eq_dec (lenN (filter e_live (exports s1))) 0) as [Hz|Hnz].
  - destruct (N.eq_dec (lenN (filter l_live (loops s1))) 0) as [Ha|Ha].
    + exists ShutdownReturn. split; [|exact I]. unfold enabled. cbn. rewrite Hc.
      assert (E : wg s1 =? 0 = true) by lia. rewrite E. discriminate.
    + destruct (exists_live l_live (loops s1) ltac:(lia)) as (j & p & Hj & Hlive).
      destruct p; cbn in Hlive; try discriminate.
      * exists (LoopExit j). split; [|exact I]. unfold enabled. cbn. rewrite Hj, Hc. discriminate.
      * exists (Acquire j). split; [|exact I]. unfold enabled. cbn. rewrite Hj.
        destruct (limit s1 =? 0) eqn:E0; cbn [orb]; [discriminate|].
        assert (Hl : 0 < limit s1) by lia. specialize (Hp Hl).
        assert (E : 0 <? permits s1 = true) by lia. rewrite E. discriminate.
  - destruct (exists_live e_live (exports s1) ltac:(lia)) as (i & p & Hi & Hlive).
    destruct p; cbn in Hlive; try discriminate.
    + exists (ExportEnd i). split; [|exact I]. unfold enabled. cbn. rewrite Hi. discriminate.
    + exists (Finish i). split; [|exact I]. unfold enabled. cbn. rewrite Hi. discriminate.
Qed.

Lemma blocked_can_proceed lim evs s1 j :
  lrun (linit lim) evs = Some s1 -> nth_error (loops s1) j = Some LBlocked ->
  enabled s1 (Acquire j) \/ exists i, enabled s1 (ExportEnd i) \/ enabled s1 (Finish i).
Proof.
  intros H Hj. apply lrun_inv in H; [|apply LInv_init]. destruct H as [(Hp & Hw & Hs & Hd) Hlim].
  unfold in_flight in *.
  destruct ((limit s1 =? 0) || (0 <? permits s1)) eqn:E.
  - left. unfold enabled. cbn. rewrite Hj, E. discriminate.
  - right. apply orb_false_iff in E. destruct E as [E0 E1].
    assert (Hl : 0 < limit s1) by lia. specialize (Hp Hl).
    destruct (exists_live e_live (exports s1) ltac:(lia)) as (i & p & Hi & Hlive).
    exists i. destruct p; cbn in Hlive; try discriminate.
    + left. unfold enabled. cbn. rewrite Hi. discriminate.
    + right. unfold enabled. cbn. rewrite Hi. discriminate.
Qed.

(* acceptance of an observed trace, for the case files: Some final state iff every event was enabled *)
Definition accepts (lim : N) (evs : list lev) : bool := match lrun (linit lim) evs with Some _ => true | None => false end.
