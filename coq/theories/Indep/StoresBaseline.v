(* Indep/StoresBaseline.v — stores to package-level state that are acceptable: the generated protobuf registration code
   of api/experimental/arrow/v1 (executed from package initialisation, the raw-descriptor cache behind sync.Once). *)
From Coq Require Import String List Bool.
Import ListNotations.
Open Scope string_scope.

Definition has_prefix (p s : string) : bool := String.eqb (substring 0 (String.length p) s) p.
Definition allowed_store (s : string * string * string * string) : bool :=
  let '(pkg, fn, _, _) := s in
  String.eqb pkg "github.com/open-telemetry/otel-arrow/api/experimental/arrow/v1" &&
  has_prefix "file_opentelemetry_proto_experimental_arrow_v1_arrow_service_proto_" fn.

(* Package-level variables that can reach mutable memory (generated list: gen/GlobalVars.v).  Acceptable are
   - error values (errors.New results, never modified);
   - prototypes of library types that are immutable by their API contract: Arrow schemas and data types, the table of
     payload-type descriptors, protobuf/grpc descriptors, the sync.Once of the generated protobuf code;
   - lookup tables whose entries are immutable values (strings, numbers, enums, data types, functions).
   None of them is ever stored to outside package initialisation (gen/GlobalStores.v), so they are read-only at run time.
   A variable holding stateful objects (builders, sorters, encoders, caches, pools) is not in this list. *)
Definition immutable_types : list string := [
  "*arrow.Schema"; "*arrow.StructType"; "*arrow.MapType"; "*arrow.SparseUnionType"; "arrow.BinaryDataType";
  "arrow.payloadTypes";
  "grpc.ServiceDesc"; "protoreflect.FileDescriptor"; "sync.Once";
  "[]protoimpl.EnumInfo"; "[]protoimpl.MessageInfo"; "[]interface{}"; "[]int32"; "[]byte";
  "map[int32]string"; "map[string]int32";
  "map[string]config.OrderAttrs16By"; "map[string]config.OrderAttrs32By"; "map[string]config.OrderSpanBy";
  "[]uint64"; "[]arrow.DataType";
  "map[string]func(fieldID int, attrName string) otlp.AttributeFeeder"
].
Definition allowed_global (g : string * string * string * string) : bool :=
  let '(_, _, typ, kind) := g in
  String.eqb kind "error" || existsb (String.eqb typ) immutable_types.
