(* Indep/StoresBaseline.v — stores to package-level state that are acceptable: the generated protobuf registration code
   of api/experimental/arrow/v1 (executed from package initialisation, the raw-descriptor cache behind sync.Once). *)
From Coq Require Import String List Bool.
Import ListNotations.
Open Scope string_scope.

Definition has_prefix (p s : string) : bool := String.eqb (substring 0 (String.length p) s) p.
Definition allowed_store (s : string * string * string * string) : bool :=
  let '(pkg, fn, _, _) := s in
  String.eqb pkg "github.com/open-telemetry/otel-arrow/api/experimental/arrow/v1" &&
  has_prefix "file_opentelemetry_proto_experimental_arrow_v1_arrow_service_proto_" fn.
