(* Indep/Frame.v — non-interference of instance-local steps.
   A system of producer/consumer instances: each instance has its own state; a step of instance i reads the read-only
   environment (code, prototype schemas, constants) and the state of i, writes the state of i and produces an output.
   For every interleaving (schedule) of steps of any number of instances, the outputs of each instance are those of
   running that instance alone on its own inputs.  The premise — no step reads or writes another instance's state or
   any shared mutable state — is what gen/GlobalStores.v establishes for the code (no store to package-level state
   outside initialisation) together with the absence of sharing between separately constructed instances. *)
From Verif Require Import Base.ListX.

Section Frame.
  Variables Env St In Out : Type.
  Variable step : Env -> St -> In -> St * Out.
  Variable env : Env.

  Fixpoint get (sts : list St) (i : nat) (d : St) : St := nth i sts d.
  Fixpoint set (sts : list St) (i : nat) (s : St) : list St :=
    match sts, i with
    | [], _ => []
    | _ :: tl, O => s :: tl
    | a :: tl, S j => a :: set tl j s
    end.

  (* interleaved run: schedule = list of (instance, input); output tagged with the instance *)
  Fixpoint run (sts : list St) (d : St) (sched : list (nat * In)) : list St * list (nat * Out) :=
    match sched with
    | [] => (sts, [])
    | (i, x) :: tl =>
        if (i <? length sts)%nat then
          let '(s', o) := step env (nth i sts d) x in
          let '(sts', os) := run (set sts i s') d tl in (sts', (i, o) :: os)
        else run sts d tl
    end.

  Fixpoint solo (s : St) (xs : list In) : St * list Out :=
    match xs with
    | [] => (s, [])
    | x :: tl => let '(s', o) := step env s x in let '(s'', os) := solo s' tl in (s'', o :: os)
    end.

  Definition inputs_of (i : nat) (sched : list (nat * In)) : list In :=
    map snd (filter (fun p => Nat.eqb (fst p) i) sched).
  Definition outputs_of (i : nat) (os : list (nat * Out)) : list Out :=
    map snd (filter (fun p => Nat.eqb (fst p) i) os).

  Lemma nth_set_same sts : forall i s d, (i < length sts)%nat -> nth i (set sts i s) d = s.
  Proof. induction sts as [|a l IH]; intros [|i] s d H; cbn in *; try lia; [reflexivity|apply IH; lia]. Qed.
  Lemma nth_set_other sts : forall i j s d, i <> j -> nth j (set sts i s) d = nth j sts d.
  Proof. induction sts as [|a l IH]; intros [|i] [|j] s d H; cbn; try reflexivity; try congruence. apply IH. congruence. Qed.
  Lemma length_set sts : forall i s, length (set sts i s) = length sts.
  Proof. induction sts as [|a l IH]; intros [|i] s; cbn; try reflexivity. f_equal. apply IH. Qed.

  Theorem noninterference : forall sched sts d i,
    (i < length sts)%nat ->
    outputs_of i (snd (run sts d sched)) = snd (solo (nth i sts d) (inputs_of i sched)) /\
    nth i (fst (run sts d sched)) d = fst (solo (nth i sts d) (inputs_of i sched)).
  Proof.
    induction sched as [|[j x] tl IH]; intros sts d i Hi; cbn [run inputs_of filter map solo fst snd outputs_of].
    - split; reflexivity.
    - destruct (j <? length sts)%nat eqn:Ej.
      + apply Nat.ltb_lt in Ej.
        destruct (step env (nth j sts d) x) as [s' o] eqn:Es.
        destruct (run (set sts j s') d tl) as [sts' os] eqn:Er.
        pose proof (IH (set sts j s') d i ltac:(rewrite length_set; exact Hi)) as [IHo IHs]. rewrite Er in IHo, IHs. cbn [fst snd] in *.
        destruct (Nat.eqb j i) eqn:Eji.
        * apply Nat.eqb_eq in Eji. subst j. cbn [map snd solo]. rewrite Es.
          rewrite nth_set_same in IHo, IHs by exact Hi.
          unfold outputs_of. cbn [filter fst]. rewrite Nat.eqb_refl. cbn [map snd]. fold (outputs_of i os). rewrite IHo.
          unfold inputs_of. destruct (solo s' (map snd (filter (fun p => Nat.eqb (fst p) i) tl))) as [s'' os''] eqn:E2.
          cbn [fst snd] in *. unfold inputs_of in IHs. rewrite E2 in IHs. split; [reflexivity|exact IHs].
        * apply Nat.eqb_neq in Eji. rewrite nth_set_other in IHo, IHs by exact Eji.
          unfold outputs_of. cbn [filter fst]. apply Nat.eqb_neq in Eji. rewrite Eji. fold (outputs_of i os).
          split; [exact IHo|exact IHs].
      + destruct (Nat.eqb j i) eqn:Eji; [apply Nat.eqb_eq in Eji; subst; apply Nat.ltb_ge in Ej; lia|].
        apply IH. exact Hi.
  Qed.
End Frame.
