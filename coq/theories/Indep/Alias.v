(* Indep/Alias.v — the messages a producer returns are values, not views of its stream buffer (C16).

   Producer.Produce lets the Arrow IPC writer of a sub-stream write the next message into that sub-stream's output buffer
   (from offset 0: the buffer is Reset after every message) and hands the bytes to the caller inside a BatchArrowRecords.
   The consumer of the stream is another instance, usually driven by another goroutine, and may read message n at any
   later time: after the producer has encoded n+1, n+2, ... (a queue, a transport, a retry).  If the message is a copy, what
   the consumer reads is what was written, whatever happens in between; if it is a slice of the buffer (the seeded
   "avoid the copy" change), it reads whatever the buffer holds at that time.

   Model: the buffer, the messages in flight (a copy, or a reference to the first n bytes of the buffer), what the consumer
   has decoded.  Proved for every interleaving of Produce and Consume steps (any lag, any number of messages in flight):
   with copies the consumer decodes exactly the produced payloads, in order; with references it does not (refuted). *)
From Verif Require Import Base.ListX.

Inductive msg := Copy (bs : list N) | Ref (len : nat).
Record st := { buffer : list N; inflight : list msg; decoded : list (list N) }.
Definition st0 : st := {| buffer := []; inflight := []; decoded := [] |}.

Inductive op := Produce (payload : list N) | Consume.

(* the writer overwrites the buffer from offset 0; what lies beyond the new message stays *)
Definition overwrite (buf p : list N) : list N := p ++ skipn (length p) buf.

Definition read (s : st) (m : msg) : list N :=
  match m with Copy bs => bs | Ref n => firstn n (buffer s) end.

Definition step (alias : bool) (s : st) (o : op) : st :=
  match o with
  | Produce p => {| buffer := overwrite (buffer s) p;
                    inflight := inflight s ++ [if alias then Ref (length p) else Copy p];
                    decoded := decoded s |}
  | Consume => match inflight s with
               | [] => s
               | m :: tl => {| buffer := buffer s; inflight := tl; decoded := decoded s ++ [read s m] |}
               end
  end.

Definition run (alias : bool) (ops : list op) : st := fold_left (step alias) ops st0.

Fixpoint produced (ops : list op) : list (list N) :=
  match ops with [] => [] | Produce p :: tl => p :: produced tl | Consume :: tl => produced tl end.

Definition is_copy (m : msg) : Prop := match m with Copy _ => True | Ref _ => False end.
Definition payload_of (m : msg) : list N := match m with Copy bs => bs | Ref _ => [] end.

(* what has been decoded, followed by what is in flight, is what has been produced *)
Definition inv (s : st) (done : list (list N)) : Prop :=
  Forall is_copy (inflight s) /\ decoded s ++ map payload_of (inflight s) = done.

Lemma produced_app ops1 ops2 : produced (ops1 ++ ops2) = produced ops1 ++ produced ops2.
Proof.
  induction ops1 as [|o tl IH]; cbn [app produced]; [reflexivity|].
  destruct o; cbn [app]; rewrite IH; reflexivity.
Qed.

Lemma step_inv s o done : inv s done -> inv (step false s o) (done ++ produced [o]).
Proof.
  intros [Hc Hd]. destruct o as [p|]; cbn [step produced].
  - split; cbn [inflight decoded].
    + apply Forall_app. split; [exact Hc|constructor; [exact I|constructor]].
    + rewrite map_app, app_assoc, Hd. reflexivity.
  - rewrite app_nil_r. destruct (inflight s) as [|m tl] eqn:E; [split; [rewrite E; constructor|rewrite E; exact Hd]|].
    inversion Hc as [|m' tl' Hm Htl]; subst m' tl'. destruct m as [bs|n]; [|contradiction].
    split; cbn [inflight decoded read].
    + exact Htl.
    + rewrite <- Hd. cbn [map payload_of]. rewrite <- app_assoc. reflexivity.
Qed.

Lemma run_inv_from : forall ops s done, inv s done -> inv (fold_left (step false) ops s) (done ++ produced ops).
Proof.
  induction ops as [|o tl IH]; intros s done H; cbn [fold_left].
  - cbn [produced]. rewrite app_nil_r. exact H.
  - replace (done ++ produced (o :: tl)) with ((done ++ produced [o]) ++ produced tl).
    + apply IH. apply step_inv. exact H.
    + rewrite <- app_assoc. f_equal. destruct o; reflexivity.
Qed.

(* every interleaving: decoded is a prefix of the produced payloads, the rest is in flight, unaltered *)
Theorem messages_are_values : forall ops,
  decoded (run false ops) ++ map payload_of (inflight (run false ops)) = produced ops.
Proof.
  intros ops. destruct (run_inv_from ops st0 []) as [_ H]; [split; [constructor|reflexivity]|exact H].
Qed.

(* once the consumer has caught up it has decoded exactly what was produced, in order *)
Corollary caught_up_decodes_all : forall ops, inflight (run false ops) = [] -> decoded (run false ops) = produced ops.
Proof.
  intros ops H. pose proof (messages_are_values ops) as M. rewrite H in M. cbn [map] in M. rewrite app_nil_r in M. exact M.
Qed.

(* the seeded change: a message that is a view of the buffer shows the later message to a lagging consumer *)
Example alias_refuted :
  let ops := [Produce [1; 2; 3]; Produce [7; 8]; Consume; Consume] in
  inflight (run true ops) = [] /\ decoded (run true ops) = [[7; 8; 3]; [7; 8]] /\ decoded (run false ops) = produced ops.
Proof. vm_compute. repeat split. Qed.
