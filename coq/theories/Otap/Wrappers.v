(* Otap/Wrappers.v — how optional scalar fields travel: the builder wrappers of common/schema/builder write a
   cell or null, the accessors of pkg/arrow read null (or an absent column) as the zero value / as "absent".
   Value-only fields may elide their zero (AppendNonZero / AppendNonEmpty): null decodes to the same zero.
   Presence-carrying fields (histogram sum/min/max, number/exemplar int-vs-double values) must not: null is how
   absence is encoded. *)
From Verif Require Import Base.ListX.

Inductive cell (A : Type) := Null | Cell (a : A).
Arguments Null {A}. Arguments Cell {A}.

Section Scalar.
  Variable A : Type.
  Variable zero : A.
  Variable is_zero : A -> bool.
  Hypothesis is_zero_spec : forall a, is_zero a = true -> a = zero.

  (* value-only field *)
  Definition append (a : A) : cell A := Cell a.
  Definition append_non_zero (a : A) : cell A := if is_zero a then Null else Cell a.
  Definition read (c : cell A) : A := match c with Null => zero | Cell a => a end.

  Lemma read_append a : read (append a) = a.
  Proof. reflexivity. Qed.
  Lemma read_append_non_zero a : read (append_non_zero a) = a.
  Proof. unfold append_non_zero. destruct (is_zero a) eqn:E; [symmetry; apply is_zero_spec; exact E|reflexivity]. Qed.

  (* presence-carrying field: option A on the OTLP side *)
  Definition enc_opt (o : option A) : cell A := match o with Some a => append a | None => Null end.
  Definition enc_opt_legacy (o : option A) : cell A := match o with Some a => append_non_zero a | None => Null end.
  Definition dec_opt (c : cell A) : option A := match c with Null => None | Cell a => Some a end.

  Lemma dec_enc_opt o : dec_opt (enc_opt o) = o.
  Proof. destruct o; reflexivity. Qed.

  (* the code before the fix lost the presence of a zero value *)
  Lemma legacy_loses_zero : is_zero zero = true -> dec_opt (enc_opt_legacy (Some zero)) <> Some zero.
  Proof. intros H. cbn. unfold append_non_zero. rewrite H. discriminate. Qed.
End Scalar.
