(* Otap/Sorters.v — the attribute sorter variants (OrderAttrs16By / OrderAttrs32By) and the one decoder.
   The decoder (otlp.AttrsParentIDDecoder) always applies the (key, Equal value) group-delta rule.  After the fix every
   sorter variant ENCODES with that same rule (encodeAttrs16ParentID / encodeAttrs32ParentID), whatever order it sorts
   in — so decoding is correct for every variant by gd_dec_enc, which holds for any row order.
   The encodings the variants used before the fix are kept here as the recorded finding. *)
From Verif Require Import Base.ListX Obf.Obfuscate Otap.Tables Otap.Attrs.

Section W.
  Variable W : N.

  (* legacy OrderAttrs*ByNothing: the parent id itself *)
  Definition enc_raw (rows : list (akey * N)) : list (akey * N) := rows.
  (* legacy OrderAttrs16ByParentIdKeyValue: plain delta to the previous row *)
  Fixpoint enc_plain (prev : N) (rows : list (akey * N)) : list (akey * N) :=
    match rows with [] => [] | (k, p) :: tl => (k, subW W p prev) :: enc_plain p tl end.
  (* legacy *ByTypeKeyParentIdValue: group on (value type, key) only *)
  Definition vtype (v : value) : N :=
    match v with VEmpty => 0 | VStr _ => 1 | VInt _ => 2 | VDouble _ => 3 | VBool _ => 4 | VMap _ => 5 | VList _ => 6 | VBytes _ => 7 end.
  Definition same_type_key (a b : akey) : bool := bytes_eqb (fst a) (fst b) && N.eqb (vtype (snd a)) (vtype (snd b)).
  Definition enc_type_key (rows : list (akey * N)) : list (akey * N) := gd_enc W akey same_type_key None rows.
End W.

(* each legacy encoding is mis-decoded by the (unchanged) decoder on some table *)
Lemma legacy_raw_refuted : exists rows, attrs_dec 65536 (enc_raw rows) <> rows.
Proof. exists [(([1], VInt 5), 3); (([1], VInt 5), 4)]. vm_compute. discriminate. Qed.
Lemma legacy_plain_refuted : exists rows, attrs_dec 65536 (enc_plain 65536 0 rows) <> rows.
Proof. exists [(([1], VInt 5), 3); (([2], VInt 5), 4)]. vm_compute. discriminate. Qed.
Lemma legacy_type_key_refuted : exists rows, attrs_dec 65536 (enc_type_key 65536 rows) <> rows.
Proof. exists [(([1], VInt 5), 3); (([1], VInt 6), 4)]. vm_compute. discriminate. Qed.

(* rows sorted in whatever way a variant likes: a list permutation; decoding the current encoding gives the rows back *)
Theorem any_order_decodes W (rows sorted : list (akey * N)) :
  0 < W -> Permutation rows sorted -> Forall (fun r => snd r < W) rows ->
  attrs_dec W (attrs_enc W sorted) = sorted.
Proof.
  intros HW Hp Hr. unfold attrs_dec, attrs_enc. apply gd_dec_enc; [exact HW| |exact I].
  apply Forall_forall. intros x Hx. rewrite Forall_forall in Hr. apply Hr. apply Permutation_sym in Hp. exact (Permutation_in x Hp Hx).
Qed.
