(* Otap/Tables.v — the id machinery that ties OTAP's related tables to their parents:
   - delta-encoded, nullable id columns (Uint16/32DeltaBuilder; decoders accumulate the deltas),
   - parent-id columns of attribute / event / link tables: "group-delta" encoding keyed on a `same` relation
     (attributes: same key and Equal value; events: same name; links: same trace id), plain delta and no
     encoding as the other sorter variants write them,
   - the attribute store the decoder builds (AttributesStoreFrom: PutEmpty per row under the decoded parent id).
   All arithmetic is modulo the id width W (uint16 / uint32 subtraction and addition wrap). Rows may come in
   ANY order: the sort is an arbitrary permutation as far as these theorems are concerned. *)
From Verif Require Import Base.ListX.

Section Width.
  Variable W : N.                   (* 2^16 or 2^32 *)
  Hypothesis Wpos : 0 < W.

  Definition subW (a b : N) : N := (a + W - b mod W) mod W.
  Definition addW (a b : N) : N := (a + b) mod W.

  Lemma addW_subW a b : a < W -> b < W -> addW b (subW a b) = a.
  Proof.
    intros Ha Hb. unfold addW, subW. rewrite (N.mod_small b W) by exact Hb.
    rewrite N.add_mod_idemp_r by lia. replace (b + (a + W - b)) with (a + 1 * W) by lia.
    rewrite N.mod_add by lia. apply N.mod_small. exact Ha.
  Qed.

  (* ---------------------------------------------------------------- group-delta parent ids *)
  Section GroupDelta.
    Variable K : Type.                         (* what a row is grouped on: (key, value) / name / trace id *)
    Variable same : K -> K -> bool.            (* need not be reflexive: Equal is false for NaN, maps, slices *)

    (* encoder state: None before the first row (prevValue == nil), else (group key, previous parent id) *)
    Fixpoint gd_enc (st : option (K * N)) (rows : list (K * N)) : list (K * N) :=
      match rows with
      | [] => []
      | (k, p) :: tl =>
          match st with
          | Some (pk, pp) =>
              if same pk k then (k, subW p pp) :: gd_enc (Some (pk, p)) tl
              else (k, p) :: gd_enc (Some (k, p)) tl
          | None => (k, p) :: gd_enc (Some (k, p)) tl
          end
      end.

    (* AttrsParentIDDecoder.Decode with ParentIdDeltaGroupEncoding *)
    Fixpoint gd_dec (st : option (K * N)) (rows : list (K * N)) : list (K * N) :=
      match rows with
      | [] => []
      | (k, d) :: tl =>
          match st with
          | Some (pk, pp) =>
              if same pk k then let p := addW pp d in (k, p) :: gd_dec (Some (pk, p)) tl
              else (k, d) :: gd_dec (Some (k, d)) tl
          | None => (k, d) :: gd_dec (Some (k, d)) tl
          end
      end.

    Definition st_ok (st : option (K * N)) : Prop := match st with Some (_, p) => p < W | None => True end.

    (* any row order, any grouping relation: the decoder recovers every parent id *)
    Lemma gd_dec_enc : forall rows st,
      Forall (fun r => snd r < W) rows -> st_ok st -> gd_dec st (gd_enc st rows) = rows.
    Proof.
      induction rows as [|[k p] tl IH]; intros st Hr Hst; [reflexivity|].
      inversion Hr as [|? ? Hp Htl]; subst. cbn [snd] in Hp. cbn [gd_enc].
      destruct st as [[pk pp]|].
      - destruct (same pk k) eqn:E; cbn [gd_dec]; rewrite E.
        + cbn [st_ok] in Hst. rewrite (addW_subW p pp Hp Hst). f_equal. apply IH; [exact Htl|exact Hp].
        + f_equal. apply IH; [exact Htl|exact Hp].
      - cbn [gd_dec]. f_equal. apply IH; [exact Htl|exact Hp].
    Qed.
  End GroupDelta.

  (* the Go decoder's initial state is "no previous key" with prevParentID = 0: when the first row's key is
     not `same` as the zero key it starts a group — modelled by st = None *)

  (* ---------------------------------------------------------------- plain delta / nullable id columns *)
  (* Uint16/32DeltaBuilder: every non-null cell holds the difference to the previous non-null value (0 at the
     start of a record); the decoders add the cells up. *)
  Fixpoint id_enc (prev : N) (ids : list (option N)) : list (option N) :=
    match ids with
    | [] => []
    | None :: tl => None :: id_enc prev tl
    | Some v :: tl => Some (subW v prev) :: id_enc v tl
    end.
  Fixpoint id_dec (prev : N) (cells : list (option N)) : list (option N) :=
    match cells with
    | [] => []
    | None :: tl => None :: id_dec prev tl
    | Some d :: tl => let v := addW prev d in Some v :: id_dec v tl
    end.

  Lemma id_dec_enc : forall ids prev,
    Forall (fun o => match o with Some v => v < W | None => True end) ids -> prev < W ->
    id_dec prev (id_enc prev ids) = ids.
  Proof.
    induction ids as [|[v|] tl IH]; intros prev H Hp; [reflexivity| |]; inversion H as [|? ? Hv Htl]; subst; cbn [id_enc id_dec].
    - rewrite (addW_subW v prev Hv Hp). f_equal. apply IH; assumption.
    - f_equal. apply IH; assumption.
  Qed.

  (* the builders panic when an id is smaller than its predecessor or the step exceeds max-delta; with ids handed
     out by a counter in row order (0,1,2,… only on rows that have children) neither can happen *)
  Fixpoint seq_ids (next : N) (has_children : list bool) : list (option N) :=
    match has_children with
    | [] => []
    | true :: tl => Some next :: seq_ids (next + 1) tl
    | false :: tl => None :: seq_ids next tl
    end.
  Fixpoint steps_ok (prev : N) (first : bool) (ids : list (option N)) : bool :=
    match ids with
    | [] => true
    | None :: tl => steps_ok prev first tl
    | Some v :: tl => (first || ((prev <=? v) && (v - prev <=? 1))) && steps_ok v false tl
    end.
  Lemma seq_ids_steps_ok : forall hc next prev first,
    (first = true \/ prev + 1 = next \/ (prev = next /\ next = 0)) -> steps_ok prev first (seq_ids next hc) = true.
  Proof.
    induction hc as [|[|] tl IH]; intros next prev first H; cbn [seq_ids steps_ok]; [reflexivity| |].
    - rewrite (IH (next + 1) next false) by (right; left; reflexivity). rewrite andb_true_r.
      destruct H as [->|[H|[H1 H2]]]; [reflexivity| |]; apply orb_true_iff; right; apply andb_true_iff; split; apply N.leb_le; lia.
    - apply IH. exact H.
  Qed.
End Width.

(* ---------------------------------------------------------------- attribute store *)
(* AttributesStoreFrom: rows in table order; `value.CopyTo(m.PutEmpty(key))` under the decoded parent id. *)
Section Store.
  Variable V : Type.
  Variable key_eqb : list N -> list N -> bool.

  Fixpoint put (m : list (list N * V)) (k : list N) (v : V) : list (list N * V) :=
    match m with
    | [] => [(k, v)]
    | (k', v') :: tl => if key_eqb k' k then (k, v) :: tl else (k', v') :: put tl k v
    end.

  Fixpoint store_put (s : list (N * list (list N * V))) (p : N) (k : list N) (v : V) : list (N * list (list N * V)) :=
    match s with
    | [] => [(p, [(k, v)])]
    | (p', m) :: tl => if N.eqb p' p then (p', put m k v) :: tl else (p', m) :: store_put tl p k v
    end.

  Definition store_of (rows : list (N * list N * V)) : list (N * list (list N * V)) :=
    fold_left (fun s r => store_put s (fst (fst r)) (snd (fst r)) (snd r)) rows [].

  Fixpoint store_get (s : list (N * list (list N * V))) (p : N) : list (list N * V) :=
    match s with [] => [] | (p', m) :: tl => if N.eqb p' p then m else store_get tl p end.
End Store.

(* what the store holds for a parent = the rows of that parent, put in table order; with pairwise distinct keys
   (a pdata map has none twice) that is exactly the parent's rows, whatever rows of other parents are interleaved *)
Section StoreProofs.
  Variable V : Type.
  Notation keq := (list_eqb N.eqb).

  Lemma keq_eq a b : keq a b = true <-> a = b.
  Proof. apply list_eqb_eq. intros x y. apply N.eqb_eq. Qed.

  Definition rows_of (p : N) (rows : list (N * list N * V)) : list (list N * V) :=
    map (fun r => (snd (fst r), snd r)) (filter (fun r => N.eqb (fst (fst r)) p) rows).

  Definition put_all (l : list (list N * V)) (acc : list (list N * V)) : list (list N * V) :=
    fold_left (fun m kv => put V keq m (fst kv) (snd kv)) l acc.

  Lemma store_get_put_same s p k v :
    store_get V (store_put V keq s p k v) p = put V keq (store_get V s p) k v.
  Proof.
    induction s as [|[p' m] tl IH]; cbn [store_put store_get].
    - rewrite N.eqb_refl. reflexivity.
    - destruct (N.eqb p' p) eqn:E; cbn [store_get]; rewrite E; [reflexivity|exact IH].
  Qed.

  Lemma store_get_put_other s p q k v : p <> q ->
    store_get V (store_put V keq s p k v) q = store_get V s q.
  Proof.
    intros Hne. induction s as [|[p' m] tl IH]; cbn [store_put store_get].
    - assert (E : N.eqb p q = false) by (apply N.eqb_neq; exact Hne). rewrite E. reflexivity.
    - destruct (N.eqb p' p) eqn:E; cbn [store_get].
      + apply N.eqb_eq in E. subst. assert (E2 : N.eqb p q = false) by (apply N.eqb_neq; exact Hne). rewrite E2. reflexivity.
      + destruct (N.eqb p' q); [reflexivity|exact IH].
  Qed.

  Lemma store_get_fold rows : forall s p,
    store_get V (fold_left (fun s r => store_put V keq s (fst (fst r)) (snd (fst r)) (snd r)) rows s) p =
    put_all (rows_of p rows) (store_get V s p).
  Proof.
    induction rows as [|[[q k] v] tl IH]; intros s p; cbn [fold_left]; [reflexivity|].
    rewrite IH. unfold rows_of. cbn [filter fst snd]. destruct (N.eqb q p) eqn:E.
    - apply N.eqb_eq in E. subst. cbn [map fst snd]. unfold put_all. cbn [fold_left fst snd]. rewrite store_get_put_same. reflexivity.
    - apply N.eqb_neq in E. rewrite store_get_put_other by exact E. reflexivity.
  Qed.

  Lemma put_fresh m k v : ~ In k (map fst m) -> put V keq m k v = m ++ [(k, v)].
  Proof.
    induction m as [|[k' v'] tl IH]; intros Hn; cbn [put]; [reflexivity|].
    destruct (keq k' k) eqn:E; [apply keq_eq in E; subst; exfalso; apply Hn; left; reflexivity|].
    cbn [app]. f_equal. apply IH. intros Hi. apply Hn. right. exact Hi.
  Qed.

  Lemma put_all_nodup l : forall acc, NoDup (map fst acc ++ map fst l) -> put_all l acc = acc ++ l.
  Proof.
    induction l as [|[k v] tl IH]; intros acc Hnd; unfold put_all; cbn [fold_left]; [rewrite app_nil_r; reflexivity|].
    cbn [fst snd map] in *. rewrite put_fresh.
    - fold (put_all tl (acc ++ [(k, v)])). rewrite IH; [rewrite <- app_assoc; reflexivity|].
      rewrite map_app. cbn [map fst]. rewrite <- app_assoc. exact Hnd.
    - intros Hi. apply NoDup_remove_2 in Hnd. apply Hnd. apply in_or_app. left. exact Hi.
  Qed.

  (* the attribute map the decoder hands to parent p *)
  Theorem store_of_parent rows p :
    NoDup (map fst (rows_of p rows)) -> store_get V (store_of V keq rows) p = rows_of p rows.
  Proof.
    intros Hnd. unfold store_of. rewrite store_get_fold. cbn [store_get]. apply put_all_nodup. exact Hnd.
  Qed.
End StoreProofs.
