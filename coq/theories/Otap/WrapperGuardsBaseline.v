(* Otap/WrapperGuardsBaseline.v — when does a value written to a still-absent optional column make the column appear?
   The wrappers of pkg/otel/common/schema/builder swallow writes to an absent column and request a schema update from the
   statement guarding b.updateRequest.  gen/WrapperGuards.v is regenerated from the current source on every run (every Append*
   method, the guard's condition as written); Props/C03.v and Props/C04.v require every generated triple to be in this table.
   Classes, as Otap/Wrappers.v models them: AnyValue = [append]: every value, the type's zero included, makes the column appear
   (the callers use these where zero is a real value and "absent" means "no value": presence is preserved, dec_enc_opt);
   NonDefaultOnly = [append_non_zero]: the zero / empty / false value leaves the column absent (harmless where the decoder's
   default for an absent column is that very value: read_append_non_zero); Never = AppendNull and the containers. A guard that
   starts eliding zeros where the model has AnyValue (legacy_loses_zero) is no longer in the table. *)
From Coq Require Import String List Bool.
Import ListNotations.
Open Scope string_scope.

Inductive gclass := AnyValue | NonDefaultOnly | Never.
Definition wrapper_guards_baseline : list (string * string * string * gclass) := [
 ("*BinaryBuilder", "Append", "b.updateRequest != nil", AnyValue);
 ("*BinaryBuilder", "AppendNonNil", "value != nil && b.updateRequest != nil", NonDefaultOnly);
 ("*BinaryBuilder", "AppendNull", "(never requests the column)", Never);
 ("*BooleanBuilder", "Append", "b.updateRequest != nil", AnyValue);
 ("*BooleanBuilder", "AppendNonFalse", "value && b.updateRequest != nil", NonDefaultOnly);
 ("*BooleanBuilder", "AppendNull", "(never requests the column)", Never);
 ("*DurationBuilder", "Append", "value != 0 && b.updateRequest != nil", NonDefaultOnly);
 ("*DurationBuilder", "AppendNull", "(never requests the column)", Never);
 ("*FixedSizeBinaryBuilder", "Append", "value != nil && b.updateRequest != nil", NonDefaultOnly);
 ("*FixedSizeBinaryBuilder", "AppendNull", "(never requests the column)", Never);
 ("*Float64Builder", "Append", "b.updateRequest != nil", AnyValue);
 ("*Float64Builder", "AppendNonZero", "value != 0 && b.updateRequest != nil", NonDefaultOnly);
 ("*Float64Builder", "AppendNull", "(never requests the column)", Never);
 ("*Int32Builder", "Append", "b.updateRequest != nil", AnyValue);
 ("*Int32Builder", "AppendNonZero", "value != 0 && b.updateRequest != nil", NonDefaultOnly);
 ("*Int32Builder", "AppendNull", "(never requests the column)", Never);
 ("*Int64Builder", "Append", "b.updateRequest != nil", AnyValue);
 ("*Int64Builder", "AppendNonZero", "value != 0 && b.updateRequest != nil", NonDefaultOnly);
 ("*Int64Builder", "AppendNull", "(never requests the column)", Never);
 ("*ListBuilder", "Append", "(never requests the column)", Never);
 ("*ListBuilder", "AppendNull", "(never requests the column)", Never);
 ("*MapBuilder", "Append", "(never requests the column)", Never);
 ("*MapBuilder", "AppendNull", "(never requests the column)", Never);
 ("*SparseUnionBuilder", "Append", "sub.updateRequest != nil", AnyValue);
 ("*SparseUnionBuilder", "AppendNull", "(never requests the column)", Never);
 ("*StringBuilder", "Append", "b.updateRequest != nil", AnyValue);
 ("*StringBuilder", "AppendNonEmpty", "value != '' && b.updateRequest != nil", NonDefaultOnly);
 ("*StringBuilder", "AppendNull", "(never requests the column)", Never);
 ("*StructBuilder", "Append", "data != nil && sb.updateRequest != nil", NonDefaultOnly);
 ("*StructBuilder", "AppendNull", "(never requests the column)", Never);
 ("*TimestampBuilder", "Append", "value != 0 && b.updateRequest != nil", NonDefaultOnly);
 ("*TimestampBuilder", "AppendNull", "(never requests the column)", Never);
 ("*Uint16Builder", "Append", "value != 0 && b.updateRequest != nil", NonDefaultOnly);
 ("*Uint16Builder", "AppendNonZero", "value != 0 && b.updateRequest != nil", NonDefaultOnly);
 ("*Uint16Builder", "AppendNull", "(never requests the column)", Never);
 ("*Uint16DeltaBuilder", "Append", "b.updateRequest != nil", AnyValue);
 ("*Uint16DeltaBuilder", "AppendNull", "(never requests the column)", Never);
 ("*Uint32Builder", "Append", "value != 0 && b.updateRequest != nil", NonDefaultOnly);
 ("*Uint32Builder", "AppendNonZero", "value != 0 && b.updateRequest != nil", NonDefaultOnly);
 ("*Uint32Builder", "AppendNull", "(never requests the column)", Never);
 ("*Uint32DeltaBuilder", "Append", "b.updateRequest != nil", AnyValue);
 ("*Uint32DeltaBuilder", "AppendNull", "(never requests the column)", Never);
 ("*Uint64Builder", "Append", "value != 0 && b.updateRequest != nil", NonDefaultOnly);
 ("*Uint64Builder", "AppendNonZero", "value != 0 && b.updateRequest != nil", NonDefaultOnly);
 ("*Uint64Builder", "AppendNull", "(never requests the column)", Never);
 ("*Uint8Builder", "Append", "value != 0 && b.updateRequest != nil", NonDefaultOnly);
 ("*Uint8Builder", "AppendNonZero", "value != 0 && b.updateRequest != nil", NonDefaultOnly)
].
Definition guard_known (g : string * string * string) : bool :=
  existsb (fun b => match b, g with (r, m, c, _), (r', m', c') => String.eqb r r' && String.eqb m m' && String.eqb c c' end) wrapper_guards_baseline.
