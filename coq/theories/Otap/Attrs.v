(* Otap/Attrs.v — the attribute tables (Attrs16 / Attrs32 and their decoder AttributesStoreFrom) as an
   instance of Tables.v: rows (parent id, key, value), parent ids group-delta encoded on (key, Equal value).
   `Equal` is the Go function of common/arrow/attributes.go: false for maps, slices and empty values, `==` on
   doubles (NaN differs from everything, +0 equals -0). *)
From Verif Require Import Base.ListX Obf.Obfuscate Otap.Tables Otlp.Equiv.

Definition f64_eq (a b : N) : bool :=
  if is_nan a || is_nan b then false
  else if ((a =? 0) || (a =? 9223372036854775808)) && ((b =? 0) || (b =? 9223372036854775808)) then true
  else N.eqb a b.

Definition go_equal (a b : value) : bool :=
  match a, b with
  | VInt x, VInt y => Z.eqb x y
  | VDouble x, VDouble y => f64_eq x y
  | VBool x, VBool y => Bool.eqb x y
  | VStr x, VStr y => bytes_eqb x y
  | VBytes x, VBytes y => bytes_eqb x y
  | _, _ => false
  end.

Definition akey := (bytes * value)%type.
Definition attr_same (a b : akey) : bool := bytes_eqb (fst a) (fst b) && go_equal (snd a) (snd b).

Section W.
  Variable W : N.

  (* encoder (default sorter order or any other order: rows come as they are) and decoder of the parent ids *)
  Definition attrs_enc (rows : list (akey * N)) : list (akey * N) := gd_enc W akey attr_same None rows.
  Definition attrs_dec (rows : list (akey * N)) : list (akey * N) := gd_dec W akey attr_same None rows.

  Definition attrs_store (rows : list (akey * N)) : list (N * list (bytes * value)) :=
    store_of value bytes_eqb (map (fun r => (snd r, fst (fst r), snd (fst r))) rows).

  (* Round trip of one attribute table: whatever the order the sorter produced, every parent gets back exactly
     its own attributes, in table order, provided ids fit the width and a parent has no key twice. *)
  Theorem attrs_roundtrip (rows : list (akey * N)) (p : N) :
    0 < W -> Forall (fun r => snd r < W) rows ->
    NoDup (map fst (rows_of value p (map (fun r => (snd r, fst (fst r), snd (fst r))) rows))) ->
    store_get value (attrs_store (attrs_dec (attrs_enc rows))) p =
    rows_of value p (map (fun r => (snd r, fst (fst r), snd (fst r))) rows).
  Proof.
    intros HW Hr Hnd. unfold attrs_dec, attrs_enc. rewrite (gd_dec_enc W HW akey attr_same rows None Hr I).
    unfold attrs_store. apply store_of_parent. exact Hnd.
  Qed.
End W.

(* executable comparison helpers for the case files *)
Fixpoint remove_first {A} (f : A -> bool) (l : list A) : option (list A) :=
  match l with
  | [] => None
  | x :: tl => if f x then Some tl else match remove_first f tl with Some r => Some (x :: r) | None => None end
  end.
Fixpoint perm_eqb {A} (eqb : A -> A -> bool) (l1 l2 : list A) : bool :=
  match l1 with
  | [] => match l2 with [] => true | _ => false end
  | x :: t1 => match remove_first (eqb x) l2 with Some r => perm_eqb eqb t1 r | None => false end
  end.
Definition entry_eqb (a b : bytes * value) : bool := bytes_eqb (fst a) (fst b) && value_eqb (snd a) (snd b).
