(* Obf/Obfuscate.v — model of the obfuscation processor (processor.go): processAttrs /
   processSliceValue (copy – rebuild – copy back, Put* overwriting an existing key), which fields of
   each signal are obfuscated, both modes (encrypt_all; encrypt_attributes = list of keys), over an
   abstract string cipher `enc` (Feistel.v shows the real one is length-preserving and injective).
   A document is flattened by the harness into a sequence of items in traversal order: attribute maps
   and string fields, each tagged with its kind. *)
From Verif Require Import Base.ListX.

Definition bytes := list N.

Inductive value :=
| VEmpty | VStr (s : bytes) | VInt (z : Z) | VDouble (bits : N) | VBool (b : bool) | VBytes (b : bytes)
| VList (l : list value) | VMap (m : list (bytes * value)).

Definition bytes_eqb : bytes -> bytes -> bool := list_eqb N.eqb.

(* pcommon.Map.Put*: overwrite the value of an existing key in place, else append *)
Fixpoint put (m : list (bytes * value)) (k : bytes) (v : value) : list (bytes * value) :=
  match m with
  | [] => [(k, v)]
  | (k', v') :: tl => if bytes_eqb k' k then (k, v) :: tl else (k', v') :: put tl k v
  end.
Definition put_all (l : list (bytes * value)) : list (bytes * value) :=
  fold_left (fun acc kv => put acc (fst kv) (snd kv)) l [].

Section Obf.
  Variable enc : bytes -> bytes.
  Variable all : bool.                       (* encrypt_all *)
  Variable listed : bytes -> bool.           (* key in encrypt_attributes *)
  (* the code before the fix skipped unlisted attributes while rebuilding the map, i.e. dropped them *)
  Variable drop_unlisted : bool.

  Fixpoint obf_val (v : value) : value :=
    match v with
    | VStr s => VStr (enc s)
    | VBytes b => VBytes (enc b)
    | VList l => VList (map obf_val l)
    | VMap m => VMap (put_all (flat_map (fun kv =>
                   if all || listed (fst kv) then [(enc (fst kv), obf_val (snd kv))]
                   else if drop_unlisted then [] else [kv]) m))
    | other => other
    end.

  Definition obf_attrs (m : list (bytes * value)) : list (bytes * value) :=
    match obf_val (VMap m) with VMap m' => m' | _ => [] end.

  (* items of a flattened document *)
  Inductive item :=
  | IAttrs (m : list (bytes * value))
  | IStr (kind : N) (s : bytes).

  (* string fields: 1 scope name, 2 scope version, 3 span name, 4 status message, 5 event name;
     every other kind (trace state, log body, severity text, metric name/description/unit, schema URLs,…)
     is left alone.  Logs (signal 1) and metrics (signal 2) only have their attributes processed. *)
  Definition targets (signal kind : N) : bool :=
    (signal =? 0) && ((kind =? 1) || (kind =? 2) || (kind =? 3) || (kind =? 4) || (kind =? 5)).

  Definition obf_item (signal : N) (i : item) : item :=
    match i with
    | IAttrs m => IAttrs (obf_attrs m)
    | IStr kind s => if targets signal kind then IStr kind (enc s) else IStr kind s
    end.

  Definition obf_doc (signal : N) (d : list item) : list item := map (obf_item signal) d.
End Obf.

(* ------------------------------------------------------------- structure theorems *)

Lemma bytes_eqb_eq a b : bytes_eqb a b = true <-> a = b.
Proof. apply list_eqb_eq. intros x y. apply N.eqb_eq. Qed.

Lemma put_fresh m k v : ~ In k (map fst m) -> put m k v = m ++ [(k, v)].
Proof.
  induction m as [|[k' v'] tl IH]; intros Hn; cbn [put]; [reflexivity|].
  destruct (bytes_eqb k' k) eqn:E.
  - apply bytes_eqb_eq in E. subst. exfalso. apply Hn. left. reflexivity.
  - cbn [app]. f_equal. apply IH. intros Hi. apply Hn. right. exact Hi.
Qed.

Lemma put_all_nodup_aux l : forall acc,
  NoDup (map fst acc ++ map fst l) -> fold_left (fun acc kv => put acc (fst kv) (snd kv)) l acc = acc ++ l.
Proof.
  induction l as [|[k v] tl IH]; intros acc Hnd; cbn [fold_left]; [rewrite app_nil_r; reflexivity|].
  cbn [fst snd map] in *. rewrite put_fresh.
  - rewrite IH; [rewrite <- app_assoc; reflexivity|].
    rewrite map_app. cbn [map fst]. rewrite <- app_assoc. exact Hnd.
  - intros Hi. apply NoDup_remove_2 in Hnd. apply Hnd. apply in_or_app. left. exact Hi.
Qed.

(* with pairwise distinct keys nothing is overwritten: the rebuilt map is the list of rebuilt entries,
   same number, same order *)
Lemma put_all_nodup l : NoDup (map fst l) -> put_all l = l.
Proof. intros H. unfold put_all. rewrite put_all_nodup_aux; [reflexivity|exact H]. Qed.

Section Structure.
  Variable enc : bytes -> bytes.
  Hypothesis enc_inj : forall a b, enc a = enc b -> a = b.

  (* encrypt_all: every attribute is kept, in order, its key renamed by the injection, its value
     obfuscated recursively — provided the map had distinct keys (pdata's invariant) *)
  Lemma obf_attrs_all m listed dropu :
    NoDup (map fst m) ->
    obf_attrs enc true listed dropu m = map (fun kv => (enc (fst kv), obf_val enc true listed dropu (snd kv))) m.
  Proof.
    intros Hnd. unfold obf_attrs. cbn [obf_val orb].
    assert (Hfm : forall l, flat_map (fun kv : bytes * value => [(enc (fst kv), obf_val enc true listed dropu (snd kv))]) l =
                            map (fun kv => (enc (fst kv), obf_val enc true listed dropu (snd kv))) l).
    { induction l as [|a l IH]; cbn [flat_map map app]; [reflexivity|]. f_equal; try exact IH. }
    rewrite Hfm. apply put_all_nodup. rewrite map_map. cbn [fst].
    clear Hfm. induction m as [|[k v] tl IH]; cbn [map fst]; [constructor|].
    inversion Hnd as [|? ? Hk Htl]; subst. constructor; [|apply IH; exact Htl].
    intros Hi. apply in_map_iff in Hi. destruct Hi as [[k2 v2] [He Hi2]]. cbn [fst] in He.
    apply enc_inj in He. subst. apply Hk. apply in_map_iff. exists (k, v2). split; [reflexivity|exact Hi2].
  Qed.

  (* list mode (after the fix): unlisted attributes are kept untouched, listed ones renamed and
     obfuscated, all in place — provided no renamed listed key collides with another key of the map *)
  Definition renamed (listed : bytes -> bool) (kv : bytes * value) : bytes :=
    if listed (fst kv) then enc (fst kv) else fst kv.

  Lemma obf_attrs_list m listed :
    NoDup (map (renamed listed) m) ->
    obf_attrs enc false listed false m =
      map (fun kv => if listed (fst kv) then (enc (fst kv), obf_val enc false listed false (snd kv)) else kv) m.
  Proof.
    intros Hnd. unfold obf_attrs. cbn [obf_val orb].
    assert (Hfm : forall l, flat_map (fun kv : bytes * value =>
                     if listed (fst kv) then [(enc (fst kv), obf_val enc false listed false (snd kv))] else [kv]) l =
                   map (fun kv => if listed (fst kv) then (enc (fst kv), obf_val enc false listed false (snd kv)) else kv) l).
    { induction l as [|a l IH]; cbn [flat_map map]; [reflexivity|]. destruct (listed (fst a)); cbn [app]; f_equal; try exact IH. }
    rewrite Hfm. apply put_all_nodup. rewrite map_map.
    erewrite map_ext; [exact Hnd|]. intros [k v]. unfold renamed. cbn [fst]. destruct (listed k); reflexivity.
  Qed.

  (* the legacy list mode drops every unlisted attribute *)
  Lemma obf_attrs_list_v0_drops :
    exists m listed, (length (obf_attrs enc false listed true m) < length m)%nat.
  Proof. exists [([1], VInt 0)], (fun _ => false). cbn. lia. Qed.
End Structure.

(* ------------------------------------------------------------- executable checkers *)

Fixpoint value_eqb (a b : value) : bool :=
  match a, b with
  | VEmpty, VEmpty => true
  | VStr x, VStr y => bytes_eqb x y
  | VInt x, VInt y => Z.eqb x y
  | VDouble x, VDouble y => N.eqb x y
  | VBool x, VBool y => Bool.eqb x y
  | VBytes x, VBytes y => bytes_eqb x y
  | VList x, VList y =>
      (fix go (l1 l2 : list value) : bool :=
         match l1, l2 with [], [] => true | u :: t1, w :: t2 => value_eqb u w && go t1 t2 | _, _ => false end) x y
  | VMap x, VMap y =>
      (fix go (l1 l2 : list (bytes * value)) : bool :=
         match l1, l2 with
         | [], [] => true
         | (k1, u) :: t1, (k2, w) :: t2 => bytes_eqb k1 k2 && value_eqb u w && go t1 t2
         | _, _ => false end) x y
  | _, _ => false
  end.

Definition item_eqb (a b : item) : bool :=
  match a, b with
  | IAttrs x, IAttrs y => value_eqb (VMap x) (VMap y)
  | IStr k1 s1, IStr k2 s2 => N.eqb k1 k2 && bytes_eqb s1 s2
  | _, _ => false
  end.

(* Align an input value with the corresponding output value following the processor's traversal and
   collect every (plaintext, substitute) pair; None = the structure was not preserved
   (an attribute / element added, dropped, reordered, or a non-targeted value changed). *)
Section Collect.
  Variable all : bool.
  Variable listed : bytes -> bool.

  Fixpoint collect_val (a b : value) : option (list (bytes * bytes)) :=
    match a, b with
    | VStr x, VStr y => Some [(x, y)]
    | VBytes x, VBytes y => Some [(x, y)]
    | VList x, VList y =>
        (fix go (l1 l2 : list value) : option (list (bytes * bytes)) :=
           match l1, l2 with
           | [], [] => Some []
           | u :: t1, w :: t2 =>
               match collect_val u w, go t1 t2 with Some p, Some q => Some (p ++ q) | _, _ => None end
           | _, _ => None end) x y
    | VMap x, VMap y =>
        (fix go (l1 l2 : list (bytes * value)) : option (list (bytes * bytes)) :=
           match l1, l2 with
           | [], [] => Some []
           | (k1, u) :: t1, (k2, w) :: t2 =>
               if all || listed k1 then
                 match collect_val u w, go t1 t2 with Some p, Some q => Some ((k1, k2) :: p ++ q) | _, _ => None end
               else if bytes_eqb k1 k2 && value_eqb u w then go t1 t2 else None
           | _, _ => None end) x y
    | _, _ => if value_eqb a b then Some [] else None
    end.

  Definition collect_item (signal : N) (a b : item) : option (list (bytes * bytes)) :=
    match a, b with
    | IAttrs x, IAttrs y => collect_val (VMap x) (VMap y)
    | IStr k1 s1, IStr k2 s2 =>
        if negb (N.eqb k1 k2) then None
        else if targets signal k1 then Some [(s1, s2)]
        else if bytes_eqb s1 s2 then Some [] else None
    | _, _ => None
    end.

  Fixpoint collect_doc (signal : N) (a b : list item) : option (list (bytes * bytes)) :=
    match a, b with
    | [], [] => Some []
    | x :: t1, y :: t2 =>
        match collect_item signal x y, collect_doc signal t1 t2 with Some p, Some q => Some (p ++ q) | _, _ => None end
    | _, _ => None
    end.
End Collect.

(* the table of one processor instance must be a length-preserving injective function *)
Fixpoint lookup (t : list (bytes * bytes)) (k : bytes) : option bytes :=
  match t with [] => None | (a, b) :: tl => if bytes_eqb a k then Some b else lookup tl k end.
Fixpoint rlookup (t : list (bytes * bytes)) (k : bytes) : option bytes :=
  match t with [] => None | (a, b) :: tl => if bytes_eqb b k then Some a else rlookup tl k end.

Definition table_okb (t : list (bytes * bytes)) : bool :=
  forallb (fun p => Nat.eqb (length (fst p)) (length (snd p)) &&
                    match lookup t (fst p) with Some b => bytes_eqb b (snd p) | None => false end &&
                    match rlookup t (snd p) with Some a => bytes_eqb a (fst p) | None => false end) t.

(* "replaced by a substitute": a string of 8 bytes or more that comes out unchanged was not obfuscated (a permutation of
   256^8 strings fixes a given one with probability 256^-8; shorter strings may legitimately map to themselves) *)
Definition replaced_okb (t : list (bytes * bytes)) : bool :=
  forallb (fun p => Nat.ltb (length (fst p)) 8 || negb (bytes_eqb (fst p) (snd p))) t.

Definition enc_of (t : list (bytes * bytes)) (s : bytes) : bytes :=
  match lookup t s with Some b => b | None => s end.
