(* Obf/Feistel.v — the structure of cyrildever/feistel FPECipher.Encrypt (fpe.go), which the
   obfuscation processor calls for every string it obfuscates, over an ARBITRARY length-preserving
   round function F (the real one adds the key, hashes with SHA-256 and extracts hex digits; it is a
   deterministic function of the right half and the round index for the lifetime of the cipher).
   Bytes are numbers; the neutral element appended for odd lengths is 0; xor is N.lxor. *)
From Verif Require Import Base.ListX.

Section Feistel.
  Variable F : list N -> nat -> list N.
  Hypothesis F_len : forall x i, length (F x i) = length x.

  Fixpoint xorl (a b : list N) : list N :=
    match a, b with
    | x :: ta, y :: tb => N.lxor x y :: xorl ta tb
    | _, _ => []
    end.

  Lemma xorl_len a b : length a = length b -> length (xorl a b) = length a.
  Proof. revert b. induction a as [|x a IH]; intros [|y b] H; cbn in *; try discriminate; [reflexivity|]. f_equal. apply IH. lia. Qed.

  Lemma xorl_inv a b : length a = length b -> xorl (xorl a b) b = a.
  Proof.
    revert b. induction a as [|x a IH]; intros [|y b] H; cbn in *; try discriminate; [reflexivity|].
    rewrite N.lxor_assoc, N.lxor_nilpotent, N.lxor_0_r. f_equal. apply IH. lia.
  Qed.

  Lemma xorl_firstn a b n : firstn n (xorl a b) = xorl (firstn n a) (firstn n b).
  Proof.
    revert a b. induction n as [|n IH]; intros a b; [reflexivity|].
    destruct a as [|x a]; [reflexivity|]. destruct b as [|y b]; [reflexivity|].
    cbn [xorl firstn]. f_equal. apply IH.
  Qed.

  (* one round: parts = (left, right) -> (right, left xor F(right padded)) with pad/crop *)
  Definition pad (r : list N) (ll : nat) : list N := if (length r <? ll)%nat then r ++ [0] else r.

  Definition round (p : list N * list N) (i : nat) : list N * list N :=
    let '(l, r) := p in
    let rnd := F (pad r (length l)) i in
    if Nat.eqb (length l + 1) (length rnd)
    then (r, removelast (xorl (l ++ [0]) rnd))
    else (r, xorl l rnd).

  Fixpoint rounds (k i : nat) (p : list N * list N) : list N * list N :=
    match k with O => p | S k' => rounds k' (S i) (round p i) end.

  Definition split_half (s : list N) : list N * list N := (firstn (length s / 2) s, skipn (length s / 2) s).

  (* Encrypt: the empty string is returned as is *)
  Definition encrypt (nrounds : nat) (s : list N) : list N :=
    match s with
    | [] => []
    | _ => let '(l, r) := rounds nrounds 0 (split_half s) in l ++ r
    end.

  (* halves differ in length by at most one *)
  Definition Bal (p : list N * list N) : Prop :=
    let '(l, r) := p in length l = length r \/ S (length l) = length r \/ length l = S (length r).

  Lemma removelast_len {A} (l : list A) : length (removelast l) = Nat.pred (length l).
  Proof. induction l as [|a [|b l] IH]; cbn in *; try reflexivity. rewrite IH. reflexivity. Qed.

  Lemma removelast_firstn_len {A} (l : list A) : removelast l = firstn (Nat.pred (length l)) l.
  Proof. induction l as [|a [|b l] IH]; cbn in *; try reflexivity. f_equal. exact IH. Qed.

  Lemma pad_len r ll : length (pad r ll) = if (length r <? ll)%nat then S (length r) else length r.
  Proof. unfold pad. destruct (length r <? ll)%nat; [rewrite app_length; cbn; lia|reflexivity]. Qed.

  (* a round swaps the lengths *)
  Lemma round_len l r i : Bal (l, r) ->
    length (fst (round (l, r) i)) = length r /\ length (snd (round (l, r) i)) = length l.
  Proof.
    intros HB. unfold round. set (rnd := F (pad r (length l)) i).
    assert (Hrnd : length rnd = if (length r <? length l)%nat then S (length r) else length r)
      by (unfold rnd; rewrite F_len; apply pad_len).
    cbn in HB.
    destruct (length r <? length l)%nat eqn:E1; [apply Nat.ltb_lt in E1|apply Nat.ltb_ge in E1];
      (destruct (Nat.eqb (length l + 1) (length rnd)) eqn:E2; [apply Nat.eqb_eq in E2|apply Nat.eqb_neq in E2]);
      cbn [fst snd]; (split; [reflexivity|]).
    - rewrite removelast_len, xorl_len by (rewrite app_length; cbn; lia). rewrite app_length. cbn. lia.
    - apply xorl_len. lia.
    - rewrite removelast_len, xorl_len by (rewrite app_length; cbn; lia). rewrite app_length. cbn. lia.
    - apply xorl_len. lia.
  Qed.

  Lemma round_bal l r i : Bal (l, r) -> Bal (round (l, r) i).
  Proof.
    intros HB. destruct (round_len l r i HB) as [H1 H2]. destruct (round (l, r) i) as [l' r']. cbn [fst snd] in *.
    cbn in *. lia.
  Qed.

  (* the inverse of a round, given only its output *)
  Definition unround (p : list N * list N) (i : nat) : list N * list N :=
    let '(l', r') := p in
    let rnd := F (pad l' (length r')) i in
    (xorl r' (firstn (length r') rnd), l').

  Lemma unround_round l r i : Bal (l, r) -> unround (round (l, r) i) i = (l, r).
  Proof.
    intros HB. pose proof (round_len l r i HB) as [H1 H2].
    unfold unround. destruct (round (l, r) i) as [l' r'] eqn:E. cbn [fst snd] in *.
    unfold round in E. set (rnd := F (pad r (length l)) i) in *.
    assert (Hl' : l' = r) by (destruct (Nat.eqb (length l + 1) (length rnd)); injection E; auto).
    subst l'. rewrite H2. fold rnd. f_equal.
    assert (Hrnd : length rnd = if (length r <? length l)%nat then S (length r) else length r)
      by (unfold rnd; rewrite F_len; apply pad_len).
    destruct (Nat.eqb (length l + 1) (length rnd)) eqn:E2.
    - apply Nat.eqb_eq in E2. injection E as <-.
      rewrite removelast_firstn_len, xorl_len by (rewrite app_length; cbn; lia).
      rewrite app_length. cbn [length]. replace (Nat.pred (length l + 1)) with (length l) by lia.
      rewrite xorl_firstn, firstn_app, firstn_all, Nat.sub_diag. cbn [firstn]. rewrite app_nil_r.
      apply xorl_inv. rewrite firstn_length. lia.
    - apply Nat.eqb_neq in E2. injection E as <-.
      assert (Hlen : length l = length rnd).
      { destruct (length r <? length l)%nat eqn:E1; [apply Nat.ltb_lt in E1|apply Nat.ltb_ge in E1]; cbn in HB; lia. }
      rewrite Hlen, firstn_all. apply xorl_inv. exact Hlen.
  Qed.

  Lemma rounds_bal k : forall i p, Bal p -> Bal (rounds k i p).
  Proof. induction k as [|k IH]; intros i [l r] HB; cbn [rounds]; [exact HB|]. apply IH. apply round_bal. exact HB. Qed.

  Lemma rounds_inj k : forall i p q, Bal p -> Bal q -> rounds k i p = rounds k i q -> p = q.
  Proof.
    induction k as [|k IH]; intros i [l r] [l2 r2] HB1 HB2 H; cbn [rounds] in H; [exact H|].
    apply IH in H; [|apply round_bal; exact HB1|apply round_bal; exact HB2].
    rewrite <- (unround_round l r i HB1), <- (unround_round l2 r2 i HB2), H. reflexivity.
  Qed.

  Lemma rounds_len k : forall i l r, Bal (l, r) ->
    (length (fst (rounds k i (l, r))) + length (snd (rounds k i (l, r))) = length l + length r)%nat /\
    (length (fst (rounds k i (l, r))) = if Nat.even k then length l else length r).
  Proof.
    induction k as [|k IH]; intros i l r HB; cbn [rounds]; [cbn; lia|].
    pose proof (round_len l r i HB) as [H1 H2]. pose proof (round_bal l r i HB) as HB'.
    destruct (round (l, r) i) as [l' r'] eqn:E. cbn [fst snd] in *.
    destruct (IH (S i) l' r' HB') as [Ha Hb]. split; [lia|].
    rewrite Hb. rewrite Nat.even_succ. rewrite <- Nat.negb_even. destruct (Nat.even k); cbn; lia.
  Qed.

  Lemma split_half_bal s : Bal (split_half s).
  Proof.
    unfold split_half, Bal. rewrite firstn_length, skipn_length.
    pose proof (Nat.div_mod (length s) 2 ltac:(lia)). pose proof (Nat.mod_upper_bound (length s) 2 ltac:(lia)).
    lia.
  Qed.

  Lemma split_half_len1 s : length (fst (split_half s)) = (length s / 2)%nat.
  Proof.
    unfold split_half. cbn [fst]. rewrite firstn_length.
    pose proof (Nat.div_mod (length s) 2 ltac:(lia)). lia.
  Qed.

  Lemma split_half_app s : fst (split_half s) ++ snd (split_half s) = s.
  Proof. unfold split_half. cbn. apply firstn_skipn. Qed.

  (* format preserving: same length *)
  Lemma encrypt_length n s : length (encrypt n s) = length s.
  Proof.
    unfold encrypt. destruct s as [|a s]; [reflexivity|].
    set (s0 := a :: s). pose proof (split_half_bal s0) as HB.
    destruct (split_half s0) as [l r] eqn:Es.
    destruct (rounds_len n 0 l r HB) as [Hsum _].
    destruct (rounds n 0 (l, r)) as [l' r']. cbn [fst snd] in Hsum. rewrite app_length, Hsum.
    rewrite <- (split_half_app s0), Es, app_length. reflexivity.
  Qed.

  Lemma app_inj_len {A} (a b c d : list A) : a ++ b = c ++ d -> length a = length c -> a = c /\ b = d.
  Proof.
    revert c. induction a as [|x a IH]; intros [|y c] H Hl; cbn in *; try discriminate; [auto|].
    injection H as -> H. destruct (IH c H ltac:(lia)) as [-> ->]. auto.
  Qed.

  (* injective: different strings, different substitutes (for every number of rounds, every length) *)
  Lemma encrypt_injective n s1 s2 : encrypt n s1 = encrypt n s2 -> s1 = s2.
  Proof.
    intros H. assert (Hlen : length s1 = length s2) by (rewrite <- (encrypt_length n s1), <- (encrypt_length n s2), H; reflexivity).
    unfold encrypt in H.
    destruct s1 as [|a1 t1]; destruct s2 as [|a2 t2]; try discriminate; [reflexivity|].
    set (u := a1 :: t1) in *. set (v := a2 :: t2) in *.
    pose proof (split_half_bal u) as HBu. pose proof (split_half_bal v) as HBv.
    pose proof (split_half_app u) as Hu. pose proof (split_half_app v) as Hv.
    assert (Hll : length (fst (split_half u)) = length (fst (split_half v))) by (rewrite !split_half_len1, Hlen; reflexivity).
    destruct (split_half u) as [lu ru] eqn:Eu. destruct (split_half v) as [lv rv] eqn:Ev. cbn [fst snd] in *.
    assert (Hrr : length ru = length rv).
    { rewrite <- Hu, <- Hv, !app_length in Hlen. lia. }
    destruct (rounds_len n 0 lu ru HBu) as [_ Hfu]. destruct (rounds_len n 0 lv rv HBv) as [_ Hfv].
    destruct (rounds n 0 (lu, ru)) as [lu' ru'] eqn:Ru. destruct (rounds n 0 (lv, rv)) as [lv' rv'] eqn:Rv.
    cbn [fst snd] in *.
    apply app_inj_len in H; [|rewrite Hfu, Hfv; destruct (Nat.even n); assumption].
    destruct H as [-> ->]. rewrite <- Rv in Ru. apply rounds_inj in Ru; [|exact HBu|exact HBv].
    injection Ru as -> ->. rewrite <- Hu, <- Hv. reflexivity.
  Qed.
End Feistel.
