(* Otlp/Equiv.v — telemetry as trees, the documented normalisations, and the equivalence that the
   round-trip properties C01–C04 are stated with.
   A batch is rendered by the harness as the list of its flattened items (resource, scope, item), every
   unordered collection (the items themselves, events, links, data points, exemplars, map entries) listed
   in one canonical order on both sides, so that equivalence is equality of normal forms.
   The normalisations live HERE, not in the harness:
   - attributes with an empty key or an unset value are dropped (attribute maps of resources, scopes, spans,
     events, links, log records, data points, exemplars — not the entries of nested map values);
   - an empty byte string nested inside a list or map value is an unset value;
   - -0.0 equals 0.0 and all NaNs are one value. *)
From Verif Require Import Base.ListX Obf.Obfuscate.

Inductive tree :=
| TN (z : Z)                          (* numbers: counts, kinds, flags, timestamps *)
| TS (s : bytes)                      (* strings, ids *)
| TV (v : value)                      (* an AnyValue outside an attribute map: log body *)
| TD (bits : N)                       (* a double field (sum, min, max, value, bounds…) as IEEE-754 bits *)
| TO (o : option tree)                (* an optional field: presence is part of the data *)
| TA (m : list (bytes * value))       (* an attribute map *)
| TR (l : list tree).                 (* a record / a list *)

Definition is_nan (bits : N) : bool := ((bits / 2 ^ 52) mod 2048 =? 2047) && negb (bits mod 2 ^ 52 =? 0).
Definition norm_double (bits : N) : N :=
  if is_nan bits then 9221120237041090560 (* 0x7FF8000000000000 *)
  else if bits =? 9223372036854775808 (* -0.0 *) then 0 else bits.

Fixpoint norm_value (nested : bool) (v : value) : value :=
  match v with
  | VDouble b => VDouble (norm_double b)
  | VBytes [] => if nested then VEmpty else VBytes []
  | VList l => VList (map (norm_value true) l)
  | VMap m => VMap (map (fun kv => (fst kv, norm_value true (snd kv))) m)
  | other => other
  end.

Definition is_empty_value (v : value) : bool := match v with VEmpty => true | _ => false end.

Definition norm_attrs (m : list (bytes * value)) : list (bytes * value) :=
  map (fun kv => (fst kv, norm_value false (snd kv)))
      (filter (fun kv => negb (match fst kv with [] => true | _ => false end) && negb (is_empty_value (snd kv))) m).

Fixpoint norm_tree (t : tree) : tree :=
  match t with
  | TV v => TV (norm_value false v)
  | TD b => TD (norm_double b)
  | TO (Some x) => TO (Some (norm_tree x))
  | TA m => TA (norm_attrs m)
  | TR l => TR (map norm_tree l)
  | other => other
  end.

Fixpoint tree_eqb (a b : tree) : bool :=
  match a, b with
  | TN x, TN y => Z.eqb x y
  | TS x, TS y => bytes_eqb x y
  | TV x, TV y => value_eqb x y
  | TD x, TD y => N.eqb x y
  | TO None, TO None => true
  | TO (Some x), TO (Some y) => tree_eqb x y
  | TA x, TA y => value_eqb (VMap x) (VMap y)
  | TR x, TR y =>
      (fix go (l1 l2 : list tree) : bool :=
         match l1, l2 with [], [] => true | u :: t1, w :: t2 => tree_eqb u w && go t1 t2 | _, _ => false end) x y
  | _, _ => false
  end.

(* the round-trip predicate: same multiset of items after normalisation (both sides canonically ordered) *)
Definition equivb (input output : list tree) : bool := tree_eqb (norm_tree (TR input)) (norm_tree (TR output)).
Definition equiv (input output : list tree) : Prop := norm_tree (TR input) = norm_tree (TR output).

(* the boolean checkers decide equality (soundness: a pass of the harness verdict is a real equivalence) *)
Lemma value_eqb_eq : forall a b, value_eqb a b = true -> a = b.
Proof.
  fix IH 1. intros a b. destruct a as [|s|z|d|bo|by_|l|m]; destruct b as [|s2|z2|d2|bo2|by2|l2|m2]; cbn [value_eqb]; try discriminate; intros H.
  - reflexivity.
  - apply bytes_eqb_eq in H. congruence.
  - apply Z.eqb_eq in H. congruence.
  - apply N.eqb_eq in H. congruence.
  - apply Bool.eqb_prop in H. congruence.
  - apply bytes_eqb_eq in H. congruence.
  - f_equal. revert l2 H. induction l as [|u t1 IHl]; intros [|w t2] H; try discriminate; [reflexivity|].
    apply andb_true_iff in H. destruct H as [H1 H2]. f_equal; [apply IH; exact H1|apply IHl; exact H2].
  - f_equal. revert m2 H. induction m as [|[k1 u] t1 IHl]; intros [|[k2 w] t2] H; try discriminate; [reflexivity|].
    apply andb_true_iff in H. destruct H as [H1 H2]. apply andb_true_iff in H1. destruct H1 as [Hk Hv].
    apply bytes_eqb_eq in Hk. subst. f_equal; [f_equal; apply IH; exact Hv|apply IHl; exact H2].
Qed.

Lemma tree_eqb_eq : forall a b, tree_eqb a b = true -> a = b.
Proof.
  fix IH 1. intros a b.
  destruct a as [z|s|v|d|[x|]|m|l]; destruct b as [z2|s2|v2|d2|[y|]|m2|l2]; cbn [tree_eqb]; try discriminate; intros H.
  - apply Z.eqb_eq in H. congruence.
  - apply bytes_eqb_eq in H. congruence.
  - apply value_eqb_eq in H. congruence.
  - apply N.eqb_eq in H. congruence.
  - f_equal. f_equal. apply IH. exact H.
  - reflexivity.
  - apply value_eqb_eq in H. congruence.
  - f_equal. revert l2 H. induction l as [|u t1 IHl]; intros [|w t2] H; try discriminate; [reflexivity|].
    apply andb_true_iff in H. destruct H as [H1 H2]. f_equal; [apply IH; exact H1|apply IHl; exact H2].
Qed.

Theorem equivb_sound input output : equivb input output = true -> equiv input output.
Proof. unfold equivb, equiv. apply tree_eqb_eq. Qed.

(* ... and complete: whenever the normal forms are equal the checker says so — the predicate evaluated on the real
   input/output never rejects a round trip that satisfies the property *)
Lemma value_eqb_refl : forall a, value_eqb a a = true.
Proof.
  fix IH 1. intros a. destruct a as [|s|z|d|bo|by_|l|m]; cbn [value_eqb].
  - reflexivity.
  - apply bytes_eqb_eq. reflexivity.
  - apply Z.eqb_refl.
  - apply N.eqb_refl.
  - destruct bo; reflexivity.
  - apply bytes_eqb_eq. reflexivity.
  - induction l as [|u t1 IHl]; [reflexivity|]. rewrite (IH u), IHl. reflexivity.
  - induction m as [|[k u] t1 IHl]; [reflexivity|]. rewrite (IH u), IHl.
    assert (Hk : bytes_eqb k k = true) by (apply bytes_eqb_eq; reflexivity). rewrite Hk. reflexivity.
Qed.

Lemma tree_eqb_refl : forall a, tree_eqb a a = true.
Proof.
  fix IH 1. intros a. destruct a as [z|s|v|d|[x|]|m|l]; cbn [tree_eqb].
  - apply Z.eqb_refl.
  - apply bytes_eqb_eq. reflexivity.
  - apply value_eqb_refl.
  - apply N.eqb_refl.
  - apply IH.
  - reflexivity.
  - apply (value_eqb_refl (VMap m)).
  - induction l as [|u t1 IHl]; [reflexivity|]. rewrite (IH u), IHl. reflexivity.
Qed.

Theorem equivb_complete input output : equiv input output -> equivb input output = true.
Proof. unfold equivb, equiv. intros ->. apply tree_eqb_refl. Qed.

Theorem equivb_iff input output : equivb input output = true <-> equiv input output.
Proof. split; [apply equivb_sound|apply equivb_complete]. Qed.

(* the identity round trip is always accepted, and equivalence is an equivalence relation *)
Lemma equiv_refl x : equiv x x.
Proof. reflexivity. Qed.
Lemma equiv_sym x y : equiv x y -> equiv y x.
Proof. unfold equiv. congruence. Qed.
Lemma equiv_trans x y z : equiv x y -> equiv y z -> equiv x z.
Proof. unfold equiv. congruence. Qed.
