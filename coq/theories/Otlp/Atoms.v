(* Otlp/Atoms.v — the atom renderers of Otlp/Ids.v that are simple enough to be defined and proved here:
   strconv.FormatUint(_, 10), strconv.FormatInt(_, 10) and strconv.FormatBool.  For them the
   unique-decodability hypotheses of Ids.atoms_ok are theorems; what remains assumed is strconv.Quote,
   strconv.FormatFloat(_, 'E', -1, 64) and hex.EncodeToString.  The harness compares these definitions with
   the real functions on every atom it meets (id_mismatch: the model renders the numbers itself). *)
From Verif Require Import Base.ListX Otlp.Ids.
From Coq Require Import ZArith.
Local Open Scope N_scope.

Definition isdigit (c : N) : bool := (48 <=? c) && (c <=? 57).

(* little-endian decimal digits; the fuel (number of bits + 1) always suffices *)
Fixpoint digits_le (fuel : nat) (n : N) : list N :=
  match fuel with
  | O => []
  | S f => (48 + n mod 10) :: (if n / 10 =? 0 then [] else digits_le f (n / 10))
  end.
Definition fmt_uint (n : N) : list N := rev (digits_le (S (N.size_nat n)) n).
Definition fmt_int (z : Z) : list N :=
  if (z <? 0)%Z then 45 :: fmt_uint (Z.to_N (- z)) else fmt_uint (Z.to_N z).
Definition fmt_bool (b : bool) : list N := if b then [116; 114; 117; 101] else [102; 97; 108; 115; 101].

Definition val_le (l : list N) : N := fold_right (fun c a => (c - 48) + 10 * a) 0 l.

Lemma digits_le_digits : forall f n, Forall (fun c => isdigit c = true) (digits_le f n).
Proof.
  induction f as [|f IH]; intros n; cbn [digits_le]; constructor.
  - unfold isdigit. pose proof (N.mod_upper_bound n 10 ltac:(lia)). apply andb_true_iff. split; apply N.leb_le; lia.
  - destruct (n / 10 =? 0); [constructor|apply IH].
Qed.

Lemma digits_le_S f n : digits_le (S f) n = (48 + n mod 10) :: (if n / 10 =? 0 then [] else digits_le f (n / 10)).
Proof. reflexivity. Qed.
Lemma val_le_cons c l : val_le (c :: l) = (c - 48) + 10 * val_le l.
Proof. reflexivity. Qed.

Lemma digits_le_val : forall f n, n < 2 ^ N.of_nat f -> val_le (digits_le (S f) n) = n.
Proof.
  induction f as [|f IH]; intros n Hn.
  - cbn in Hn. assert (n = 0) by lia. subst. reflexivity.
  - rewrite digits_le_S, val_le_cons. pose proof (N.div_mod n 10 ltac:(lia)) as Hdm.
    destruct (n / 10 =? 0) eqn:E.
    + apply N.eqb_eq in E. change (val_le []) with 0. lia.
    + rewrite IH; [lia|].
      rewrite Nat2N.inj_succ, N.pow_succ_r' in Hn.
      assert (n / 10 <= n / 2) by (apply N.div_le_compat_l; lia).
      assert (n / 2 < 2 ^ N.of_nat f) by (apply N.div_lt_upper_bound; lia). lia.
Qed.

Lemma size_nat_bound n : n < 2 ^ N.of_nat (N.size_nat n).
Proof.
  destruct n as [|p]; [cbn; lia|]. cbn [N.size_nat].
  induction p as [p IH|p IH|]; cbn [Pos.size_nat]; rewrite ?Nat2N.inj_succ, ?N.pow_succ_r'; try lia.
Qed.

Lemma fmt_uint_val n : val_le (rev (fmt_uint n)) = n.
Proof. unfold fmt_uint. rewrite rev_involutive. apply digits_le_val. apply size_nat_bound. Qed.

Lemma fmt_uint_inj a b : fmt_uint a = fmt_uint b -> a = b.
Proof. intros H. rewrite <- (fmt_uint_val a), <- (fmt_uint_val b), H. reflexivity. Qed.

Lemma fmt_uint_digits n : Forall (fun c => isdigit c = true) (fmt_uint n).
Proof. unfold fmt_uint. apply Forall_rev. apply digits_le_digits. Qed.

Lemma fmt_uint_nonempty n : fmt_uint n <> [].
Proof. unfold fmt_uint. cbn [digits_le]. intros H. apply (f_equal (@length N)) in H. rewrite rev_length in H. cbn in H. lia. Qed.

(* the longest prefix of digits *)
Fixpoint span_digits (l : list N) : list N * list N :=
  match l with
  | [] => ([], [])
  | c :: tl => if isdigit c then let '(a, b) := span_digits tl in (c :: a, b) else ([], l)
  end.

Lemma term_not_digit r : T r -> match r with [] => True | c :: _ => isdigit c = false end.
Proof.
  destruct r as [|c tl]; [trivial|]. cbn [T]. unfold term, isdigit. intros [-> | [-> | [-> | ->]]]; reflexivity.
Qed.

Lemma span_digits_app l r : Forall (fun c => isdigit c = true) l -> T r -> span_digits (l ++ r) = (l, r).
Proof.
  intros Hl HT. induction l as [|c tl IH]; cbn [app span_digits].
  - pose proof (term_not_digit r HT) as Hr. destruct r as [|c tl]; [reflexivity|]. cbn [span_digits]. rewrite Hr. reflexivity.
  - inversion Hl as [|? ? Hc Htl]; subst. rewrite Hc, (IH Htl). reflexivity.
Qed.

Theorem UD_fmt_uint : forall a b r r', T r -> T r' -> fmt_uint a ++ r = fmt_uint b ++ r' -> a = b /\ r = r'.
Proof.
  intros a b r r' HT HT' H.
  pose proof (span_digits_app _ r (fmt_uint_digits a) HT) as H1.
  pose proof (span_digits_app _ r' (fmt_uint_digits b) HT') as H2.
  rewrite H in H1. rewrite H1 in H2. injection H2 as Hab Hr. split; [apply fmt_uint_inj; exact Hab|exact Hr].
Qed.

Lemma fmt_uint_head n : exists c t, fmt_uint n = c :: t /\ isdigit c = true.
Proof.
  pose proof (fmt_uint_digits n) as Hd. pose proof (fmt_uint_nonempty n) as Hn.
  destruct (fmt_uint n) as [|c t]; [congruence|]. inversion Hd; subst. exists c, t. split; [reflexivity|assumption].
Qed.

Theorem UD_fmt_int : forall a b r r', T r -> T r' -> fmt_int a ++ r = fmt_int b ++ r' -> a = b /\ r = r'.
Proof.
  intros a b r r' HT HT' H. unfold fmt_int in H.
  destruct (a <? 0)%Z eqn:Ea, (b <? 0)%Z eqn:Eb.
  - cbn [app] in H. injection H as H. apply UD_fmt_uint in H; try assumption. destruct H as [H ->].
    apply Z.ltb_lt in Ea, Eb. split; [lia|reflexivity].
  - exfalso. cbn [app] in H. destruct (fmt_uint_head (Z.to_N b)) as (c & t & Hc & Hd). rewrite Hc in H. cbn [app] in H.
    injection H as H _. subst c. discriminate.
  - exfalso. cbn [app] in H. destruct (fmt_uint_head (Z.to_N a)) as (c & t & Hc & Hd). rewrite Hc in H. cbn [app] in H.
    injection H as H _. subst c. discriminate.
  - apply UD_fmt_uint in H; try assumption. destruct H as [H ->].
    apply Z.ltb_ge in Ea, Eb. split; [lia|reflexivity].
Qed.

Theorem UD_fmt_bool : forall a b r r', T r -> T r' -> fmt_bool a ++ r = fmt_bool b ++ r' -> a = b /\ r = r'.
Proof.
  intros a b r r' _ _ H. destruct a, b; cbn in H; try discriminate.
  - injection H as ->. split; reflexivity.
  - injection H as ->. split; reflexivity.
Qed.

(* Ids.atoms_ok with only the renderers that are not defined here left as assumptions *)
Theorem atoms_ok_reduced D q fd fx :
  (forall a b r r', q a ++ r = q b ++ r' -> a = b /\ r = r') ->
  (forall a, exists t, q a = 34 :: t) ->
  (forall (a b : D) r r', T r -> T r' -> fd a ++ r = fd b ++ r' -> a = b /\ r = r') ->
  (forall a b r r', T r -> T r' -> fx a ++ r = fx b ++ r' -> a = b /\ r = r') ->
  atoms_ok D q fmt_int fd fmt_bool fx fmt_uint.
Proof.
  intros Hq Hh Hd Hx. unfold atoms_ok.
  split; [exact Hq|]. split; [exact Hh|]. split; [exact UD_fmt_int|]. split; [exact Hd|].
  split; [exact UD_fmt_bool|]. split; [exact Hx|exact UD_fmt_uint].
Qed.

Example fmt_examples :
  fmt_uint 0 = [48] /\ fmt_uint 65535 = [54; 53; 53; 51; 53] /\ fmt_int (-12)%Z = [45; 49; 50] /\
  fmt_int 9223372036854775807%Z = [57;50;50;51;51;55;50;48;51;54;56;53;52;55;55;53;56;48;55].
Proof. vm_compute. repeat split; reflexivity. Qed.
