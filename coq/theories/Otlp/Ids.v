(* Otlp/Ids.v — ResourceID / ScopeID / AttributesId / ValueID of pkg/otel/common/otlp/ids.go.

   The encoder groups spans / log records / metrics by these identifier strings: two resources (scopes)
   with the same identifier are merged into one.  The round-trip properties (C01-C03) therefore need the
   identifiers to be injective: equal identifiers only for equal content.  (Before the `fix:` commit they
   were not: no type tags, no quoting — the string "1" and the integer 1, or a string containing the
   delimiters, collided.)

   Strings are lists of byte codes.  The atom renderers of strconv / encoding/hex are parameters; what is
   assumed about them is unique decodability in context (hypotheses UD_*, the trusted part):
     - strconv.Quote output is self-delimiting whatever follows (a Go string literal ends at its first
       unescaped quote) and starts with a double quote;
     - FormatInt / FormatUint / FormatFloat('E') / FormatBool / hex.EncodeToString outputs are uniquely
       decodable when followed by one of  , ] } |  or the end of the string (their alphabets do not contain
       those characters).
   Proved from that: ValueID is uniquely decodable in every such context for arbitrarily nested values, and
   AttributesId, ResourceID and ScopeID are injective. *)
From Verif Require Import Base.ListX.
Local Open Scope N_scope.

Section Ids.
  Variable D : Type.                       (* float64 values as FormatFloat distinguishes them *)
  Variables (q : list N -> list N)         (* strconv.Quote *)
            (fi : Z -> list N)             (* strconv.FormatInt(_, 10) *)
            (fd : D -> list N)             (* strconv.FormatFloat(_, 'E', -1, 64) *)
            (fb : bool -> list N)          (* strconv.FormatBool *)
            (fx : list N -> list N)        (* hex.EncodeToString *)
            (fu : N -> list N).            (* strconv.FormatUint(_, 10) *)

  (* , ] } | *)
  Definition term (c : N) : Prop := c = 44 \/ c = 93 \/ c = 125 \/ c = 124.
  Definition T (r : list N) : Prop := match r with [] => True | c :: _ => term c end.

  Hypothesis UD_q : forall a b r r', q a ++ r = q b ++ r' -> a = b /\ r = r'.
  Hypothesis q_head : forall a, exists t, q a = 34 :: t.
  Hypothesis UD_i : forall a b r r', T r -> T r' -> fi a ++ r = fi b ++ r' -> a = b /\ r = r'.
  Hypothesis UD_d : forall a b r r', T r -> T r' -> fd a ++ r = fd b ++ r' -> a = b /\ r = r'.
  Hypothesis UD_b : forall a b r r', T r -> T r' -> fb a ++ r = fb b ++ r' -> a = b /\ r = r'.
  Hypothesis UD_x : forall a b r r', T r -> T r' -> fx a ++ r = fx b ++ r' -> a = b /\ r = r'.
  Hypothesis UD_u : forall a b r r', T r -> T r' -> fu a ++ r = fu b ++ r' -> a = b /\ r = r'.

  Inductive val :=
  | IStr (s : list N) | IInt (z : Z) | IDouble (f : D) | IBool (b : bool) | IBytes (x : list N) | IEmpty
  | ISlice (l : list val) | IMap (m : list (list N * val)).

  (* ValueID; AttributesId is the IMap case (ValueID calls it for maps) *)
  Fixpoint ev (v : val) : list N :=
    match v with
    | IStr s => 115 :: q s
    | IInt z => 105 :: fi z
    | IDouble f => 100 :: fd f
    | IBool b => 98 :: fb b
    | IBytes x => 120 :: fx x
    | IEmpty => [101]
    | ISlice l =>
        91 :: (fix items (l : list val) : list N :=
                 match l with
                 | [] => []
                 | v :: tl => ev v ++ match tl with [] => [] | _ => 44 :: items tl end
                 end) l ++ [93]
    | IMap m =>
        123 :: (fix entries (m : list (list N * val)) : list N :=
                  match m with
                  | [] => []
                  | (k, v) :: tl => q k ++ 58 :: ev v ++ match tl with [] => [] | _ => 44 :: entries tl end
                  end) m ++ [125]
    end.

  Fixpoint items (l : list val) : list N :=
    match l with
    | [] => []
    | v :: tl => ev v ++ match tl with [] => [] | _ => 44 :: items tl end
    end.
  Fixpoint entries (m : list (list N * val)) : list N :=
    match m with
    | [] => []
    | (k, v) :: tl => q k ++ 58 :: ev v ++ match tl with [] => [] | _ => 44 :: entries tl end
    end.

  Lemma ev_slice l : ev (ISlice l) = 91 :: items l ++ [93].
  Proof. reflexivity. Qed.
  Lemma ev_map m : ev (IMap m) = 123 :: entries m ++ [125].
  Proof. reflexivity. Qed.

  (* nested induction principle *)
  Section ValInd.
    Variable P : val -> Prop.
    Hypotheses (Hs : forall s, P (IStr s)) (Hi : forall z, P (IInt z)) (Hd : forall f, P (IDouble f)) (Hb : forall b, P (IBool b))
               (Hx : forall x, P (IBytes x)) (He : P IEmpty)
               (Hl : forall l, Forall P l -> P (ISlice l)) (Hm : forall m, Forall (fun kv => P (snd kv)) m -> P (IMap m)).
    Fixpoint val_ind' (v : val) : P v :=
      match v with
      | IStr s => Hs s | IInt z => Hi z | IDouble f => Hd f | IBool b => Hb b | IBytes x => Hx x | IEmpty => He
      | ISlice l => Hl l ((fix go (l : list val) : Forall P l := match l with [] => Forall_nil _ | v :: tl => Forall_cons _ (val_ind' v) (go tl) end) l)
      | IMap m => Hm m ((fix go (m : list (list N * val)) : Forall (fun kv => P (snd kv)) m :=
                           match m with [] => Forall_nil _ | kv :: tl => Forall_cons _ (val_ind' (snd kv)) (go tl) end) m)
      end.
  End ValInd.

  (* the first character of a value identifier is one of s i d b x e [ { — never a terminator, quote or colon *)
  Definition tagc (c : N) : Prop := c = 115 \/ c = 105 \/ c = 100 \/ c = 98 \/ c = 120 \/ c = 101 \/ c = 91 \/ c = 123.
  Lemma ev_head v : exists c t, ev v = c :: t /\ tagc c.
  Proof.
    destruct v; eexists _, _; (split; [reflexivity|unfold tagc; auto 10]).
  Qed.

  Definition UD (v : val) : Prop :=
    forall v' r r', T r -> T r' -> ev v ++ r = ev v' ++ r' -> v = v' /\ r = r'.

  Ltac heads H := cbn [ev app] in H; try rewrite ev_slice in H; try rewrite ev_map in H; cbn [app] in H;
                  try (injection H; intros; lia); try discriminate.

  Lemma tag_not_term c : tagc c -> ~ term c.
  Proof. unfold tagc, term. intros H1 H2. lia. Qed.

  Lemma items_UD l : Forall UD l -> forall l' r r',
    items l ++ 93 :: r = items l' ++ 93 :: r' -> l = l' /\ r = r'.
  Proof.
    induction l as [|v tl IH]; intros HF l' r r' H.
    - destruct l' as [|v' tl']; cbn [items app] in H.
      + injection H as ->. split; reflexivity.
      + exfalso. destruct (ev_head v') as (c & t & Hc & Htag). rewrite Hc in H. cbn [app] in H. injection H as H _.
        unfold tagc in Htag. lia.
    - inversion HF as [|? ? Hv Htl]; subst. destruct l' as [|v' tl'].
      + exfalso. cbn [items app] in H. destruct (ev_head v) as (c & t & Hc & Htag). rewrite Hc in H. cbn [app] in H. injection H as H _.
        unfold tagc in Htag. lia.
      + cbn [items] in H. rewrite <- !app_assoc in H.
        assert (HT : forall (tl0 : list val) r0, T (match tl0 with [] => [] | _ :: _ => 44 :: items tl0 end ++ 93 :: r0)).
        { intros tl0 r0. destruct tl0; cbn; unfold term; auto. }
        destruct (Hv v' _ _ (HT tl r) (HT tl' r') H) as [<- Hrest].
        destruct tl as [|a tl0], tl' as [|b tl0']; cbn [app] in Hrest.
        * injection Hrest as ->. split; reflexivity.
        * discriminate.
        * discriminate.
        * injection Hrest as Hrest. destruct (IH Htl (b :: tl0') r r' Hrest) as [-> ->]. split; reflexivity.
  Qed.

  Lemma entries_UD m : Forall (fun kv => UD (snd kv)) m -> forall m' r r',
    entries m ++ 125 :: r = entries m' ++ 125 :: r' -> m = m' /\ r = r'.
  Proof.
    induction m as [|[k v] tl IH]; intros HF m' r r' H.
    - destruct m' as [|[k' v'] tl']; cbn [entries app] in H.
      + injection H as ->. split; reflexivity.
      + exfalso. destruct (q_head k') as (t & Hq). rewrite Hq in H. cbn [app] in H. discriminate.
    - inversion HF as [|? ? Hv Htl]; subst. cbn [snd] in Hv. destruct m' as [|[k' v'] tl'].
      + exfalso. cbn [entries app] in H. destruct (q_head k) as (t & Hq). rewrite Hq in H. cbn [app] in H. discriminate.
      + cbn [entries] in H. rewrite <- !app_assoc in H. apply UD_q in H. destruct H as [<- H].
        cbn [app] in H. injection H as H. rewrite <- !app_assoc in H.
        assert (HT : forall (tl0 : list (list N * val)) r0, T (match tl0 with [] => [] | _ :: _ => 44 :: entries tl0 end ++ 125 :: r0)).
        { intros tl0 r0. destruct tl0; cbn; unfold term; auto. }
        destruct (Hv v' _ _ (HT tl r) (HT tl' r') H) as [<- Hrest].
        destruct tl as [|a tl0], tl' as [|b tl0']; cbn [app] in Hrest.
        * injection Hrest as ->. split; reflexivity.
        * discriminate.
        * discriminate.
        * injection Hrest as Hrest. destruct (IH Htl (b :: tl0') r r' Hrest) as [-> ->]. split; reflexivity.
  Qed.

  (* ValueID is uniquely decodable in context, for every (arbitrarily nested) value *)
  Theorem value_id_UD : forall v, UD v.
  Proof.
    induction v as [s|z|f|b|x| |l IHl|m IHm] using val_ind'; intros v' r r' HT HT' Heq.
    - destruct v'; heads Heq. injection Heq as Heq. apply UD_q in Heq. destruct Heq as [-> ->]. split; reflexivity.
    - destruct v'; heads Heq. injection Heq as Heq. apply UD_i in Heq; try assumption. destruct Heq as [-> ->]. split; reflexivity.
    - destruct v'; heads Heq. injection Heq as Heq. apply UD_d in Heq; try assumption. destruct Heq as [-> ->]. split; reflexivity.
    - destruct v'; heads Heq. injection Heq as Heq. apply UD_b in Heq; try assumption. destruct Heq as [-> ->]. split; reflexivity.
    - destruct v'; heads Heq. injection Heq as Heq. apply UD_x in Heq; try assumption. destruct Heq as [-> ->]. split; reflexivity.
    - destruct v'; heads Heq. injection Heq as ->. split; reflexivity.
    - rewrite ev_slice in Heq. destruct v'; try rewrite ev_slice in Heq; try rewrite ev_map in Heq; cbn [ev app] in Heq; try (injection Heq; intros; lia); try discriminate.
      injection Heq as Heq. rewrite <- !app_assoc in Heq. cbn [app] in Heq.
      destruct (items_UD l IHl _ _ _ Heq) as [-> ->]. split; reflexivity.
    - rewrite ev_map in Heq. destruct v'; try rewrite ev_slice in Heq; try rewrite ev_map in Heq; cbn [ev app] in Heq; try (injection Heq; intros; lia); try discriminate.
      injection Heq as Heq. rewrite <- !app_assoc in Heq. cbn [app] in Heq.
      destruct (entries_UD m IHm _ _ _ Heq) as [-> ->]. split; reflexivity.
  Qed.

  (* AttributesId(attrs) = ValueID of the map of the (stably sorted) entries; [canon] is that sorting *)
  Variable canon : list (list N * val) -> list (list N * val).
  Definition attrs_id (m : list (list N * val)) : list N := ev (IMap (canon m)).

  Lemma attrs_id_UD m m' r r' : T r -> T r' -> attrs_id m ++ r = attrs_id m' ++ r' -> canon m = canon m' /\ r = r'.
  Proof.
    intros HT HT' H. unfold attrs_id in H. destruct (value_id_UD _ _ _ _ HT HT' H) as [Hv Hr].
    injection Hv as Hv. split; assumption.
  Qed.

  (* ResourceID = AttributesId | dropped | schemaUrl *)
  Definition resource_id (attrs : list (list N * val)) (dropped : N) (url : list N) : list N :=
    attrs_id attrs ++ 124 :: fu dropped ++ 124 :: url.

  Lemma cons_inv (c : N) (a b : list N) : c :: a = c :: b -> a = b.
  Proof. intros H. injection H as H. exact H. Qed.
  Lemma T124 r : T (124 :: r).
  Proof. cbn. unfold term. auto. Qed.

  Theorem resource_id_injective a d u a' d' u' :
    resource_id a d u = resource_id a' d' u' -> canon a = canon a' /\ d = d' /\ u = u'.
  Proof.
    unfold resource_id. intros H.
    apply attrs_id_UD in H; [|apply T124|apply T124]. destruct H as [Ha H].
    apply cons_inv in H. apply UD_u in H; [|apply T124|apply T124]. destruct H as [Hd H].
    apply cons_inv in H. repeat split; assumption.
  Qed.

  (* ScopeID = name:"…"|version:"…"|AttributesId|dropped|schemaUrl *)
  Definition lit_name : list N := [110; 97; 109; 101; 58].                               (* name: *)
  Definition lit_version : list N := [124; 118; 101; 114; 115; 105; 111; 110; 58].       (* |version: *)
  Definition scope_id (name ver : list N) (attrs : list (list N * val)) (dropped : N) (url : list N) : list N :=
    lit_name ++ q name ++ lit_version ++ q ver ++ 124 :: attrs_id attrs ++ 124 :: fu dropped ++ 124 :: url.

  Theorem scope_id_injective n v a d u n' v' a' d' u' :
    scope_id n v a d u = scope_id n' v' a' d' u' -> n = n' /\ v = v' /\ canon a = canon a' /\ d = d' /\ u = u'.
  Proof.
    unfold scope_id. intros H.
    apply app_inv_head in H. apply UD_q in H. destruct H as [Hn H].
    apply app_inv_head in H. apply UD_q in H. destruct H as [Hv H].
    apply cons_inv in H.
    apply attrs_id_UD in H; [|apply T124|apply T124]. destruct H as [Ha H].
    apply cons_inv in H. apply UD_u in H; [|apply T124|apply T124]. destruct H as [Hd H].
    apply cons_inv in H. repeat split; assumption.
  Qed.
End Ids.
Arguments IStr {D}. Arguments IInt {D}. Arguments IDouble {D}. Arguments IBool {D}. Arguments IBytes {D}. Arguments IEmpty {D}.
Arguments ISlice {D}. Arguments IMap {D}.

(* the assumptions about the atom renderers, bundled *)
Definition atoms_ok (D : Type) (q : list N -> list N) (fi : Z -> list N) (fd : D -> list N) (fb : bool -> list N)
                    (fx : list N -> list N) (fu : N -> list N) : Prop :=
  (forall a b r r', q a ++ r = q b ++ r' -> a = b /\ r = r') /\
  (forall a, exists t, q a = 34%N :: t) /\
  (forall a b r r', T r -> T r' -> fi a ++ r = fi b ++ r' -> a = b /\ r = r') /\
  (forall a b r r', T r -> T r' -> fd a ++ r = fd b ++ r' -> a = b /\ r = r') /\
  (forall a b r r', T r -> T r' -> fb a ++ r = fb b ++ r' -> a = b /\ r = r') /\
  (forall a b r r', T r -> T r' -> fx a ++ r = fx b ++ r' -> a = b /\ r = r') /\
  (forall a b r r', T r -> T r' -> fu a ++ r = fu b ++ r' -> a = b /\ r = r').

Theorem ids_injective D q fi fd fb fx fu canon :
  atoms_ok D q fi fd fb fx fu ->
  (forall a d u a' d' u', resource_id D q fi fd fb fx fu canon a d u = resource_id D q fi fd fb fx fu canon a' d' u' ->
     canon a = canon a' /\ d = d' /\ u = u') /\
  (forall n v a d u n' v' a' d' u', scope_id D q fi fd fb fx fu canon n v a d u = scope_id D q fi fd fb fx fu canon n' v' a' d' u' ->
     n = n' /\ v = v' /\ canon a = canon a' /\ d = d' /\ u = u') /\
  (forall v v' r r', T r -> T r' -> ev D q fi fd fb fx v ++ r = ev D q fi fd fb fx v' ++ r' -> v = v' /\ r = r').
Proof.
  intros (H1 & H2 & H3 & H4 & H5 & H6 & H7). split; [|split].
  - intros a d u a' d' u'. apply resource_id_injective; assumption.
  - intros n v a d u n' v' a' d' u'. apply scope_id_injective; assumption.
  - intros v. eapply (value_id_UD D q fi fd fb fx fu); eassumption.
Qed.

(* what an identifier looks like (toy renderers: quote = "..." around the raw bytes, numbers as one digit) *)
Example resource_id_example :
  let q := fun s : list N => 34 :: s ++ [34] in
  let dig := fun n : N => [48 + n] in
  resource_id N q (fun z => dig (Z.to_N z)) dig (fun b : bool => if b then [116] else [102]) (fun x => x) dig (fun m => m)
    [([107], IStr [118]); ([110], ISlice [IInt 1%Z; IEmpty])] 0 [117]
  = [123; 34;107;34; 58; 115;34;118;34; 44; 34;110;34; 58; 91; 105;49; 44; 101; 93; 125; 124; 48; 124; 117].
Proof. vm_compute. reflexivity. Qed.

(* The identifiers before the fix (no tags, no quoting; values rendered raw) were not injective: the
   string "1" and the integer 1 give the same ValueID, and an attribute value containing the delimiters
   imitates two attributes. *)
Definition legacy_value_id (is_str : bool) (digits : list N) : list N := digits.
Example legacy_value_id_not_injective : legacy_value_id true [49] = legacy_value_id false [49] /\ true <> false.
Proof. split; [reflexivity|discriminate]. Qed.
