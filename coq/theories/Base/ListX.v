(* Base/ListX.v — small list / N helpers shared by all models. Stdlib only. *)
From Coq Require Export List NArith ZArith Bool Lia Permutation.
From Coq Require Import ZifyBool ZifyN ZifyNat.
Export ListNotations.
Open Scope N_scope.

Ltac Zify.zify_post_hook ::= Z.div_mod_to_equations.

Definition sumN (l : list N) : N := fold_right N.add 0 l.

Lemma sumN_app l1 l2 : sumN (l1 ++ l2) = sumN l1 + sumN l2.
Proof. unfold sumN. induction l1 as [|a l1 IH]; cbn [fold_right app]; [reflexivity|rewrite IH; lia]. Qed.

Lemma sumN_cons a l : sumN (a :: l) = a + sumN l.
Proof. reflexivity. Qed.

Definition lenN {A} (l : list A) : N := N.of_nat (length l).

Lemma lenN_app {A} (l1 l2 : list A) : lenN (l1 ++ l2) = lenN l1 + lenN l2.
Proof. unfold lenN. rewrite app_length. lia. Qed.

Lemma lenN_cons {A} (a : A) l : lenN (a :: l) = 1 + lenN l.
Proof. unfold lenN. cbn [length]. lia. Qed.

Lemma lenN_nil {A} : lenN (@nil A) = 0.
Proof. reflexivity. Qed.

(* first occurrences, in order (Go: a map used as a "seen" set while appending) *)
Fixpoint uniq_aux (seen : list N) (l : list N) : list N :=
  match l with
  | [] => []
  | x :: tl => if existsb (N.eqb x) seen then uniq_aux seen tl else x :: uniq_aux (x :: seen) tl
  end.
Definition uniq (l : list N) : list N := uniq_aux [] l.

Lemma existsb_eqb_In x l : existsb (N.eqb x) l = true <-> In x l.
Proof.
  rewrite existsb_exists. split.
  - intros [y [Hy He]]. apply N.eqb_eq in He. subst. exact Hy.
  - intros H. exists x. split; [exact H|apply N.eqb_refl].
Qed.

Lemma uniq_aux_In seen l x : In x (uniq_aux seen l) <-> (In x l /\ ~ In x seen).
Proof.
  revert seen. induction l as [|a l IH]; intros seen; cbn [uniq_aux].
  - cbn. tauto.
  - destruct (existsb (N.eqb a) seen) eqn:E.
    + apply existsb_eqb_In in E. rewrite IH. cbn [In]. split.
      * intros [H1 H2]. tauto.
      * intros [[H1|H1] H2]; [subst; tauto|tauto].
    + assert (Hn : ~ In a seen) by (intro H; apply existsb_eqb_In in H; congruence).
      cbn [In]. rewrite IH. cbn [In]. split.
      * intros [H|[H1 H2]]; [subst; tauto|]. split; [tauto|]. intro; apply H2; tauto.
      * intros [[H|H] H2]; [tauto|]. destruct (N.eq_dec a x); [tauto|]. right. split; [exact H|]. intros [H3|H3]; tauto.
Qed.

Lemma uniq_aux_NoDup seen l : NoDup (uniq_aux seen l).
Proof.
  revert seen. induction l as [|a l IH]; intros seen; cbn [uniq_aux]; [constructor|].
  destruct (existsb (N.eqb a) seen); [apply IH|].
  constructor; [|apply IH]. rewrite uniq_aux_In. cbn [In]. tauto.
Qed.

Lemma uniq_In l x : In x (uniq l) <-> In x l.
Proof. unfold uniq. rewrite uniq_aux_In. cbn. tauto. Qed.

Lemma uniq_NoDup l : NoDup (uniq l).
Proof. apply uniq_aux_NoDup. Qed.

Lemma NoDup_snoc {A} (l : list A) (k : A) : NoDup l -> ~ In k l -> NoDup (l ++ [k]).
Proof.
  induction l as [|a l IH]; intros Hnd Hn; cbn [app]; [constructor; [intros []|constructor]|].
  inversion Hnd as [|? ? Ha Hl]; subst. constructor.
  - intros Hin. apply in_app_or in Hin. destruct Hin as [Hin|[<-|[]]]; [exact (Ha Hin)|]. apply Hn. left. reflexivity.
  - apply IH; [exact Hl|]. intros Hin. apply Hn. right. exact Hin.
Qed.

(* decidable list equality helpers for the case files *)
Fixpoint list_eqb {A} (eqb : A -> A -> bool) (l1 l2 : list A) : bool :=
  match l1, l2 with
  | [], [] => true
  | a :: t1, b :: t2 => eqb a b && list_eqb eqb t1 t2
  | _, _ => false
  end.

Lemma list_eqb_eq {A} (eqb : A -> A -> bool) (H : forall a b, eqb a b = true <-> a = b) l1 l2 :
  list_eqb eqb l1 l2 = true <-> l1 = l2.
Proof.
  revert l2. induction l1 as [|a t1 IH]; intros [|b t2]; cbn [list_eqb]; try (split; congruence).
  rewrite andb_true_iff, H, IH. split; [intros [-> ->]; reflexivity|intros E; injection E; auto].
Qed.

(* indices of the cases on which a boolean check fails *)
Fixpoint failing_aux {A} (chk : A -> bool) (i : N) (l : list A) : list N :=
  match l with
  | [] => []
  | c :: tl => if chk c then failing_aux chk (i + 1) tl else i :: failing_aux chk (i + 1) tl
  end.
Definition failing {A} (chk : A -> bool) (l : list A) : list N := failing_aux chk 0 l.
