"""Per-property plan: which harness runs feed which Coq case files, budgets per tier."""

TRUSTED_BASE = [
    "Coq 8.16.1 kernel (coqc); vm_compute for evaluating the model on the case files; no native_compute",
    "no Axiom/Parameter/Admitted in the development; axioms per theorem as printed by Print Assumptions (see print_assumptions)",
    "the Go correspondence harness (generators, observers, canonicalisation, interning of identities) and bin/check",
    "the verif-tagged hooks in /repo (event log, thin wrappers) record what the code did and do not change it",
]


def q(tier, quick, thorough):
    return thorough if tier == "thorough" else quick


def bp_sys(focus, nq, nt):
    return dict(harness="bp", name="sys", replayable=True,
                args=lambda tier, seed, casedir, coq: ["sys", "--focus", focus, "--n", str(q(tier, nq, nt)), "--seed", str(seed)],
                timeout=3000, coq_timeout=3000)


BP_TB = [
    "modelled, not verified: Go channels / select / mutex / x/sync semaphore / time.Timer semantics (atomic events of the model), pdata MoveTo/CopyTo/RemoveIf/MoveAndAppendTo",
    "totalSent is uint64 in the code, unbounded N in the model (no shard sends 2^64 items)",
]

PROPS = {
    "C18": dict(
        runs=[
            dict(harness="bp", name="ctx",
                 args=lambda tier, seed, casedir, coq: ["ctx", "--maxlen", str(q(tier, 6, 8))]),
            bp_sys("C18", 120, 1200),
        ],
        rule="ctx: every contributor pattern of length 1..6 (thorough 8) over 3 contexts through the real allSameContext/parentSpans "
             "(exhaustive; non-trivial = more than one distinct context); sys: runs of the real processor with 2-5 concurrent callers "
             "in distinct/shared contexts, partial sends, cancellations at random points, a downstream consumer that honours "
             "cancellation (non-trivial = at least one export; distinct by configuration+outcome); a run in which callers under live contexts never return while other requests had their contexts cancelled is charged to C18 (live-callers-stuck-after-foreign-cancel); 60% of the runs give three of four caller contexts their own remote / unsampled span and install an SDK tracer provider with a span recorder: the recorded export span of every multi-context export must link to each contributor span (contributor-span-not-linked)",
        trusted_base=BP_TB,
        assumptions=["a context label stands for one context.Context value (the harness gives every context object its own label)",
                     "span links are observed at function level (parentSpans) and through the export_start hook, not through a tracing SDK"],
    ),
    "C05": dict(
        runs=[
            dict(harness="bp", name="split",
                 args=lambda tier, seed, casedir, coq: ["split", "--n", str(q(tier, 300, 10000)), "--seed", str(seed)], coq_timeout=3000),
            dict(harness="bp", name="batch",
                 args=lambda tier, seed, casedir, coq: ["batch", "--n", str(q(tier, 300, 6000)), "--seed", str(seed)], coq_timeout=3000),
            bp_sys("C05", 120, 1500),
        ],
        rule="split: random forests (1-4 resources, 0-3 scopes, 0-5 items, empty containers, all metric types incl. empty) cut at a random "
             "size through the real splitTraces/Logs/Metrics, model output compared cell for cell (non-trivial = a real split, distinct by content); "
             "batch: random add / splitBatch sequences (send_batch_max_size 0-6, exact-boundary hits counted) on the real per-signal accumulator vs split_batch of Shard.v, every returned request "
             "re-read at the end of the sequence (a change = it shares memory with the live buffer); sys: whole-processor runs, every item traced by content+identity path from Consume to export",
        trusted_base=BP_TB,
        assumptions=["container identity = (attributes, dropped count | name, version,… ; schema URL | metadata) rendered canonically by the harness",
                     "requests issued after Shutdown has been called are outside the property (they are released and ignored)"],
    ),
    "C09": dict(
        runs=[dict(harness="bp", name="batch",
                 args=lambda tier, seed, casedir, coq: ["batch", "--n", str(q(tier, 300, 6000)), "--seed", str(seed)], coq_timeout=3000),
            bp_sys("C09", 50, 1000)],
        rule="whole-processor runs over (send_batch_size, send_batch_max_size, timeout) incl. zeros and max==size with real timers; "
             "the shard's recorded input sequence is replayed through the Coq model and every send (trigger, size) must match; "
             "for runs without a concurrency limit the timed trace (microsecond stamps of the event log) of every shard must be accepted by Batch/Time.v "
             "(time_mismatch: a timer case no earlier than 5 ms before the model's expiry, no event later than expiry + delta) and every (accept, send) time pair of every "
             "request/export must satisfy send <= accept + timeout + delta (time_propfail); one run in 20 (plus a third of the others) is a steady trickle below send_batch_size; on the event log of every run with a timer, what a shard still holds when it takes its next event must be below send_batch_size (full-buffer-not-flushed)",
        trusted_base=BP_TB + ["goroutine scheduling latency, the choice of select among ready cases and a send blocked on the semaphore are the parameter delta of well_timed (5x timeout + 200 ms on trickle runs, + 2 s otherwise)",
                              "the clock of the theorem is the time at which the shard loop handles an event; the delay between a caller's Consume call and the loop's receive is not modelled"],
        assumptions=["time stamps are those of the verif event log (monotonic clock, taken under the log's mutex at the hook)"],
    ),
    "C06": dict(
        runs=[bp_sys("C06", 100, 2000)],
        rule="whole-processor runs with 1-5 concurrent callers whose requests are merged and split across batches, injected export failures "
             "(40% of exports), cancellations at random points, a third of the runs in merge-and-cancel mode (several callers' small requests merged into one slow export while some of their contexts end); per shard the apportioning (waiter, count) of every send is compared with the model, "
             "per call the responses delivered to its channel are replayed through the waitForItems model and compared with what the call returned; per shard that ended with the final flush "
             "the responses every caller really received are compared (as multisets) with those Batch/EndToEnd.v derives from the shard's history and the real export outcomes (e2e_mismatch), "
             "and must cover exactly the caller's items (e2e_propfail)",
        trusted_base=BP_TB + ["Go errors.Is / errors.Join / Unwrap semantics (the result is represented by the set of export errors it wraps)"],
        assumptions=["a call whose context was cancelled before it returned is only required to return a context error (promptness is not timed)"],
    ),
    "C10": dict(
        runs=[bp_sys("C10", 50, 1500),
              dict(harness="bp", name="race",
                   args=lambda tier, seed, casedir, coq: ["race", "--n", str(q(tier, 3000, 100000)), "--seed", str(seed)], coq_timeout=3000)],
        rule="whole-processor runs with metadata_keys of 1-3 (mixed-case) keys, values absent / empty / single / multi-valued, limits 0-3, 3-7 concurrent "
             "callers racing for the last slots; race: 3000 rounds (thorough 100000) of up to 16 goroutines released together, each the first arrival of a distinct combination, limit 1-3; same-shard relation, export-visible metadata and admission counts evaluated by the Coq model; a combination refused for the limit must stay refused: a later request with it that is acknowledged, fails otherwise or never returns is a violation (refused-combination-later-accepted)",
        trusted_base=BP_TB + ["attribute.NewSet equality is modelled as per-key equality of String/StringSlice attributes; sync.Map Load/LoadOrStore and the mutex are atomic events"],
        assumptions=["combination strings are interned by the harness; requests after Shutdown are outside the domain"],
    ),
    "C11": dict(
        runs=[dict(harness="bp", name="batch",
                 args=lambda tier, seed, casedir, coq: ["batch", "--n", str(q(tier, 300, 6000)), "--seed", str(seed)], coq_timeout=3000),
            bp_sys("C11", 140, 2000),
            dict(harness="bp", name="sysrace", race=True, tiers=("thorough",),
                 args=lambda tier, seed, casedir, coq: ["sys", "--focus", "C11", "--n", "300", "--seed", str(seed)], timeout=3000)],
        rule="whole-processor runs with max_concurrency in {0,1,2,3}, 2-7 callers, random export latencies/failures/cancellations, Shutdown while items are "
             "buffered or callers wait; the recorded event log must be a trace of the protocol LTS (every step enabled) and its response events (recv / send tuples / respond delivered or skipped) a trace of Batch/Resp.v, max in-flight measured at the "
             "downstream consumer, every export returned before Shutdown returned, 20 s watchdog for deadlocks; an item a shard received that is not exported when Shutdown has returned is charged to the drain clause (accepted-item-not-exported-at-shutdown)",
        trusted_base=BP_TB + ["data-race freedom and goroutine leaks are runtime properties outside the model (goroutine count and -race runs are evidence only)"],
        assumptions=["downstream consumers return (possibly with an error); requests issued after Shutdown was called are outside the domain"],
    ),
    "C14": dict(
        runs=[
            dict(harness="codec", name="alloc",
                 args=lambda tier, seed, casedir, coq: ["alloc", "--n", str(q(tier, 400, 10000)), "--seed", str(seed)], coq_timeout=3000),
            dict(harness="codec", name="memlimit",
                 args=lambda tier, seed, casedir, coq: ["memlimit", "--n", str(q(tier, 40, 400)), "--seed", str(seed)], timeout=3000),
        ],
        rule="alloc: random well-bracketed op sequences (allocate / grow / shrink / free, sizes 0..limit+10, limits 0..65536) on the real LimitedAllocator, "
             "refusal flag, reported request and in-use after every operation compared with the model; memlimit: real producer histories (1-4 trace batches) "
             "decoded by the real consumer under 10 limits from 16 B to 70 MiB, outcome class, errors.Is recognisability, published in-use (own MeterProvider), "
             "equality of decoded telemetry across accepting limits, monotonicity of the first refused batch in the limit; schema-switch cases (a big logs batch, then a small one re-announcing every payload type "
             "under new schema ids — the memory it needs does not depend on the first) swept over 16 limits: once decodable, decodable under every larger limit; after a refusal every later valid batch must be decoded or refused with an error recognisable as the memory-limit error (later-refusal-not-recognisable); a third of the cases are histories built around a refusal forced at a chosen related table X (all 49 pairs X, Y: Y behind X in the next batch, Y alone in the one after)",
        trusted_base=["modelled, not verified: arrow-go (its recover turning the LimitError panic into Reader.Err, its allocation sequence being independent of the limit), "
                      "Go errors.Is/As over %w / werror.Wrap chains"],
        assumptions=["block sizes and limits below 2^62 (Go ints; the default limit is 70 MiB)", "after a refused batch the sub-stream is desynchronised: later batches only need not panic"],
    ),
    "C13": dict(
        runs=[dict(harness="codec", name="dict",
                   args=lambda tier, seed, casedir, coq: ["dict", "--n", str(q(tier, 240, 4000)), "--seed", str(seed)], timeout=3000, coq_timeout=3000)],
        rule="field: random op sequences (AddTotal+SetCardinality / RevertCounters; cardinalities around 255, 65535, 2^32; limits 0,100,255,1000,65535,70000,2^32-1,2^64-1; "
             "thresholds 0..2.5) on the real transform.DictionaryField, index cap / cumulative total / event kind after every op compared with the model; "
             "rec: the real RecordBuilderExt on a 2-column schema (Dictionary8, Dictionary16) driven through the same retry loop as arrow_record.recordBuilder over 1-5 batch "
             "histories with fresh/reused values and externally requested schema updates, outcome per batch (views, attempts, or budget exhausted) compared with the model; "
             "prod: the real producer under every dictionary limit option x 3 thresholds on streams with unique span names, every dictionary column of every transmitted record inspected; histories with every string column of every record unbounded at once, after an opening batch that leaves all optional struct children absent; every dictionary column of every transmitted record must carry the id under which the overflow detection visits it (prod_mismatch); under the 32/64-bit limits, histories with only the 32-bit enum columns unbounded (8 x 25000 items, no other schema update)",
        trusted_base=["modelled, not verified: arrow-go dictionary builders (memo table kept across records of one builder, emptied when the builder is recreated)",
                      "the float comparison card/total < threshold is represented by an exact rational (midpoint rounding argument, DESIGN.md 6/C13)"],
        assumptions=["counts below 2^50", "termination of the retry loop is not part of C13 (C04/C08)"],
    ),
    "C17": dict(
        runs=[
            dict(harness="obf", name="feistel",
                 args=lambda tier, seed, casedir, coq: ["feistel", "--n", str(q(tier, 200, 5000)), "--seed", str(seed)], coq_timeout=3000),
            dict(harness="obf", name="obf",
                 args=lambda tier, seed, casedir, coq: ["obf", "--n", str(q(tier, 120, 3000)), "--seed", str(seed)], coq_timeout=3000),
        ],
        rule="feistel: byte strings of every length 0..13 (all small lengths several times), 2-10 rounds, through the real FPECipher.Encrypt; the round function is tabulated "
             "from the library's own helpers and the model must reproduce the ciphertext byte for byte; obf: generated traces/logs/metrics (attributes of every value type incl. "
             "nested lists/maps, empty, one-byte and non-ASCII strings, empty keys) through real processor instances in both modes (encrypt_all; lists with listed and unlisted keys "
             "present, also an empty list), 1-3 documents per instance; input and output aligned by the model to extract the substitution table, which must be one length-preserving "
             "injective function per instance, and the model run with that table must reproduce the output exactly; the generator draws every pdata field of the three signals (flags, ids, dropped counts, exemplars with filtered attributes, metric metadata, bucket lists, quantiles) and every field the processor must not touch is part of the untouched-field markers; a third of the calls run under a context that ends at its n-th Err() look: whatever is forwarded must be obfuscated all the same",
        trusted_base=["SHA-256 and the key are abstracted into an arbitrary length-preserving round function F (the theorems hold for every F)",
                      "pdata Map/Slice semantics (Range order = insertion order, Put overwrites in place, CopyTo replaces) modelled as list operations"],
        assumptions=["attribute maps have distinct keys (pdata invariant)", "list mode: a renamed listed key does not collide with another key of the same map (visible hypothesis of C17_structure_list)"],
    ),
    "C08": dict(
        runs=[
            dict(harness="codec", name="gen", phase="gen", args=lambda tier, seed, casedir, coq: ["gen", "--out", casedir]),
            dict(harness="codec", name="robust",
                 args=lambda tier, seed, casedir, coq: ["robust", "--n", str(q(tier, 300, 5000)), "--seed", str(seed), "--tier", tier], timeout=3000),
        ],
        rule="gen: every explicit panic(...) call of the producer/consumer packages extracted with go/ast from the current source (must be within the classified baseline); "
             "robust: histories of 1-5 generated batches (traces, logs, metrics, or interleaved) with degenerate shapes (all-zero / empty bucket lists and bounds, empty metrics, "
             "unset values, empty keys, nested values, boundary numerics) on one producer, each outcome classified ok/error/panic(site); boundary: 65535 and 65537 attribute-bearing spans, "
             "65537 log records, 65537 metrics, a warm producer given 65537 resources and then a valid batch, the dictionary reset regime at an 8-bit limit; a third of the histories draw strings that are not valid UTF-8; a tenth open with an all-zero batch; boundary cases with extreme sizes (70 KB names, 2 MB values, 20001 children of one item) under default, WithSchemaStats and all diagnostic options; resources A, B, A, C, B with scopes x, y, x under every span ordering; 60000-item batches that need a schema update",
        trusted_base=["the encoders' column appends are not modelled statement by statement (result classes are the tie); the panic-site extractor (go/ast) and the classification by rule in Stream/PanicBaseline.v",
                      "implicit panics (nil dereference, index, type assertion) are found by the harness only"],
        assumptions=["optional-field discovery needs at most 3 rebuilds on the prototype schemas (depth of optional nesting), leaving 2 of the 5 allowed retries to dictionary events"],
    ),
    "C07": dict(
        runs=[dict(harness="codec", name="faults",
                   args=lambda tier, seed, casedir, coq: ["faults", "--n", str(q(tier, 40, 800)), "--seed", str(seed)], timeout=3000, coq_timeout=3000)],
        rule="for each of the three signals: a valid prefix of 1-3 batches through the real producer/consumer, then the next batch altered by ~21 fault lists (every single fault kind: relabel to an "
             "unknown / another / the main type, drop, duplicate, swap, reverse, empty, unknown schema id, stale schema id when the stream has one; pairs of random faults; the unaltered batch), each on "
             "a fresh consumer that consumed the prefix; then one more valid batch (only the consumer's own stream table must not crash there). The IPC library's answers per payload are logged by the "
             "verif hook and fed to the Coq model, whose verdict must be compatible with the real result; the main record under every other payload type of the signal (success with nothing = violation), bare-span batches",
        trusted_base=["arrow-go IPC reader behaviour on damaged payloads is an input of the model (observed through the verif hook in Consumer.Consume)",
                      "the table decoders' verdict is not observed: the model may say decoded/nothing where the real consumer reports a decoding error"],
        assumptions=["payload-level faults only; sending one sub-stream's bytes under another live schema id (splicing) and bit flips are outside the domain",
                     "after a damaged batch the sub-streams may be out of step: on the following batch only panics inside Consumer.Consume are reported"],
    ),
    "C12": dict(
        runs=[dict(harness="codec", name="framing",
                   args=lambda tier, seed, casedir, coq: ["framing", "--n", str(q(tier, 80, 2000)), "--seed", str(seed)], timeout=3000, coq_timeout=3000)],
        rule="stream histories of 2-7 batches on one producer: one signal or interleaved traces/logs/metrics, options default / no zstd / no dictionary / 8-bit dictionary limit (overflow) / 8-bit limit with "
             "reset threshold 1.0 (reset), batches large enough to cross the dictionary limit; per payload the (type, stream key = [prefix:]SchemaToID) is fed to the model whose predicted batch ids and schema "
             "ids must equal the observed ones; the property is evaluated on the real batches (first payload main, types unique, related payloads non-empty, schema id -> (type, key) a function, closed ids not "
             "reused) and an independent ipc.Reader per schema id must decode every payload to the record that was written; statistics reads (GetAndResetStats) between batches are ops of the history given to the model (Batch / ResetStats); a fifth of the histories contain a Produce call that fails half-way (injected allocator refusal during an IPC write) and go on: Failed ops of the history given to the model, the following batches checked like all others",
        trusted_base=["arrow-go IPC writer/reader (one writer per live schema id; dictionary deltas/replacements; zstd) — validated on every run by the independent reader"],
        assumptions=["a stream key belongs to one payload type (consistent_inputs): main keys are schema signatures of different schemas, related keys carry a per-type prefix"],
    ),
    "C01": dict(
        runs=[dict(harness="codec", name="rt_traces", args=lambda tier, seed, casedir, coq: ["rt_traces", "--n", str(q(tier, 70, 3000)), "--seed", str(seed)], timeout=3000, coq_timeout=3000)],
        rule="stream histories of 1-5 trace batches (1-7 spans per scope, 0-2 resources x 0-2 scopes, events, links, every AnyValue type incl. nested lists/maps, empty keys and unset values, boundary numerics, "
             "near-identical resources/scopes differing only in value type or embedded delimiters, repeated and fresh strings; a quarter of the histories low-entropy: every name/key/value/timestamp from a pool of one or two, "
             "so sorted groups span tables and repeat across batch boundaries; 30% of the histories under producer options — 8-bit dictionary limit with reuse (reset) or without (overflow), no dictionary, no zstd — with sliding-window name batches) through the real producer and consumer, the consumer lagging 0-2 batches behind the producer (decoded in stream order), plus one long stream per run (1200 small batches under a 512 KiB consumer memory limit, Go-side comparison); per batch (a) the equivalence predicate of Otlp/Equiv.v "
             "evaluated in Coq on real input vs real output, (a') the real ResourceID/ScopeID string of every generated resource and scope compared byte for byte with Otlp/Ids.v (atom renderers tabulated per case), (b) the real attribute tables and id columns decoded by the Coq model and compared with what the real consumer attached to every row, and re-encoded to the real parent-id column, (c) the real span-event and span-link tables (ids, name / trace-id keyed parent ids, their 32-bit attribute tables) decoded by the model: per span the children and their attributes must be those the real consumer attached; a tenth of the histories open with all-zero batches (typed zeros everywhere); attribute values include near-copies of earlier ones differing at one nested leaf by a confusable value (empty bytes / unset, 0.0 / -0.0, 1 / 1.0 / the string 1); extreme sizes and all-columns-distinct batches (Go-side comparison)",
        trusted_base=["modelled, not verified: arrow-go (builders, IPC transport, dictionaries), zstd, the CBOR byte codec (nested values are read back through common.Deserialize)",
                      "the scalar columns of the main tables are not modelled cell by cell (tie: equivalence predicate on real I/O)",
                      "identifier injectivity assumes (explicit hypothesis Ids.atoms_ok) that strconv.Quote output is self-delimiting and FormatInt/FormatUint/FormatFloat/FormatBool/hex outputs are uniquely decodable before , ] } | or the end",
                      "injectivity of ResourceID/ScopeID (strconv.Quote, FormatInt, FormatFloat) is validated by the runs, not proved"],
        assumptions=["domain of the property (timestamps <= 2^63-1; nesting <= 3 in quick runs)"],
    ),
    "C02": dict(
        runs=[dict(harness="codec", name="rt_logs", args=lambda tier, seed, casedir, coq: ["rt_logs", "--n", str(q(tier, 70, 3000)), "--seed", str(seed)], timeout=3000, coq_timeout=3000)],
        rule="as C01 for logs: bodies of every value type incl. unset, nested, empty strings/bytes; the same scope under different resources; severity/flags/ids at zero and non-zero",
        trusted_base=["modelled, not verified: arrow-go (builders, IPC transport, dictionaries), zstd, the CBOR byte codec (nested values are read back through common.Deserialize)",
                      "the scalar columns of the main tables are not modelled cell by cell (tie: equivalence predicate on real I/O)",
                      "injectivity of ResourceID/ScopeID (strconv.Quote, FormatInt, FormatFloat) is validated by the runs, not proved"],
        assumptions=["domain of the property"],
    ),
    "C03": dict(
        runs=[dict(harness="codec", name="gen", phase="gen", args=lambda tier, seed, casedir, coq: ["gen", "--out", casedir]),
              dict(harness="codec", name="rt_metrics", args=lambda tier, seed, casedir, coq: ["rt_metrics", "--n", str(q(tier, 90, 3000)), "--seed", str(seed)], timeout=3000, coq_timeout=3000)],
        rule="gen: for every Append* method of the optional-column wrappers (common/schema/builder) the condition under which a write to an absent column requests the column, extracted from the current source (must be in the baseline the wrapper model assumes); as C01 for metrics: all metric types incl. empty, data points with zero counts, all-zero and empty bucket lists / bounds, zero offsets and scales, present-but-zero and absent sum/min/max, int vs double vs unset "
             "values, quantiles, exemplars with and without attributes; the equivalence predicate (incl. presence of optional values) evaluated in Coq on real input vs output",
        trusted_base=["modelled, not verified: arrow-go (builders, IPC transport, dictionaries), zstd, the CBOR byte codec (nested values are read back through common.Deserialize)",
                      "the scalar columns of the main tables are not modelled cell by cell (tie: equivalence predicate on real I/O)",
                      "injectivity of ResourceID/ScopeID (strconv.Quote, FormatInt, FormatFloat) is validated by the runs, not proved"],
        assumptions=["domain of the property"],
    ),
    "C04": dict(
        runs=[
            dict(harness="codec", name="gen", phase="gen", args=lambda tier, seed, casedir, coq: ["gen", "--out", casedir]),
            dict(harness="codec", name="options",
                 args=lambda tier, seed, casedir, coq: ["options", "--n", str(q(tier, 70, 3000)), "--seed", str(seed)], timeout=3000, coq_timeout=3000),
        ],
        rule="gen: the exported With* options and ordering variants of pkg/config extracted from the current source (must be within the known baseline); options: per case one choice of dictionary limit "
             "(default, none, 8/16/32/64 bit) x initial index x reset threshold (unset, 0, 0.3, 1, 5) x compression (default, zstd, none) x every OrderSpanBy x every OrderAttrs16By x every OrderAttrs32By "
             "(each variant at least once, then random), a history of 2-4 batches mixing generated telemetry with dictionary-pressure batches (90-330 fresh names, repeated 1-3 times: overflow and reset regimes, "
             "crossing 255 within a batch and over the history), decoded by a DEFAULT consumer; equivalence predicate evaluated in Coq on real input/output (batches over 150 items by its Go mirror only); a quarter of the histories open with an all-zero batch (optional columns still absent); a sixth of the histories alternate the three signals on one producer over 7 batches",
        trusted_base=["Arrow transport assumption: index widths, dictionary overflow/reset and zstd do not change the logical record (validated by the independent reader of C12 on every run)",
                      "the option extractor (go/ast) and the classification in Stream/OptionsBaseline.v"],
        assumptions=["diagnostic options (statistics printing) and allocator/observer plumbing are not content options", "cardinalities crossing 65,535 are exercised in the thorough tier only"],
    ),
    "C15": dict(
        runs=[
            dict(harness="codec", name="genssa", phase="gen", args=lambda tier, seed, casedir, coq: ["genssa", "--out", casedir], timeout=1200),
            dict(harness="codec", name="memory",
                 args=lambda tier, seed, casedir, coq: ["memory", "--n", str(q(tier, 150, 3000)), "--seed", str(seed)], timeout=3000),
        ],
        rule="genssa: every call of a pdata mutator method (Set*, Put*, Remove*, MoveTo, MoveAndAppendTo, AppendEmpty, EnsureCapacity, FromRaw, Clear, CopyTo, Sort) in the encoder-side packages, found on the "
             "type-checked syntax of the current source (must be none); memory: histories of 1-6 batches (one signal or interleaved; options default / no zstd / no dictionary / 8-bit limit overflow and reset; "
             "dictionary-pressure batches; a 65537-span batch refused with an error in the middle of some histories) on a producer given a memory.CheckedAllocator: proto bytes of every input before and after "
             "encoding must be equal and the allocator must be back to 0 bytes after Close; a quarter of the memory histories run on a caller-supplied allocator that refuses one allocation during the IPC write of the k-th record of the stream (an encode error inside Produce)",
        trusted_base=["arrow-go builders/records/IPC writers release what they allocated when released/closed (library contract; the balance is measured on every run)",
                      "the typed-syntax extractor (go/packages)"],
        assumptions=["allocator refusals are injected only during IPC writes (where arrow-go reports them as errors); elsewhere an Arrow allocator is expected to succeed"],
    ),
    "C16": dict(
        runs=[
            dict(harness="codec", name="genssa", phase="gen", args=lambda tier, seed, casedir, coq: ["genssa", "--out", casedir], timeout=1200),
            dict(harness="codec", name="indep",
                 args=lambda tier, seed, casedir, coq: ["indep", "--n", str(q(tier, 25, 600)), "--seed", str(seed)], timeout=3000),
            dict(harness="codec", name="indeprace", race=True, tiers=("thorough",),
                 args=lambda tier, seed, casedir, coq: ["indep", "--n", "60", "--seed", str(seed)], timeout=3000),
        ],
        rule="genssa: every Store / MapUpdate whose address derives from a package-level variable, outside package initialisation, in the SSA form of everything reachable from pkg/otel/arrow_record "
             "(must be within the protobuf-registration whitelist), and every package-level variable whose type can reach memory (must be an error value, an immutable library prototype or a read-only lookup table); "
             "indep: 2-8 producer/consumer pairs with different options and histories (every other case: 2-4 streams of one signal sharing a vocabulary of one or two names/keys/values in large tables) "
             "run (a) concurrently in free goroutines and (b) three times under a cooperative scheduler — one goroutine at a time, hand-over decided by the PRNG at every allocator call of the producer, "
             "i.e. inside the encoders' loops — each stream's decoded output and the memory its consumer reports after every batch compared with the same stream run alone; all consumers of a case are built from one set of option values; "
             "the consumer of a stream follows its producer in one of three ways (alternating; lagging behind a queue of 1..n messages; in its own goroutine fed through a channel) and the decoded stream must be the same in all; "
             "every stream's produce/consume schedule is run through the message-ownership model (Indep/Alias.v: messages in flight are values) and what the real consumer decoded at each step must be the message the model reads (alias_mismatch); "
             "genssa also lists option constructors that capture (or pass to another option constructor) reference-like state they created themselves (must be none); every fifth case gives stream 0 a value its own consumer refuses (a map nested 40 deep): the other, valid, streams must decode without a single error alone and beside it (valid-stream-fails)",
        trusted_base=["data-race freedom is outside the model (Go memory model); the go/ssa extractor", "instances share no state by construction (each NewProducer/NewConsumer builds its own builders, allocators, maps)"],
        assumptions=["race-detector runs are supporting evidence in the thorough tier only"],
    ),
}
