HOOK_COMMITS = ["64417067"]

_BP_NOTE = ("Trusted: Coq 8.16.1 kernel + vm_compute; no axioms (Print Assumptions: closed under the global context); the Go harness and "
            "the verif hooks; Go channel/select/mutex/semaphore/timer semantics and pdata container operations are modelled as atomic "
            "events / list operations, not verified. The theorem is about the model; the tie is the per-run differential.")

TEXTS = {
    "C18": dict(
        text="Theorems over the model of allSameContext/parentSpans/export-context choice for ALL contributor lists (any length, any position "
             "of the differing context): isolation (an export depends on caller context d only if every contributor used d), single-context "
             "parentage, multi-context links. Tied to the code on every run by an exhaustive differential of the real functions (all patterns "
             "up to length 6 over 3 contexts) and by trace validation of whole-processor runs with cancellations.",
        design_ref="DESIGN.md 6/C18", note=_BP_NOTE, technique="Coq proof over a Gallina model + exhaustive function differential + trace validation"),
    "C05": dict(
        text="Theorems: split conservation for every forest and size (items, order, container identities incl. schema URLs/metadata), and for "
             "the shard state machine over EVERY event sequence (= every schedule of arrivals, timer fires, shutdown): exported ++ buffered = "
             "received, final flush leaves nothing. Tied by a cell-for-cell differential of the real split functions and by replaying each "
             "real shard's recorded input sequence through the model (sends must match), plus item tracing on whole runs.",
        design_ref="DESIGN.md 6/C05", note=_BP_NOTE, technique="Coq proof (induction over event sequences) + split differential + trace validation"),
    "C09": dict(
        text="Theorems over every event sequence of a shard: every send is non-empty, within send_batch_max_size, sized as declared; after every "
             "step fewer than send_batch_size items are buffered (timer) or none (no timer). The deadline half is a virtual-time statement; "
             "wall-clock latency is evidence only. Tied by replaying recorded shard inputs (with real timers) through the model.",
        design_ref="DESIGN.md 6/C09", note=_BP_NOTE + " Partial: scheduler/timer latency is outside the model.", technique="Coq proof (invariant over event sequences) + trace validation"),
}

NOT_APPLICABLE = []
