HOOK_COMMITS = ["64417067", "92b79788", "852cf1e2", "f5e02400"]

_BP_NOTE = ("Trusted: Coq 8.16.1 kernel + vm_compute; no axioms (Print Assumptions: closed under the global context); the Go harness and "
            "the verif hooks; Go channel/select/mutex/semaphore/timer semantics and pdata container operations are modelled as atomic "
            "events / list operations, not verified. The theorem is about the model; the tie is the per-run differential.")

TEXTS = {
    "C18": dict(
        text="Theorems over the model of allSameContext/parentSpans/export-context choice for ALL contributor lists (any length, any position "
             "of the differing context): isolation (an export depends on caller context d only if every contributor used d), single-context "
             "parentage, multi-context links. Tied to the code on every run by an exhaustive differential of the real functions (all patterns "
             "up to length 6 over 3 contexts) and by trace validation of whole-processor runs with cancellations.",
        design_ref="DESIGN.md 6/C18", note=_BP_NOTE, technique="Coq proof over a Gallina model + exhaustive function differential + trace validation"),
    "C05": dict(
        text="Theorems: split conservation for every forest and size (items, order, container identities incl. schema URLs/metadata), and for "
             "the shard state machine over EVERY event sequence (= every schedule of arrivals, timer fires, shutdown): exported ++ buffered = "
             "received, final flush leaves nothing. Tied by a cell-for-cell differential of the real split functions and by replaying each "
             "real shard's recorded input sequence through the model (sends must match), plus item tracing on whole runs.",
        design_ref="DESIGN.md 6/C05", note=_BP_NOTE, technique="Coq proof (induction over event sequences) + split differential + trace validation"),
    "C09": dict(
        text="Theorems over every event sequence of a shard: every send is non-empty, within send_batch_max_size, sized as declared; after every "
             "step fewer than send_batch_size items are buffered (timer) or none (no timer). The deadline half is a virtual-time statement; "
             "wall-clock latency is evidence only. Tied by replaying recorded shard inputs (with real timers) through the model.",
        design_ref="DESIGN.md 6/C09", note=_BP_NOTE + " Partial: scheduler/timer latency is outside the model.", technique="Coq proof (invariant over event sequences) + trace validation"),
    "C06": dict(
        text="Theorems: per-waiter apportioning is exact over every shard history (told-about + pending = submitted; everything after the final flush); "
             "the caller's loop returns exactly when responses adding up to its items have arrived, in any order, with an error wrapping precisely the "
             "failing exports (nil iff all succeeded); a context end is honoured at the next step. Tied by replaying real shard inputs and the real "
             "response sequences of each call through the model.",
        design_ref="DESIGN.md 6/C06", note=_BP_NOTE + " errors.Is/Join semantics trusted.", technique="Coq proof (induction over histories and response lists) + trace validation"),
    "C10": dict(
        text="Theorems: same shard iff equal value lists on every configured key; the metadata an export sees agrees with every request of its shard; for "
             "every interleaving of lock-free lookups and locked admissions at most `limit` combinations are admitted and refusals happen only at the limit. "
             "Tied by evaluating the model on the shard assignment, export metadata and admissions observed in concurrent runs.",
        design_ref="DESIGN.md 6/C10", note=_BP_NOTE, technique="Coq proof (invariant over interleavings) + trace validation"),
    "C11": dict(
        text="Theorems over every interleaving of the protocol LTS (shard loops, semaphore, WaitGroup, export goroutines, Shutdown): in-flight <= "
             "max_concurrency; Shutdown returns only with all loops returned and no export in flight; an internal step is always enabled (no deadlock, given "
             "exports return). Partial: data races and goroutine leaks are runtime properties. Tied by checking that each run's event log is a trace of the LTS.",
        design_ref="DESIGN.md 6/C11", note=_BP_NOTE + " Partial: race freedom / leaks not expressible.", technique="Coq proof (LTS invariants, progress) + trace acceptance"),
    "C14": dict(
        text="Theorems over the model of LimitedAllocator with its uint64 wrap-around arithmetic, for EVERY well-bracketed sequence of allocate / resize (growing or "
             "shrinking) / free: in-use equals the sum of live blocks and never exceeds the limit; a refusal changes nothing and reports a request that really does "
             "not fit; raising the limit keeps every accepted operation accepted with the same in-use; a LimitError is recognisable through any wrapper chain. "
             "Partial: the arrow-go recover path is a library contract, checked on every run by decoding real streams under 10 limits.",
        design_ref="DESIGN.md 6/C14", note="Trusted: Coq kernel + vm_compute; no axioms; the Go harness. arrow-go internals and Go errors.Is are modelled/assumed, re-validated by correspondence.",
        technique="Coq proof (invariant over op sequences, mod 2^64 arithmetic) + allocator differential + consumer-under-limits runs"),
    "C13": dict(
        text="Theorem over the model of DictionaryField + RecordBuilderExt.NewRecord/UpdateSchema + the producer's retry loop, for EVERY history of batches, any number of "
             "dictionary columns, every limit and threshold: each transmitted dictionary has at most as many entries as its index type addresses, the index type is within "
             "the configured limit, none exists when dictionaries are disabled. Tied three ways on every run: op differential of the real DictionaryField, record-level "
             "differential of the real RecordBuilderExt (incl. budget exhaustion), inspection of every record the real producer emits under every limit option.",
        design_ref="DESIGN.md 6/C13", note="Trusted: Coq kernel + vm_compute; no axioms; Go harness; arrow-go dictionary builders assumed to memoise per builder.",
        technique="Coq proof (invariant over histories) + op-sequence and record-level differentials + producer output inspection"),
    "C17": dict(
        text="Theorems: the Feistel FPE structure is length-preserving and injective for EVERY round function, every number of rounds, every byte string; the processor's "
             "copy-rebuild-copy-back of attribute maps keeps every attribute in place in encrypt_all mode (keys renamed injectively) and, in list mode, keeps unlisted "
             "attributes untouched (one visible no-collision hypothesis). Tied by reproducing the real cipher byte for byte from a tabulated round function and by aligning "
             "real processor input/output through the model (one injective, length-preserving substitution table per instance; model output = real output).",
        design_ref="DESIGN.md 6/C17", note="Trusted: Coq kernel + vm_compute; no axioms; Go harness; SHA-256 abstracted; pdata container semantics modelled.",
        technique="Coq proof (injectivity of unbalanced Feistel for arbitrary F; map rebuild lemma) + cipher and processor differentials"),
    "C08": dict(
        text="Theorem: for every record state and batch the retry loop never exhausts its budget on dictionary events (after the fix of the reset rule) — the one panic whose "
             "reachability is a real termination question; generated obligation: every explicit panic site of the current source is in a classified baseline (re-extracted with "
             "go/ast on every run). Partial: the encoders are not modelled statement by statement; implicit panics are searched by running the real producer on random, degenerate "
             "and boundary histories (result class per batch), which is also where the four defects repaired by fix: commits were exhibited.",
        design_ref="DESIGN.md 6/C08", note="Trusted: Coq kernel + vm_compute; no axioms; go/ast extractor; Go harness. The field-discovery pass bound is an assumption validated by the runs.",
        technique="Coq proof (termination measure of the retry loop) + generated panic-site obligation + result-class correspondence"),
    "C07": dict(
        text="Theorems over the model of Consumer.Consume and the payload dispatch, for EVERY consumer state, payload list and answer of the IPC library: no panic; success-with-nothing only "
             "when no main record was read; a well-formed batch is decoded. Partial: library behaviour on damaged bytes is a quantified input, not modelled. Tied by running the real consumer on "
             "valid prefixes followed by systematically altered batches, feeding the library answers logged by the hook to the model and comparing verdicts; this exhibited the three defects "
             "repaired by fix: commits (dropped error, nil reader, exp-histogram optional columns).",
        design_ref="DESIGN.md 6/C07", note="Trusted: Coq kernel + vm_compute; no axioms; Go harness + verif hook in consumer.go; arrow-go reader behaviour is an input.",
        technique="Coq proof (total model of the stream-table and dispatch logic) + fault-injection differential"),
    "C12": dict(
        text="Theorems over the model of Producer.Produce for EVERY history of record messages: batch ids count up from zero; a schema id denotes one payload type and one schema over the whole stream; "
             "every emitted id belongs to a live stream producer with a fresh id, at most one per payload type. Partial: IPC-stream validity per schema id is the Arrow library's contract, checked on every "
             "run with an independent reader. Tied by predicting batch ids and schema ids of real histories (interleaved signals, schema changes, dictionary overflow/reset, compression on/off).",
        design_ref="DESIGN.md 6/C12", note="Trusted: Coq kernel + vm_compute; no axioms; Go harness; arrow-go IPC (validated by the independent reader).",
        technique="Coq proof (invariant over histories of the stream-producer table) + framing differential + independent reader"),
    "C01": dict(
        text="Theorems for every input and every row order: attribute tables give each parent back exactly its attributes (group-delta parent ids mod 2^16/2^32, any grouping relation, the decoder's store), "
             "delta-encoded id columns round-trip, counter-assigned ids never trip the delta builders, the equivalence checker is sound. Partial: span scalar columns and the whole-pipeline composition are tied, "
             "not proved: the equivalence predicate (with the documented normalisations defined in Coq) is evaluated on the real input/output of every batch of generated histories and the model decoder is compared with the real one table by table.",
        design_ref="DESIGN.md 6/C01", note="Trusted: Coq kernel + vm_compute; no axioms; Go harness; arrow-go/zstd/CBOR assumed (validated per run). Partial: scalar columns and the composition are tied by the equivalence predicate on real I/O.", technique="Coq proof (table codecs for any row order) + equivalence predicate evaluated in Coq on real I/O + table-level decoder differential"),
    "C02": dict(
        text="As C01 for the logs tables (shared id/attribute machinery); bodies and scalar columns tied by the equivalence predicate evaluated in Coq on real I/O of generated histories.",
        design_ref="DESIGN.md 6/C02", note="Trusted: Coq kernel + vm_compute; no axioms; Go harness; arrow-go/zstd/CBOR assumed (validated per run). Partial: scalar columns and the composition are tied by the equivalence predicate on real I/O.", technique="Coq proof (table codecs) + equivalence predicate in Coq on real I/O + table-level decoder differential"),
    "C03": dict(
        text="Theorems: presence of optional values is preserved by the non-eliding wrapper (and was lost by the eliding one: the recorded, now fixed, finding), zero elision is harmless for value-only fields, parent-id/id "
             "machinery as C01. Partial: the 13 metric tables are tied by the equivalence predicate (presence included) evaluated in Coq on real I/O of generated histories over all metric types and degenerate shapes.",
        design_ref="DESIGN.md 6/C03", note="Trusted: Coq kernel + vm_compute; no axioms; Go harness; arrow-go/zstd/CBOR assumed (validated per run). Partial: scalar columns and the composition are tied by the equivalence predicate on real I/O.", technique="Coq proof (wrappers, table codecs) + equivalence predicate in Coq on real I/O"),
    "C04": dict(
        text="Theorems: under every attribute ordering (any permutation of the rows) the decoder recovers all parent ids; schema evolution terminates within the retry budget for every limit, threshold, state and batch; "
             "generated obligation: the option space of the current source is the known one. Partial: that index widths / overflow / reset / compression do not change the logical record is the Arrow transport assumption "
             "(validated per run). Tied by decoding, with a default consumer, histories produced under every option choice and evaluating the equivalence predicate in Coq on real I/O; this exhibited the ordering and "
             "reset-loop defects repaired by fix: commits.",
        design_ref="DESIGN.md 6/C04", note="Trusted: Coq kernel + vm_compute; no axioms; go/ast extractor; Go harness; Arrow transport assumption.",
        technique="Coq proof (order-independent parent-id codec, retry-loop termination) + generated option space + options x histories differential"),
    "C15": dict(
        text="Generated fact re-checked on every run: the encoder-side packages contain no call of a pdata mutator (so the input cannot be modified); theorems on a ledger model: exactly one live record leaves "
             "the retry loop however often records are discarded and rebuilt, and Produce releases every record exactly once when no write fails. Partial: that arrow-go returns memory on Release/Close is the library's "
             "contract. Tied by measuring, on the real producer with a CheckedAllocator, proto bytes before/after and the allocator balance after Close over histories with schema updates, overflow/reset and encode errors.",
        design_ref="DESIGN.md 6/C15", note="Trusted: Coq kernel; no axioms; go/packages extractor; Go harness; arrow-go release contract.",
        technique="generated source fact (typed syntax) + Coq ledger lemmas + allocator-balance and input-bytes measurement"),
    "C16": dict(
        text="Theorem: for any number of instances and every interleaving of instance-local steps, each instance's outputs and final state equal those of its solo run; its premise is tied to the code by a generated fact "
             "re-checked on every run: no store to package-level state outside initialisation in anything reachable from the producer/consumer package (SSA scan). Partial: data-race freedom is a runtime property "
             "(concurrent-vs-solo runs, and -race in the thorough tier, are evidence).",
        design_ref="DESIGN.md 6/C16", note="Trusted: Coq kernel; no axioms; go/ssa extractor; Go harness. Race freedom not expressible.",
        technique="Coq proof (frame / non-interference) + generated source fact (SSA global stores) + concurrent-vs-solo runs"),
}

NOT_APPLICABLE = []
